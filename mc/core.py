"""Shared machinery: repo binding, worker pool, stats, evidence, replays,
known findings, exit codes.

Every property module (mc/props/cXX.py) exposes

    PROPERTY = "CXX"
    LEVEL    = "model_checking" | "fault_enumeration"
    def plan(tier, seed)  -> list of picklable *jobs* (shards); each job is
                             enumerated completely by one worker
    def run_job(job)      -> Stats
    def replay(case)      -> (ok: bool, text)       # plain re-execution
    RULE, ASSUMPTIONS     -> strings / list of strings for the evidence

The deciding step is always: enumerate a finite space completely, run the
real implementation on every element, compare with the oracle.
"""

import collections
import hashlib
import json
import multiprocessing
import os
import shutil
import sys
import tempfile
import time
import traceback

VERIF = os.path.dirname(os.path.dirname(os.path.abspath(__file__)))
REPO = os.environ.get("VERIF_REPO", "/repo")
NPROC = int(os.environ.get("VERIF_NPROC", "0")) or min(16, os.cpu_count() or 4)


def bind_repo():
    """Make `import mako` resolve to VERIF_REPO's working tree."""
    repo = os.path.abspath(REPO)
    if sys.path[0] != repo:
        sys.path.insert(0, repo)
    for name in list(sys.modules):
        if name == "mako" or name.startswith("mako."):
            mod = sys.modules[name]
            f = getattr(mod, "__file__", "") or ""
            if not os.path.abspath(f).startswith(repo + os.sep):
                del sys.modules[name]
    import mako  # noqa

    assert os.path.abspath(mako.__file__).startswith(repo + os.sep), (
        mako.__file__,
        repo,
    )
    return repo


_SCRATCH_ROOT = None
_SCRATCH_PID = None


def scratch_root():
    """Process-private scratch directory outside /repo, /verif and /tmp."""
    global _SCRATCH_ROOT, _SCRATCH_PID
    if _SCRATCH_PID != os.getpid():
        _SCRATCH_ROOT = None  # inherited over fork: belongs to the parent
        _SCRATCH_PID = os.getpid()
    if _SCRATCH_ROOT is None or not os.path.isdir(_SCRATCH_ROOT):
        base = os.environ.get("VERIF_SCRATCH")
        if not base:
            # tmpfs when available (file churn of the history/fault explorers is ~10x faster), else disk
            base = "/dev/shm" if os.path.isdir("/dev/shm") and os.access("/dev/shm", os.W_OK) else "/var/tmp"
        os.makedirs(base, exist_ok=True)
        _SCRATCH_ROOT = tempfile.mkdtemp(prefix="mako-verif-%d-" % os.getpid(), dir=base)
    return _SCRATCH_ROOT


def scratch_dir(prefix="d"):
    return tempfile.mkdtemp(prefix=prefix, dir=scratch_root())


def cleanup_scratch():
    global _SCRATCH_ROOT
    if _SCRATCH_PID != os.getpid():
        return
    if _SCRATCH_ROOT and os.path.isdir(_SCRATCH_ROOT):
        shutil.rmtree(_SCRATCH_ROOT, ignore_errors=True)
    _SCRATCH_ROOT = None


class Stats:
    """What one worker (or the whole run) covered.  Mergeable."""

    MAX_VIOL = 40
    MAX_SAMPLES = 6

    def __init__(self):
        self.evaluations = 0  # executions on the real implementation
        self.states = 0  # distinct canonical cases / states
        self.transitions = 0  # implementation steps executed
        self.traces = 0  # maximal traces run on the implementation
        self.nontrivial = 0  # distinct cases satisfying the non-trivial rule
        self.outcomes = collections.Counter()  # distinct observed outcome classes
        self.oracles = collections.Counter()  # per-oracle evaluation counts
        self.samples = []
        self.violations = []  # dicts: {sig, case, expected, observed, oracle}; <=3 kept per signature
        self.sigcount = collections.Counter()
        self.known = collections.Counter()  # known-finding id -> hits
        self.extra = {}
        self.exhaustive = True
        self.caps = []

    def sample(self, case):
        if len(self.samples) < self.MAX_SAMPLES:
            self.samples.append(case)

    def violation(self, sig, case, oracle, expected=None, observed=None):
        self.sigcount[sig] += 1
        if self.sigcount[sig] <= 3 and len(self.sigcount) <= 400:
            self.violations.append(
                {
                    "sig": sig,
                    "case": case,
                    "oracle": oracle,
                    "expected": _short(expected),
                    "observed": _short(observed),
                }
            )
        else:
            self.extra["violations_dropped"] = self.extra.get("violations_dropped", 0) + 1

    def merge(self, o):
        self.evaluations += o.evaluations
        self.states += o.states
        self.transitions += o.transitions
        self.traces += o.traces
        self.nontrivial += o.nontrivial
        self.outcomes.update(o.outcomes)
        self.oracles.update(o.oracles)
        self.known.update(o.known)
        for s in o.samples:
            self.sample(s)
        have = collections.Counter(v["sig"] for v in self.violations)
        for v in o.violations:
            if have[v["sig"]] < 3 and len(self.violations) < 1500:
                self.violations.append(v)
                have[v["sig"]] += 1
        self.sigcount.update(o.sigcount)
        for k, v in o.extra.items():
            if isinstance(v, (int, float)) and not isinstance(v, bool):
                self.extra[k] = self.extra.get(k, 0) + v
            elif isinstance(v, list):
                self.extra.setdefault(k, [])
                for x in v:
                    if x not in self.extra[k] and len(self.extra[k]) < 50:
                        self.extra[k].append(x)
            elif isinstance(v, dict):
                d = self.extra.setdefault(k, {})
                for kk, vv in v.items():
                    if isinstance(vv, (int, float)):
                        d[kk] = d.get(kk, 0) + vv
                    else:
                        d[kk] = vv
            else:
                self.extra[k] = v
        self.exhaustive = self.exhaustive and o.exhaustive
        self.caps.extend(o.caps)
        return self


def _short(x, n=2000):
    if x is None:
        return None
    try:
        json.dumps(x)
        s = x
    except Exception:
        s = repr(x)
    if isinstance(s, str) and len(s) > n:
        s = s[:n] + "...[%d more]" % (len(s) - n)
    return s


def jsonable(x):
    try:
        json.dumps(x)
        return x
    except Exception:
        if isinstance(x, dict):
            return {str(k): jsonable(v) for k, v in x.items()}
        if isinstance(x, (list, tuple, set, frozenset)):
            return [jsonable(v) for v in x]
        if isinstance(x, bytes):
            return {"__bytes__": x.hex()}
        return repr(x)


def unjson(x):
    if isinstance(x, dict):
        if set(x) == {"__bytes__"}:
            return bytes.fromhex(x["__bytes__"])
        return {k: unjson(v) for k, v in x.items()}
    if isinstance(x, list):
        return [unjson(v) for v in x]
    return x


# --------------------------------------------------------------------------
# worker pool


def _worker_init(repo, pin):
    os.environ["VERIF_REPO"] = repo
    global REPO
    REPO = repo
    bind_repo()
    import atexit

    atexit.register(cleanup_scratch)
    if os.environ.get("VERIF_DEBUG"):
        import faulthandler

        faulthandler.dump_traceback_later(25, repeat=False)
    # one CPU per worker: baton hand-offs between the threads of one worker then stay on one core
    try:
        ident = multiprocessing.current_process()._identity
        cpus = sorted(os.sched_getaffinity(0))
        if pin and ident and len(cpus) > 1:
            os.sched_setaffinity(0, {cpus[(ident[0] - 1) % len(cpus)]})
    except Exception:
        pass


def _worker_run(args):
    modname, job = args
    mod = __import__(modname, fromlist=["x"])
    try:
        st = mod.run_job(job)
    except BaseException:
        st = Stats()
        st.extra["harness_errors"] = [traceback.format_exc()[-3000:]]
    finally:
        cleanup_scratch()
    return st


def run_jobs(modname, jobs, nproc=None):
    """Run every job (each one a complete shard) and merge the stats."""
    nproc = nproc or NPROC
    total = Stats()
    if not jobs:
        return total
    if nproc == 1 or len(jobs) == 1:
        _worker_init(REPO, None)
        for j in jobs:
            total.merge(_worker_run((modname, j)))
        return total
    ctx = multiprocessing.get_context("fork")
    pin = bool(getattr(__import__(modname, fromlist=["x"]), "PIN_CPUS", False))
    with ctx.Pool(min(nproc, len(jobs)), initializer=_worker_init, initargs=(REPO, pin)) as pool:
        for st in pool.imap_unordered(_worker_run, [(modname, j) for j in jobs]):
            total.merge(st)
    return total


# --------------------------------------------------------------------------
# known findings


def load_known(prop):
    path = os.path.join(VERIF, "known_findings.json")
    if not os.path.exists(path):
        return []
    with open(path) as f:
        data = json.load(f)
    return [e for e in data.get("findings", []) if e.get("property") == prop and e.get("status") == "open"]


def match_known(known, sig):
    for e in known:
        if sig in e.get("signatures", []) or any(
            sig.startswith(p) for p in e.get("signature_prefixes", [])
        ):
            return e
    return None


# --------------------------------------------------------------------------
# order-dependent violations: replay of a sequence of cases in a fresh interpreter


def isolated_replay(modname, cases, timeout=300):
    """Run mod.replay() on each case, in order, in a fresh interpreter; returns the verdict for the last one
    (False = violation reproduced, True = holds, None = unsupported / error)."""
    import subprocess

    code = (
        "import sys, json\n"
        "sys.path.insert(0, %r)\n"
        "from mc import core\n"
        "core.bind_repo()\n"
        "mod = __import__(%r, fromlist=['x'])\n"
        "cases = json.load(sys.stdin)\n"
        "ok = None\n"
        "for c in cases:\n"
        "    ok, _ = mod.replay(core.unjson(c))\n"
        "print('VERDICT', ok)\n"
    ) % (VERIF, modname)
    env = dict(os.environ, VERIF_REPO=os.path.abspath(REPO), PYTHONHASHSEED=os.environ.get("PYTHONHASHSEED", "0"))
    try:
        pr = subprocess.run([sys.executable, "-B", "-c", code], input=json.dumps(jsonable(cases)), capture_output=True, text=True, env=env, timeout=timeout)
    except Exception:
        return None
    for line in pr.stdout.splitlines()[::-1]:
        if line.startswith("VERDICT"):
            return {"False": False, "True": True}.get(line.split()[1])
    return None


def find_prelude(modname, case, history, max_tries=48):
    """For a violation seen in a long-lived worker: the shortest prefix of earlier cases (0 or 1 of the last
    `max_tries`) after which the case fails in a fresh interpreter.  Returns a list (possibly empty) or None."""
    if isolated_replay(modname, [case]) is False:
        return []
    seen = []
    for h in reversed(list(history)[-max_tries:]):
        if h in seen:
            continue
        seen.append(h)
        if isolated_replay(modname, [h, case]) is False:
            return [h]
    return None


# --------------------------------------------------------------------------
# evidence, replay files, exit code


def write_replay(prop, v):
    d = os.path.join(VERIF, "replays", prop)
    os.makedirs(d, exist_ok=True)
    blob = json.dumps(jsonable(v), sort_keys=True, ensure_ascii=True, indent=1)
    h = hashlib.sha1(blob.encode()).hexdigest()[:12]
    path = os.path.join(d, h + ".json")
    with open(path, "w") as f:
        f.write(blob)
    return path


def finish(mod, tier, seed, st, t0):
    prop = mod.PROPERTY
    known = load_known(prop)
    real = []
    known_hits = collections.OrderedDict()
    for v in st.violations:
        e = match_known(known, v["sig"])
        if e is not None:
            known_hits.setdefault(e["id"], (e, v))
        else:
            real.append(v)
    # confirm each candidate violation by re-executing it twice (determinism)
    confirmed = []
    flaky = []
    seen_sig = set()
    skipped = 0
    for v in real:
        if v["sig"] in seen_sig and len(confirmed) >= 5:
            continue
        if len(confirmed) >= 8:
            # enough reproduced violations for a verdict: the remaining candidates are not re-executed
            skipped += 1
            continue
        seen_sig.add(v["sig"])
        oks = []
        for _ in range(2):
            try:
                if isinstance(v["case"], dict) and v["case"].get("prelude") is not None:
                    # an order-dependent case: its prelude and itself, in a fresh interpreter
                    ok = isolated_replay(mod.__name__, list(v["case"]["prelude"]) + [{k: x for k, x in v["case"].items() if k != "prelude"}])
                else:
                    ok, _txt = mod.replay(v["case"])
            except Exception:
                ok = "error:" + traceback.format_exc()[-500:]
            oks.append(ok)
        if oks[0] is False and oks[1] is False:
            confirmed.append(v)
        elif isinstance(oks[0], str) and oks[0].startswith("error:") and oks[0] == oks[1]:
            # the case the worker flagged makes the replay itself fail, the same way twice (e.g. the changed
            # library raises where the replay does not expect it): reproduced, deterministically
            v = dict(v, observed=_short("%s | replay raised: %s" % (v.get("observed"), oks[0][-200:])))
            confirmed.append(v)
        elif oks[0] is None and oks[1] is None:
            # replay not supported for this case kind: trust the worker's own
            # double execution (workers re-run before reporting)
            confirmed.append(v)
        else:
            flaky.append((v, oks))
    if skipped:
        st.extra["candidates_not_re_executed"] = skipped
    herr = st.extra.get("harness_errors")
    cov = {
        "evaluations": int(st.evaluations),
        "distinct_nontrivial": int(st.nontrivial),
        "rule": mod.RULE,
        "samples": jsonable(st.samples[: Stats.MAX_SAMPLES]) or ["<none>"],
        "states": int(st.states),
        "transitions": int(st.transitions),
        "traces_validated_against_impl": int(st.traces),
        "exhaustive": bool(st.exhaustive and not herr),
        "distinct_outcomes": len(st.outcomes),
        "outcome_histogram": {str(k): v for k, v in st.outcomes.most_common(40)},
        "oracle_evaluations": dict(st.oracles),
        "caps_hit": st.caps,
        "bounds": getattr(mod, "BOUNDS", {}).get(tier, {}),
        "known_findings_seen": {k: v[0].get("title", "") for k, v in known_hits.items()},
        "violation_signatures": {k: v for k, v in st.sigcount.most_common(60)},
    }
    for k, v in st.extra.items():
        if k != "harness_errors":
            cov[k] = jsonable(v)
    ev = {
        "property_id": prop,
        "tier": tier,
        "seed": seed,
        "level": mod.LEVEL,
        "coverage": cov,
        "assumptions": list(getattr(mod, "ASSUMPTIONS", [])),
        "wall_s": round(time.time() - t0, 2),
        "violations": len(confirmed),
    }
    # (the tools that run a check against a deliberately changed tree - tools/seed_regress.py, tools/seed_verify.py,
    # mutants/run - point VERIF_EVIDENCE_DIR elsewhere, so that evidence/ only ever describes runs against /repo)
    evdir = os.environ.get("VERIF_EVIDENCE_DIR") or os.path.join(VERIF, "evidence")
    os.makedirs(evdir, exist_ok=True)
    with open(os.path.join(evdir, prop + ".json"), "w") as f:
        json.dump(ev, f, indent=1, sort_keys=True)
        f.write("\n")
    print(
        "%s tier=%s seed=%d evaluations=%d states=%d transitions=%d nontrivial=%d outcomes=%d wall=%.1fs exhaustive=%s"
        % (
            prop,
            tier,
            seed,
            st.evaluations,
            st.states,
            st.transitions,
            st.nontrivial,
            len(st.outcomes),
            time.time() - t0,
            cov["exhaustive"],
        )
    )
    for e, v in known_hits.values():
        print("KNOWN-FINDING: property=%s %s" % (prop, e["title"]))
    if herr and not confirmed:
        for h in herr[:3]:
            print("HARNESS-ERROR:\n" + h)
        return 2
    if herr:
        # reproduced violations are the verdict; what broke in the harness besides (often the same change: a schedule
        # that no longer replays, a seam that no longer fits) is shown, and the coverage is not called exhaustive
        for h in herr[:2]:
            print("note: a part of the harness failed on this tree (coverage incomplete): " + h.strip().splitlines()[-1][:300])
    # a candidate that does not reproduce although another candidate with the same footprint does (the same
    # failure seen once in a polluted long-lived worker, once on its own) is not reported separately
    _base = lambda sg: sg.split(":only after")[0]  # noqa: E731
    okb = {_base(v["sig"]) for v in confirmed}
    dropped = [f for f in flaky if _base(f[0]["sig"]) in okb]
    flaky = [f for f in flaky if _base(f[0]["sig"]) not in okb]
    if dropped:
        print("note: %d candidate(s) seen only in a long-lived worker were not reproducible on their own; the same signature is confirmed by another case" % len(dropped))
    nrep = st.extra.get("failures_not_reproducible_in_a_fresh_interpreter", 0)
    if nrep and not confirmed and not flaky:
        print("HARNESS-ERROR: %d failing transitions were seen in long-lived workers but none reproduces in a fresh interpreter (alone or after a recent history)" % nrep)
        return 2
    if flaky and confirmed:
        # reproducible violations exist: they are the verdict; what a polluted long-lived worker saw besides is noted
        for v, oks in flaky[:5]:
            print("note: candidate seen in a worker but not reproducible on its own: sig=%s replays=%r" % (v["sig"], oks))
    elif flaky:
        for v, oks in flaky[:5]:
            print("HARNESS-ERROR: non-reproducible candidate sig=%s replays=%r" % (v["sig"], oks))
        return 2
    if confirmed:
        shown = set()
        for v in confirmed:
            if v["sig"] in shown:
                continue
            shown.add(v["sig"])
            path = write_replay(prop, {"property": prop, **v})
            print("VIOLATION property=%s replay=%s" % (prop, path))
            print("  oracle=%s sig=%s" % (v["oracle"], v["sig"]))
            print("  case=%s" % json.dumps(jsonable(v["case"]), ensure_ascii=True)[:600])
            print("  expected=%r" % (v["expected"],))
            print("  observed=%r" % (v["observed"],))
        return 1
    return 0


def main(argv=None):
    import argparse

    ap = argparse.ArgumentParser()
    ap.add_argument("prop")
    ap.add_argument("--tier", default=os.environ.get("VERIF_TIER", "quick"))
    ap.add_argument("--replay")
    ap.add_argument("--nproc", type=int)
    a = ap.parse_args(argv)
    tier = a.tier if a.tier in ("quick", "thorough") else "quick"
    seed = int(os.environ.get("VERIF_SEED", "0") or 0)
    os.environ.setdefault("PYTHONHASHSEED", "0")
    bind_repo()
    modname = "mc.props." + a.prop.lower()
    mod = __import__(modname, fromlist=["x"])
    if a.replay:
        with open(a.replay) as f:
            v = json.load(f)
        ok, txt = mod.replay(v["case"])
        print(txt)
        if ok is False:
            print("VIOLATION property=%s replay=%s" % (mod.PROPERTY, a.replay))
            return 1
        return 0
    t0 = time.time()
    jobs = mod.plan(tier, seed)
    try:
        st = run_jobs(modname, jobs, a.nproc)
        if hasattr(mod, "post"):
            mod.post(tier, seed, st)
        return finish(mod, tier, seed, st, t0)
    finally:
        cleanup_scratch()
