"""C06 helper: a small template IR, its printer into Mako syntax, a reference interpreter that never looks
at Mako, and the enumeration grids of inheritance chains.

Nothing here imports mako.

IR
    Program = {"files": {uri: File}, "main": uri, "ctx": {name: value}}
    File    = {"page": None | "z=0",                     <%page args="z=0"/>
               "inherit": None | ("s", uri) | ("d", python_expression),
               "attrs": [(name, python_literal_source)],  <%! name = literal %>
               "body": [Node]}
    Node    = ("T", text)                 literal text
            | ("E", python_expression)    ${expression}
            | ("D", name, [Node], sig)    <%def name="name(sig)">..</%def>   sig = "" | "**kw"
            | ("B", name | None, [Node])  <%block name="name">..</%block>  /  <%block>..</%block>
            | ("IF", [Node])              LF % if True: LF .. LF % endif LF      (error grid only)
            | ("C", [Node])               <%call expr="wrap()">..</%call>        (error grid only)
            | ("CN", [Node])              <%self:wrap>..</%self:wrap>            (error grid only)
            | ("INC", uri)                <%include file="uri"/>                 (family K)
    a "D" node may carry a fifth element and a named "B" node a fourth one: True = cached="True" (family M)

Reference semantics (DESIGN.md appendix A5, restating the property statement)
    render(main) follows the inherit targets main = L0 -> L1 -> .. -> Lk (a dynamic target is a Python expression
    evaluated with only `context` in scope) and runs the body of Lk.  In every callable written in level Li:
    self = view(0), local = view(i), parent = view(i+1), next = view(i-1); view(j).X is the member X (top-level def,
    named block at any depth outside defs, `body`) of Lj, else of L(j+1), .. else AttributeError; view(j).attr.X the
    same over module attributes.  A named block written in Li writes, at its position, self.X() iff no level
    i+1..k declares a member X; an anonymous block runs in place (a closure).  body(**kw) binds kw to the target's
    <%page args>.  <%include> (appendix A6): the target is rendered in place as a chain of its own - fresh self / local,
    its own parent / next, nothing of the includer's chain, no page arguments.  A cached def / block (appendix A7)
    belongs to the template it is written in: its first output for (that template, its name) is stored and written
    again by every later call, in this render and in later renders that see the same cache.  Expressions are evaluated by Python's eval() in an environment made of the render context, these
    four views, `context` and the page arguments of the running body; a def call writes in place and returns ''.
"""

import itertools
import posixpath

# --------------------------------------------------------------------------
# printer


def print_nodes(nodes, out):
    for nd in nodes:
        k = nd[0]
        if k == "T":
            out.append(nd[1])
        elif k == "E":
            out.append("${" + nd[1] + "}")
        elif k == "D":
            out.append('<%%def name="%s(%s)"%s>' % (nd[1], nd[3] if len(nd) > 3 else "", ' cached="True"' if len(nd) > 4 and nd[4] else ""))
            print_nodes(nd[2], out)
            out.append("</%def>")
        elif k == "B":
            out.append(('<%%block name="%s"%s>' % (nd[1], ' cached="True"' if len(nd) > 3 and nd[3] else "")) if nd[1] is not None else "<%block>")
            print_nodes(nd[2], out)
            out.append("</%block>")
        elif k == "IF":
            out.append("\n% if True:\n")
            print_nodes(nd[1], out)
            out.append("\n% endif\n")
        elif k == "C":
            out.append('<%call expr="wrap()">')
            print_nodes(nd[1], out)
            out.append("</%call>")
        elif k == "INC":
            out.append('<%%include file="%s"/>' % nd[1])
        elif k == "CN":
            out.append("<%self:wrap>")
            print_nodes(nd[1], out)
            out.append("</%self:wrap>")
        else:
            raise ValueError(nd)


def print_file(f):
    out = []
    if f.get("page"):
        out.append('<%%page args="%s"/>' % f["page"])
    inh = f.get("inherit")
    if inh:
        out.append('<%%inherit file="%s"/>' % (inh[1] if inh[0] == "s" else "${" + inh[1] + "}"))
    for name, lit in f.get("attrs", ()):
        out.append("<%%! %s = %s %%>" % (name, lit))
    print_nodes(f["body"], out)
    return "".join(out)


def print_program(prog):
    return {uri: f.get("_text") or print_file(f) for uri, f in prog["files"].items()}


# --------------------------------------------------------------------------
# reference interpreter


class RefMissing(AttributeError):
    pass


class RefRecursion(RecursionError):
    pass


class RefDontCare(BaseException):
    """the statement does not fix the answer from here on"""


WRAP_OPEN, WRAP_CLOSE = "w(", ")"
WRAP_DEF = ("D", "wrap", [("T", WRAP_OPEN), ("E", "caller.body()"), ("T", WRAP_CLOSE)], "")

_CODE = {}


def _compiled(src):
    c = _CODE.get(src)
    if c is None:
        c = _CODE[src] = compile(src, "<c06 expression>", "eval")
    return c


def _members(body):
    """top-level defs and named blocks at any depth outside defs / calls (calls never carry members in legal programs)"""
    found = {}

    def walk(nodes, top):
        for nd in nodes:
            if nd[0] == "D" and top:
                found[nd[1]] = nd
            elif nd[0] == "B":
                if nd[1] is not None:
                    found[nd[1]] = nd
                walk(nd[2], False)
            elif nd[0] == "IF":
                walk(nd[1], top)

    walk(body, True)
    return found


class _Attr:
    def __init__(self, ref, j):
        self._ref, self._j = ref, j

    def __getattr__(self, key):
        for lv in self._ref.levels[self._j :]:
            if key in lv["attrvals"]:
                return lv["attrvals"][key]
        raise RefMissing(key)


class _View:
    """what `self` / `local` / `parent` / `next` denote: level j searched toward the base"""

    def __init__(self, ref, j):
        self._ref, self._j = ref, j

    @property
    def attr(self):
        return _Attr(self._ref, self._j)

    @property
    def uri(self):
        return self._ref.levels[self._j]["uri"]

    def __getattr__(self, key):
        ref = self._ref
        if key == "body":
            return ref.body_callable(self._j)
        for i in range(self._j, len(ref.levels)):
            nd = ref.levels[i]["members"].get(key)
            if nd is not None:
                return ref.member_callable(i, nd)
        raise RefMissing("no member %r from level %d toward the base" % (key, self._j))


class Reference:
    def __init__(self, prog, ctx, out=None, cache=None):
        self.cache = {} if cache is None else cache  # (uri of the declaring template, member name) -> stored text
        self.ctx = dict(ctx)
        self.files = prog["files"]
        self.out = [] if out is None else out
        self.included_callables = 0
        self.depth = 0
        self.steps = 0  # render callables entered
        self.bodies = 0
        self.suppressed = 0  # named-block positions that wrote nothing
        self.overridden = 0  # named-block positions filled by a definition of a more derived level
        self.dispatch = 0  # parent./next. member calls resolved
        files = prog["files"]
        uri = prog["main"]
        self.levels = []
        seen = set()
        while True:
            if uri in seen:
                raise ValueError("inheritance cycle")
            seen.add(uri)
            f = files[uri]
            self.levels.append(
                {
                    "uri": uri,
                    "file": f,
                    "members": _members(f["body"]),
                    "attrvals": {n: eval(lit, {}) for n, lit in f.get("attrs", ())},
                }
            )
            inh = f.get("inherit")
            if not inh:
                break
            # a dynamic target sees only `context`; context['self'] is the most-derived view, which at this moment
            # reaches the levels attached so far; a target that evaluates to None means "no parent"
            if inh[0] == "s":
                target = inh[1]
            else:
                cx = dict(self.ctx)
                cx["self"] = _View(self, 0)
                target = eval(inh[1], {"__builtins__": {}}, {"context": cx})
                if target is None:
                    break
            # appendix A6: an absolute target is itself; a relative one is joined to the directory of the
            # template that contains the tag (never of the rendered template)
            uri = target if target.startswith("/") else posixpath.join(posixpath.dirname(uri), target)
        self.k = len(self.levels) - 1
        # a call stack longer than the number of distinct render callables repeats one of them; callables take no
        # data-dependent branch, so such a stack never unwinds
        self.max_depth = sum(len(lv["members"]) + 1 for lv in self.levels) + 1
        self.callables = self.max_depth - 1
        self.views = [_View(self, j) for j in range(self.k + 1)]
        self._env = {}

    # ---- environments
    def env(self, i, local_vars):
        e = self._env.get(i)
        if e is None:
            e = dict(self.ctx)
            e["self"] = self.views[0]
            e["local"] = self.views[i]
            if i < self.k:
                e["parent"] = self.views[i + 1]
            if i > 0:
                e["next"] = self.views[i - 1]
            e["context"] = dict(e)  # the context of level i holds the render arguments and these names
            self._env[i] = e
        if local_vars:
            e = dict(e)
            e.update(local_vars)
        return e

    def _enter(self):
        self.depth += 1
        self.steps += 1
        if self.depth > self.max_depth:
            raise RefRecursion()

    def body_callable(self, j):
        def body(**kw):
            self._enter()
            try:
                self.bodies += 1
                f = self.levels[j]["file"]
                lv = {}
                pageargs = kw
                if f.get("page"):
                    # "name=default" list; Python binds it
                    ns = {}
                    exec("def _sig(%s, **pageargs): return locals()" % f["page"], ns)
                    lv = ns["_sig"](**kw)
                    pageargs = lv.pop("pageargs")
                self.run(f["body"], j, lv, pageargs)
            finally:
                self.depth -= 1
            return ""

        return body

    def member_callable(self, i, nd):
        def member(**kw):
            if nd[0] == "D" and kw and "**" not in nd[3]:
                # reached from a named-block position, which forwards the page's keyword arguments: a def that
                # does not accept them cannot stand in for a block; what then happens is not fixed by the statement
                raise RefDontCare()
            cached = (len(nd) > 4 and nd[4]) if nd[0] == "D" else (len(nd) > 3 and nd[3])
            ck = (self.levels[i]["uri"], nd[1])
            if cached and ck in self.cache:
                self.out.append(self.cache[ck])
                return ""
            self._enter()
            saved = self.out
            if cached:
                self.out = []  # the section runs into a buffer of its own; an exception discards it
            try:
                self.run(nd[2], i, {}, kw if nd[0] == "B" else {})
                if cached:
                    self.cache[ck] = "".join(self.out)
            finally:
                self.out = saved
                self.depth -= 1
            if cached:
                self.out.append(self.cache[ck])
            return ""

        return member

    def run(self, nodes, i, local_vars, pageargs):
        out = self.out
        for nd in nodes:
            k = nd[0]
            if k == "T":
                out.append(nd[1])
            elif k == "E":
                code = nd[1]
                if code.startswith(("parent.", "next.")):
                    self.dispatch += 1
                out.append(str(eval(_compiled(code), self.env(i, local_vars))))
            elif k == "D":
                pass
            elif k == "B":
                if nd[1] is None:
                    self.run(nd[2], i, local_vars, pageargs)  # in place, a closure over the enclosing callable
                elif any(nd[1] in lv["members"] for lv in self.levels[i + 1 :]):
                    self.suppressed += 1  # a level toward the base declares it: not this position
                else:
                    for j, lv in enumerate(self.levels):
                        if nd[1] in lv["members"]:
                            if j < i:
                                self.overridden += 1
                            break
                    getattr(self.views[0], nd[1])(**pageargs)
            elif k == "INC":
                # a chain of its own, rendered in place: nothing of this chain's self / parent / next reaches it
                target = nd[1] if nd[1].startswith("/") else posixpath.join(posixpath.dirname(self.levels[i]["uri"]), nd[1])
                sub = Reference({"files": self.files, "main": target}, self.ctx, out=out, cache=self.cache)
                self.included_callables += sub.callables + sub.included_callables
                try:
                    sub.body_callable(sub.k)()
                finally:
                    self.steps += sub.steps
                    self.bodies += sub.bodies
                    self.suppressed += sub.suppressed
                    self.overridden += sub.overridden
                    self.dispatch += sub.dispatch
            elif k == "IF":
                out.append("\n")
                self.run(nd[1], i, local_vars, pageargs)
                out.append("\n")
            elif k in ("C", "CN"):
                out.append(WRAP_OPEN)
                self.run(nd[1], i, local_vars, pageargs)
                out.append(WRAP_CLOSE)
            else:
                raise ValueError(nd)

    def render(self):
        """('out', text) | ('err', 'missing') | ('err', 'recursion') | ('dontcare', '')"""
        try:
            self.body_callable(self.k)(**self.ctx)
        except RefRecursion:
            return ("err", "recursion")
        except RefMissing:
            return ("err", "missing")
        except RefDontCare:
            return ("dontcare", "def-for-block-with-pageargs")
        return ("out", "".join(self.out))


    def render_def(self, name):
        """Template.get_def(name).render(): the def of the most-derived template called on that template: self and
        local are the template itself, parent the adjacent one, no next; no body runs"""
        nd = self.levels[0]["members"].get(name)
        if nd is None or nd[0] != "D":
            raise ValueError("no top-level def %r in %s" % (name, self.levels[0]["uri"]))
        try:
            self.member_callable(0, nd)()
        except RefRecursion:
            return ("err", "recursion")
        except RefMissing:
            return ("err", "missing")
        except RefDontCare:
            return ("dontcare", "def-for-block-with-pageargs")
        return ("out", "".join(self.out))


def reference(prog, ctx, cache=None):
    r = Reference(prog, ctx, cache=cache)
    return r.render(), r


def reference_def(prog, ctx, main, name):
    r = Reference(dict(prog, main=main), ctx)
    return r.render_def(name), r


# --------------------------------------------------------------------------
# structural rule for compile-time rejections (error grid oracle)


def compile_verdict(f):
    """'reject' | 'accept' | 'dontcare' for one File, from the statement alone:
    block names unique within a template; named blocks inside defs or calls rejected."""
    names = []
    defs = []
    topdefs = []
    bad = []

    def walk(nodes, in_def, in_call, top=False):
        for nd in nodes:
            if nd[0] == "D":
                (topdefs if top else defs).append(nd[1])
                walk(nd[2], True, in_call)
            elif nd[0] == "B":
                if nd[1] is not None:
                    names.append(nd[1])
                    if in_def or in_call:
                        bad.append(nd[1])
                walk(nd[2], in_def, in_call)
            elif nd[0] == "IF":
                walk(nd[1], in_def, in_call, top)
            elif nd[0] in ("C", "CN"):
                walk(nd[1], in_def, True)

    walk(f["body"], False, False, True)
    if bad or len(set(names)) != len(names):
        return "reject"
    if set(names) & set(topdefs):
        return "reject"  # documented with the uniqueness rule: "a similar error is raised if a top level def shares the name"
    if set(names) & set(defs):
        return "dontcare"  # a nested def and a block of one name: not fixed
    return "accept"


# --------------------------------------------------------------------------
# data alphabet (the only thing the seed chooses)

NAME_POOL = [("m1", "m2"), ("head", "foot"), ("alpha", "beta"), ("nav", "side")]
ATTR_POOL = ["a", "title", "ver", "kind"]
FILL_POOL = ["", "é", "ж", "\U0001d11e"]
URI_POOL = ["L%d.html", "t%d.mako", "lvl%d.txt", "p%d.tmpl"]


def alphabet(seed):
    n1, n2 = NAME_POOL[seed % 4]
    return {"n1": n1, "n2": n2, "attr": ATTR_POOL[seed % 4], "fill": FILL_POOL[seed % 4], "uri": URI_POOL[seed % 4]}


# --------------------------------------------------------------------------
# level specs -> IR
#
# spec = (m1, m2, nest, attr, page, anon, inh, cc)
#   m1, m2 : '-' absent | 'd' def | 'dp' def calling parent.m() | 'dn' def calling next.m()
#            | 'b' named block | 'bp' named block calling parent.m()
#            | 'dc' 'dpc' 'bc' 'bpc' the same with cached="True" (family M)
#   nest   : 1 = m2's block is written inside m1's block (both must be blocks)
#   attr   : 0 absent | 1 = module attribute present, a string naming its level | a literal written out
#            ("None", "0", "''", "False", "[]": family H)
#   page   : 1 = <%page args="z=0"/> and the body prints z
#   anon   : 1 = an anonymous block in the body, and one inside m1 when m1 is present | "inc" = the body includes
#            the second chain (family K)
#   inh    : 's' static inherit target | 'd' target from ${context['upN']} | 'a<j>' target from
#            ${context['self'].attr.<attr>_layN}, the attribute declared at level j | 'n' / 'N' target
#            ${context.get('upN')} with upN absent / None: no parent          (always 's' in the last level)
#            | 'P<d><a|r><0|1>' family G: this level lives in directory PLACE_DIRS[d], spells its static target
#            absolutely / relatively; last character = decoy templates on (level 0 only)
#   cc     : '-' | 'n' next.body() | 's' self.body() | 'nz' next.body(z=..) | 'sz' self.body(z=..)

KINDS = ("-", "d", "dp", "dn", "b", "bp")
BLOCKS = ("b", "bp")
DEFAULT = ("-", "-", 0, 0, 0, 0, "s", "-")


def member_node(kind, name, i, fill, inner, sig=""):
    tag = "%s@%d%s" % (name, i, fill)
    if kind == "d":
        return ("D", name, [("T", "(" + tag)] + inner + [("T", ")")], sig)
    if kind == "dp":
        return ("D", name, [("T", "(" + tag + "^"), ("E", "parent.%s()" % name)] + inner + [("T", ")")], sig)
    if kind == "dn":
        return ("D", name, [("T", "(" + tag + "~"), ("E", "next.%s()" % name)] + inner + [("T", ")")], sig)
    if kind.endswith("c"):
        # cached="True" variants: dc, dpc, bc, bpc
        nd = member_node(kind[:-1], name, i, fill, inner, sig)
        return nd + (True,)
    if kind == "b":
        return ("B", name, [("T", "{" + tag)] + inner + [("T", "}")])
    if kind == "bp":
        return ("B", name, [("T", "{" + tag + "^"), ("E", "parent.%s()" % name)] + inner + [("T", "}")])
    raise ValueError(kind)


def build_file(i, L, spec, al, probes, defsig="", extra_attrs=()):
    m1, m2, nest, attr, page, anon, inh, cc = spec
    acts_as_base = i == L - 1 or inh in ("n", "N")  # a None inherit target: no parent
    fill = al["fill"]
    n1, n2 = al["n1"], al["n2"]
    body = [("T", "[B%d%s" % (i, fill))]
    if page:
        body += [("T", " z="), ("E", "z")]
    if anon == "inc":
        body.append(("INC", al["inc"]))  # family K: the body includes the most-derived template of a second chain
        anon = 0
    if anon:
        # every anonymous block starts on a line of its own (two on one line: see the error grid)
        body += [("T", "\n"), ("B", None, [("T", "(anon@%d)" % i)])]
    node2 = member_node(m2, n2, i, fill, [], defsig) if m2 != "-" else None
    if m1 != "-":
        inner = []
        if anon:
            inner += [("T", "\n"), ("B", None, [("T", "(anon-in-%s@%d)" % (n1, i))])]
        if nest:
            inner.append(node2)
        body.append(member_node(m1, n1, i, fill, inner, defsig))
    if node2 is not None and not nest:
        body.append(node2)
    if any(what == "card" for _v, what in probes):
        # a def that reports what the four names are from where it is written
        card = [("T", "<card@%d local=" % i), ("E", "local.uri"), ("T", " self="), ("E", "self.uri"), ("T", " parent="), ("E", "U(context, 'parent')"), ("T", " next="), ("E", "U(context, 'next')")]
        card += [("T", " local.%s=" % n1), ("E", "P(local, %r)" % n1), ("T", " self.%s=" % n1), ("E", "P(self, %r)" % n1)]
        if not acts_as_base:
            card += [("T", " parent.%s=" % n1), ("E", "P(parent, %r)" % n1)]
        card += [("T", " self.attr="), ("E", "A(self, %r)" % al["attr"]), ("T", " local.attr="), ("E", "A(local, %r)" % al["attr"]), ("T", ">")]
        body.append(("D", "card", card, defsig))
    body.append(("T", "|"))
    zval = 10 * i + 1
    if cc != "-":
        body.append(("E", {"n": "next.body()", "s": "self.body()", "nz": "next.body(z=%d)" % zval, "sz": "self.body(z=%d)" % zval}[cc]))
    for view, what in probes:
        if view == "split":
            continue
        if view == "ctx":
            # what the context holds under parent / next (uri or <undefined>), whatever the position
            body += [("T", " ctx.%s=" % what), ("E", "U(context, %r)" % what)]
            continue
        if view == "parent" and acts_as_base:
            continue  # `parent` in the base-most template: not defined by the statement
        if view == "next" and i == 0:
            continue  # `next` in the most-derived template: not defined by the statement
        if what == "attr":
            body += [("T", " %s.attr="  % view), ("E", "A(%s, %r)" % (view, al["attr"]))]
        elif what == "card":
            body += [("T", " %s.card=" % view), ("E", "P(%s, 'card')" % view)]
        elif what == "own":
            # the attribute that level k alone declares, for every level of the chain
            for k in range(L):
                body += [("T", " %s.own%d=" % (view, k)), ("E", "A(%s, %r)" % (view, "%s_own%d" % (al["attr"], k)))]
        else:
            nm = n1 if what == "m1" else n2
            body += [("T", " %s.%s=" % (view, nm)), ("E", "P(%s, %r)" % (view, nm))]
    body.append(("T", "]"))
    f = {"page": "z=0" if page else None, "inherit": None, "attrs": [], "body": body}
    if i < L - 1:
        if inh == "s":
            f["inherit"] = ("s", al["uri"] % (i + 1))
        elif inh == "d":
            f["inherit"] = ("d", "context['up%d']" % (i + 1))
        elif inh[0] == "P":
            f["inherit"] = ("s", "?")  # spelled by build_program, which knows where the next level lives
        elif inh in ("n", "N"):
            # optional layout: the name is absent from the render context ('n') or bound to None ('N')
            f["inherit"] = ("d", "context.get('up%d')" % (i + 1))
        else:
            # 'a<j>': the target is a module attribute declared at level j <= i, read through self.attr
            f["inherit"] = ("d", "context['self'].attr.%s_lay%d" % (al["attr"], i + 1))
    if attr == 1:
        f["attrs"].append((al["attr"], repr("%s@%d%s" % (al["attr"], i, fill))))
    elif attr:
        f["attrs"].append((al["attr"], attr))  # a literal written out: None, 0, '', False, []
    if any(what == "own" for _v, what in probes):
        f["attrs"].append(("%s_own%d" % (al["attr"], i), repr("own@%d" % i)))
    f["attrs"].extend(extra_attrs)
    return f


_FILES = {}


PLACE_DIRS = ["", "/site", "/site/sub"]  # depth 0, 1, 2


def build_placed(chain, al, probes, defsig=""):
    """family G: level i lives in directory PLACE_DIRS[d_i]; its inherit target is spelled absolutely ('a') or
    relatively to its own directory ('r': `L2.html`, `sub/L2.html`, `../L2.html`, `../../site/L2.html` ..).  The uri
    of a level is what the spelling denotes (appendix A6: absolute = itself, relative = joined to the directory of the
    template containing the tag, not normalised).  With the decoy switch, every relative spelling also gets a decoy
    template wherever it would lead if it were resolved against another level of the chain."""
    L = len(chain)
    files = {}
    pk = tuple(probes)
    base = [al["uri"] % i for i in range(L)]
    uris = [PLACE_DIRS[int(chain[0][6][1])] + "/" + base[0]]
    spelled = []
    for i in range(L - 1):
        code = chain[i + 1][6]
        target = PLACE_DIRS[int(code[1])] + "/" + base[i + 1]
        if chain[i][6][2] == "a":
            sp = target
            uris.append(target)
        else:
            here = posixpath.normpath(posixpath.dirname(uris[i]) or "/")
            sp = posixpath.relpath(target, here)
            uris.append(posixpath.join(posixpath.dirname(uris[i]), sp))
        spelled.append(sp)
    for i, spec in enumerate(chain):
        sp = spelled[i] if i < L - 1 else None
        key = ("placed", i, L, spec, al["n1"], al["uri"], pk, defsig, sp)
        f = _FILES.get(key)
        if f is None:
            f = dict(build_file(i, L, spec, al, probes, defsig))
            f["inherit"] = ("s", sp) if sp is not None else None
            f["_text"] = print_file(f)
            _FILES[key] = f
        files[uris[i]] = f
    if chain[0][6][3] == "1":
        n1 = al["n1"]
        for i, sp in enumerate(spelled):
            if sp.startswith("/"):
                continue
            for k in range(L):
                wrong = posixpath.join(posixpath.dirname(uris[k]), sp)
                if posixpath.normpath(wrong.lstrip("/")).startswith(".."):
                    continue  # would lie above the root: no template can have that uri
                if k != i and wrong not in files:
                    files[wrong] = {
                        "page": None,
                        "inherit": None,
                        "attrs": [],
                        "body": [("T", "[DECOY%d" % (i + 1)), ("D", n1, [("T", "(%s@decoy)" % n1)], defsig), ("T", "|"), ("E", "next.body()"), ("T", "]")],
                    }
    return {"files": files, "main": uris[0], "ctx": {"P": "@helper:P", "A": "@helper:A"}}


def build_including(chain, split, al, probes, defsig=""):
    """family K: levels 0..split-1 are the including chain, the rest a second chain (uris i<uri>, filler marked with
    an apostrophe) whose most-derived template one body of the first chain includes"""
    inc_al = dict(al, uri="i" + al["uri"], fill=al["fill"] + "'")
    al = dict(al, inc=inc_al["uri"] % 0)
    pa = [p for p in probes if p[0] != "ctx"]
    files = {}
    for i, spec in enumerate(chain[:split]):
        files[al["uri"] % i] = _memo_file(("K", i, split, spec, al["n1"], al["uri"], defsig), i, split, spec, al, pa, defsig)
    rest = chain[split:]
    for j, spec in enumerate(rest):
        files[inc_al["uri"] % j] = _memo_file(("Ki", j, len(rest), spec, al["n1"], al["uri"], defsig), j, len(rest), spec, inc_al, probes, defsig)
    return {"files": files, "main": al["uri"] % 0, "ctx": {"P": "@helper:P", "A": "@helper:A", "U": "@helper:U"}}


def _memo_file(key, i, L, spec, al, probes, defsig, extra=()):
    f = _FILES.get(key)
    if f is None:
        f = build_file(i, L, spec, al, probes, defsig, extra)
        f["_text"] = print_file(f)
        _FILES[key] = f
    return f


def build_program(chain, al, probes, defsig=""):
    for p in probes:
        if p[0] == "split":
            return build_including(chain, p[1], al, probes, defsig)
    if chain[0][6][0] == "P":
        return build_placed(chain, al, probes, defsig)
    L = len(chain)
    files = {}
    ctx = {"P": "@helper:P", "A": "@helper:A"}
    pk = tuple(probes)
    extras = {}
    for i, spec in enumerate(chain):
        if i < L - 1 and spec[6][0] == "a":
            # level i takes its target from attribute <attr>_lay<i+1>, declared at level j
            extras.setdefault(int(spec[6][1:]), []).append(("%s_lay%d" % (al["attr"], i + 1), repr(al["uri"] % (i + 1))))
    for i, spec in enumerate(chain):
        # a level's File depends only on its own spec, its place, the alphabet and the layout attributes other
        # levels read from it: built and printed once
        ex = tuple(extras.get(i, ()))
        key = (i, L, spec, al["n1"], al["uri"], pk, defsig, ex)
        f = _FILES.get(key)
        if f is None:
            f = build_file(i, L, spec, al, probes, defsig, ex)
            f["_text"] = print_file(f)
            _FILES[key] = f
        files[al["uri"] % i] = f
        if i < L - 1 and spec[6] == "d":
            ctx["up%d" % (i + 1)] = al["uri"] % (i + 1)
        if i < L - 1 and spec[6] == "N":
            ctx["up%d" % (i + 1)] = None
    if any(what == "card" for _v, what in probes):
        ctx["U"] = "@helper:U"
    return {"files": files, "main": al["uri"] % 0, "ctx": ctx}


def chain_valid(chain):
    L = len(chain)
    for i, (m1, m2, nest, attr, page, anon, inh, cc) in enumerate(chain):
        for m in (m1, m2):
            if m == "dn" and i == 0:
                return False
            if m in ("dp", "bp", "dpc", "bpc") and (i == L - 1 or inh in ("n", "N")):
                return False
        if nest and not (m1 in BLOCKS and m2 in BLOCKS):
            return False
        if cc != "-" and i == 0:
            return False
        if cc == "nz" and not chain[i - 1][4]:
            return False  # z= only to a body that declares it
        if cc == "sz" and not chain[0][4]:
            return False
        if inh[0] == "P":
            if any(sp[6][0] != "P" for sp in chain):
                return False
            if i == L - 1 and inh[2:] != "a0":
                return False  # the last level has no target to spell
            if i > 0 and inh[3] != "0":
                return False  # the decoy switch is carried by level 0
        elif inh != "s" and i == L - 1:
            return False
        if inh[0] == "a" and int(inh[1:]) > i:
            return False  # the attribute must be visible when the target is evaluated: same or more-derived level
    return True


def chain_nontrivial(chain):
    """L >= 3, or a member name / the attribute declared at two or more levels"""
    if len(chain) >= 3:
        return True
    names = [0, 0, 0]
    for s in chain:
        names[0] += s[0] != "-"
        names[1] += s[1] != "-"
        names[2] += s[3] != 0
    return max(names) >= 2


# --------------------------------------------------------------------------
# grids: a grid is (family, L, [options of level 0, .., options of level L-1], probes, def signature); its chains are the
# chain_valid() elements of the product, in product order (level 0 slowest)


def _pos(i, L):
    return ("only" if L == 1 else "leaf") if i == 0 else ("base" if i == L - 1 else "mid")


def _kinds(pos, kinds=KINDS):
    bad = {"only": ("dn", "dp", "bp"), "leaf": ("dn",), "base": ("dp", "bp"), "mid": ()}[pos]
    return [k for k in kinds if k not in bad]


def _cc(pos, ccs):
    return ["-"] if pos in ("only", "leaf") else list(ccs)


PROBES_M12 = [("self", "m1"), ("local", "m1"), ("parent", "m1"), ("next", "m1"), ("self", "m2"), ("local", "m2"), ("parent", "m2"), ("next", "m2")]
PROBES_M1 = [("self", "m1"), ("local", "m1"), ("parent", "m1"), ("next", "m1")]
PROBES_ATTR = [("self", "attr"), ("local", "attr"), ("parent", "attr"), ("next", "attr"), ("self", "m1"), ("local", "m1")]
PROBES_BODY = [("self", "m1")]


M2_REDUCED = ("-", "d", "b", "bp")


def grid_members(L, two, ccs, fam, m2kinds=KINDS):
    """family A/B: member dispatch.  every level: m1 (and m2, nesting) x body chaining"""
    opts = []
    for i in range(L):
        pos = _pos(i, L)
        o = []
        for m1 in _kinds(pos):
            for m2 in _kinds(pos, m2kinds) if two else ["-"]:
                for nest in (0, 1) if (m1 in BLOCKS and m2 in BLOCKS) else (0,):
                    for cc in _cc(pos, ccs):
                        o.append((m1, m2, nest, 0, 0, 0, "s", cc))
        opts.append(o)
    return (fam, L, opts, PROBES_M12 if two else PROBES_M1, "**kw" if two else "")


def grid_body(L, fam="C"):
    """family C: body chaining, <%page> arguments, anonymous blocks, one member absent/def/block"""
    opts = []
    for i in range(L):
        pos = _pos(i, L)
        o = []
        for m1 in ("-", "d", "b"):
            for page in (0, 1):
                for anon in (0, 1):
                    for cc in _cc(pos, ("-", "n", "s", "nz", "sz")):
                        o.append((m1, "-", 0, 0, page, anon, "s", cc))
        opts.append(o)
    return (fam, L, opts, PROBES_BODY, "")


def grid_attr(L, fam="D"):
    """family D: module attributes through self/local/parent/next .attr, static and dynamic inherit targets"""
    opts = []
    for i in range(L):
        pos = _pos(i, L)
        o = []
        for m1 in ("-", "d"):
            for attr in (0, 1):
                for inh in ("s",) if pos in ("only", "base") else ("s", "d"):
                    for cc in _cc(pos, ("-", "n")):
                        o.append((m1, "-", 0, attr, 0, 0, inh, cc))
        opts.append(o)
    return (fam, L, opts, PROBES_ATTR, "")


PROBES_OWN = [("self", "own"), ("local", "own"), ("self", "attr"), ("parent", "attr"), ("next", "attr")]


def grid_attr_target(L, fam="E"):
    """family E: inherit targets read from self.attr (attribute declared at the same or a more-derived level), then
    self.attr / local.attr reads of an attribute declared at every level"""
    opts = []
    for i in range(L):
        pos = _pos(i, L)
        o = []
        for attr in (0, 1):
            for inh in ("s",) if pos in ("only", "base") else ["s", "d"] + ["a%d" % j for j in range(i + 1)]:
                for cc in _cc(pos, ("-", "n")):
                    o.append(("-", "-", 0, attr, 0, 0, inh, cc))
        opts.append(o)
    return (fam, L, opts, PROBES_OWN, "")


def grid_none_target(L, fam="F"):
    """family F: dynamic inherit targets that evaluate to None (absent from the context / bound to None) at any
    non-base position: that level is the base-most one, the levels behind it are never reached"""
    opts = []
    for i in range(L):
        pos = _pos(i, L)
        o = []
        for m1 in ("-", "d", "b"):
            for inh in ("s",) if pos in ("only", "base") else ("s", "d", "n", "N"):
                for cc in _cc(pos, ("-", "n", "s")):
                    o.append((m1, "-", 0, 0, 0, 0, inh, cc))
        opts.append(o)
    return (fam, L, opts, PROBES_M1, "")


ATTR_VALUES = (0, 1, "None", "0", "''", "False", "[]")
PROBES_ATTRVAL = [("self", "attr"), ("local", "attr"), ("parent", "attr"), ("next", "attr")]
PROBES_ENTRY = [("self", "m1"), ("local", "card"), ("self", "card")]


def grid_attr_values(L, fam="H"):
    """family H: the attribute absent / a string / None / 0 / '' / False / [] at every level (a falsy value of a
    derived level overrides whatever an ancestor declares), every body chained, read through all four names"""
    opts = []
    for i in range(L):
        pos = _pos(i, L)
        opts.append([("-", "-", 0, attr, 0, 0, "s", cc) for attr in ATTR_VALUES for cc in _cc(pos, ("n",))])
    return (fam, L, opts, PROBES_ATTRVAL, "")


def grid_entry(L, fam="I"):
    """family I: every level declares a def card() reporting local / self / parent / next, the member and the
    attribute; besides the whole page, card() and the member def of every level are rendered on their own through
    Template.get_def(name).render_unicode() and .render_context()"""
    opts = []
    for i in range(L):
        pos = _pos(i, L)
        o = []
        for m1 in _kinds(pos, ("-", "d", "dp")):
            for attr in (0, 1):
                for cc in _cc(pos, ("-", "n")):
                    o.append((m1, "-", 0, attr, 0, 0, "s", cc))
        opts.append(o)
    return (fam, L, opts, PROBES_ENTRY, "")


CACHED_KINDS = ("-", "d", "dc", "dpc", "b", "bc", "bpc")


def grid_cached(L, fam="M"):
    """family M: one member name, at every level absent / def / cached def / cached def calling parent / block /
    cached block / cached block calling parent; reached through self, local, parent, next from every body; rendered
    twice on one lookup with the cache kept"""
    opts = []
    for i in range(L):
        pos = _pos(i, L)
        kinds = [k for k in CACHED_KINDS if not (k in ("dpc", "bpc") and pos in ("only", "base"))]
        opts.append([(m1, "-", 0, 0, 0, 0, "s", cc) for m1 in kinds for cc in _cc(pos, ("-", "n"))])
    return (fam, L, opts, PROBES_M1, "**kw")


PROBES_INCLUDE = [("self", "m1"), ("local", "m1"), ("parent", "m1"), ("ctx", "parent"), ("ctx", "next")]


def grid_including(Li, p, Lc, fam="K"):
    """family K: an including chain of Li levels whose level p includes a second chain of Lc levels; both declare the
    same member name (absent / def / block / block calling parent).  Li = 1 is the control: the includer does not
    inherit"""
    opts = []
    for L, inc_at in ((Li, p), (Lc, None)):
        for i in range(L):
            pos = _pos(i, L)
            o = []
            for m1 in _kinds(pos, ("-", "d", "b", "bp")):
                for cc in _cc(pos, ("-", "n")):
                    o.append((m1, "-", 0, 0, 0, "inc" if i == inc_at else 0, "s", cc))
            opts.append(o)
    return (fam, Li + Lc, opts, PROBES_INCLUDE + [("split", Li)], "**kw")


def grid_placed(L, full, fam="G"):
    """family G: every level in a directory of depth 0..2 of its own choice, targets spelled absolutely or relatively,
    decoys on/off; member absent/def (all levels def, every body chained, when not `full`)"""
    opts = []
    for i in range(L):
        pos = _pos(i, L)
        o = []
        for m1 in ("-", "d") if full else ("d",):
            for d in (0, 1, 2):
                for sp in ("a",) if pos == "base" else ("a", "r"):
                    for decoy in ("0", "1") if i == 0 else ("0",):
                        for cc in _cc(pos, ("-", "n") if full else ("n",)):
                            o.append((m1, "-", 0, 0, 0, 0, "P%d%s%s" % (d, sp, decoy), cc))
        opts.append(o)
    return (fam, L, opts, PROBES_M1, "")


def grid_chains(grid, shard=0, nshards=1):
    """the chain_valid() chains of the grid in product order; with nshards > 1 only those whose prefix (levels 0 and
    1; level 0 for short chains) has index = shard modulo nshards - the shards partition the grid"""
    opts = grid[2]
    npre = min(2, len(opts))
    for pi, prefix in enumerate(itertools.product(*opts[:npre])):
        if pi % nshards != shard:
            continue
        for rest in itertools.product(*opts[npre:]):
            chain = prefix + rest
            if chain_valid(chain):
                yield chain


def grid_prefixes(grid):
    n = 1
    for o in grid[2][:2]:
        n *= len(o)
    return n


def grid_size(grid):
    n = 1
    for o in grid[2]:
        n *= len(o)
    return n


def grids(tier):
    g = []
    for L in (1, 2):
        g.append(grid_members(L, True, ("-", "n", "s"), "A"))
    # quick: the second member at L=3 is absent / def / block / block calling parent (the first one has all six kinds)
    g.append(grid_members(3, True, ("-", "n", "s"), "A", KINDS if tier == "thorough" else M2_REDUCED))
    g.append(grid_members(4, False, ("-", "n", "s"), "B"))
    for L in (1, 2, 3):
        g.append(grid_body(L))
    for L in (1, 2, 3, 4):
        g.append(grid_attr(L))
    for L in (2, 3, 4):
        g.append(grid_attr_target(L))
    for L in (2, 3):
        g.append(grid_none_target(L))
    for L in (1, 2, 3, 4):
        g.append(grid_attr_values(L))
    for L in (1, 2, 3):
        g.append(grid_entry(L))
    for L in (1, 2, 3):
        g.append(grid_cached(L))
    for Li, p in ((1, 0), (2, 0), (2, 1)):
        for Lc in (1, 2):
            g.append(grid_including(Li, p, Lc))
    g.append(grid_placed(3, True))
    g.append(grid_placed(4, tier == "thorough"))
    if tier == "thorough":
        g.append(grid_cached(4))
        for p in (0, 1, 2):
            for Lc in (1, 2, 3):
                g.append(grid_including(3, p, Lc))
        g.append(grid_attr_values(5))
        g.append(grid_entry(4))
        g.append(grid_attr_target(5))
        g.append(grid_none_target(4))
        for cc in ("-", "n", "s"):
            g.append(grid_members(4, True, (cc,), "A4" + cc))
        g.append(grid_members(5, False, ("-", "n", "s"), "B"))
        g.append(grid_body(4))
        g.append(grid_attr(5))
    return g


# --------------------------------------------------------------------------
# error grid: positions of named blocks inside one template


NL = ("T", "\n")


def _place(pos, blk, tagn):
    """nodes that put block node `blk` at position `pos`; tagn distinguishes helper names of the two slots"""
    if pos == "top":
        return [blk]
    if pos == "in-block":
        return [("B", "w%d" % tagn, [("T", "<w%d>" % tagn), blk])]
    if pos == "in-anon":
        return [NL, ("B", None, [("T", "<anon>"), blk])]
    if pos == "in-block-in-block":
        return [("B", "v%d" % tagn, [("B", "u%d" % tagn, [blk])])]
    if pos == "in-if":
        return [("IF", [blk])]
    if pos == "in-def":
        return [("D", "f%d" % tagn, [blk], "")]
    if pos == "in-anon-in-def":
        return [("D", "f%d" % tagn, [NL, ("B", None, [blk])], "")]
    if pos == "in-def-in-block":
        return [("B", "w%d" % tagn, [("D", "f%d" % tagn, [blk], "")])]
    if pos == "in-call":
        return [("C", [blk])]
    if pos == "in-nscall":
        return [("CN", [blk])]
    if pos == "in-block-in-call":
        return [("C", [NL, ("B", None, [blk])])]
    raise ValueError(pos)


GRID_POS_LEGAL = ["top", "in-block", "in-anon", "in-block-in-block", "in-if"]
GRID_POS_ILLEGAL = ["in-def", "in-anon-in-def", "in-def-in-block", "in-call", "in-nscall", "in-block-in-call"]
GRID_POS = GRID_POS_LEGAL + GRID_POS_ILLEGAL


def _anon_lines(nodes, same_line):
    """rewrite so that all anonymous blocks start on one line (drop the line feeds) or each on its own"""
    out = []
    for nd in nodes:
        if nd == NL:
            continue
        if nd[0] in ("B", "D"):
            nd = (nd[0], nd[1], _anon_lines(nd[2], same_line)) + tuple(nd[3:])
        elif nd[0] in ("IF", "C", "CN"):
            nd = (nd[0], _anon_lines(nd[1], same_line))
        if nd[0] == "B" and nd[1] is None and not same_line:
            out.append(NL)
        out.append(nd)
    return out


def grid_file(case, al):
    """case = (kind, p, q, same) ; returns File"""
    kind, p, q, same = case
    x = al["n1"]
    y = x if same else al["n2"]
    body = [("T", "[")]
    bx = ("B", x, [("T", "{%s}" % x)])
    if kind == "single":
        body += _place(p, bx, 1)
    elif kind == "pair":
        by = ("B", y, [("T", "{%s'}" % y)])
        body += _place(p, bx, 1) + [("T", "+")] + _place(q, by, 2)
    elif kind == "inside":
        # second block written inside the first one, itself at position p
        by = ("B", y, [("T", "{%s'}" % y)])
        body += _place(p, ("B", x, [("T", "{%s" % x), by, ("T", "}")]), 1)
    elif kind == "defblock":
        # a def and a block of one name (q = 'def-first' | 'block-first')
        d = ("D", x, [("T", "(def %s)" % x)], "")
        body += ([d] + _place(p, bx, 1)) if q == "def-first" else (_place(p, bx, 1) + [d])
    elif kind == "anon2":
        # same = both anonymous blocks (and their anonymous wrappers) start on one line; else each on its own line
        body += _place(p, ("B", None, [("T", "<a1>")]), 1) + _place(q, ("B", None, [("T", "<a2>")]), 2)
        body = _anon_lines(body, same)
    else:
        raise ValueError(kind)
    body.append(("T", "]"))
    body.append(WRAP_DEF)
    # defs that hold blocks are called so that accepted programs show them
    return {"page": None, "inherit": None, "attrs": [], "body": body}


def grid_cases(tier):
    out = []
    for p in GRID_POS:
        out.append(("single", p, None, True))
    for p in GRID_POS:
        for q in GRID_POS:
            for same in (True, False):
                out.append(("pair", p, q, same))
    for p in GRID_POS:
        for same in (True, False):
            out.append(("inside", p, None, same))
    for p in GRID_POS:
        for q in ("def-first", "block-first"):
            out.append(("defblock", p, q, True))
    for p in GRID_POS:
        for q in GRID_POS:
            for same in (True, False):
                out.append(("anon2", p, q, same))
    return out


# --------------------------------------------------------------------------
# family L: chains in several directories of one lookup whose (directory, relative target) strings resemble each other

DIR_FRAGMENTS = [("a", "b"), ("x", "y"), ("p", "q"), ("m", "n")]


def collision_program(seed):
    """two- and three-level chains; the level that names its parent relatively lives in one of the directories
    /, /a, /a/b, /ab and writes one of the targets b.html, ab.html, bb.html, a/b.html - so that directory and target,
    written one after the other, coincide for different pairs ("/" + "ab.html" and "/a" + "b.html"; "/a" + "bb.html" and
    "/ab" + "b.html") and the same target is written in different directories.  Returns (program, [main uri, ..])"""
    a, b = DIR_FRAGMENTS[seed % 4]
    al = alphabet(seed)
    n1 = al["n1"]
    dirs = ["", "/" + a, "/" + a + "/" + b, "/" + a + b]
    targets = [b + ".html", a + b + ".html", b + b + ".html", a + "/" + b + ".html"]
    files, mains = {}, []
    baseno = {}
    for di, d in enumerate(dirs):
        for ti, t in enumerate(targets):
            base = posixpath.join(d + "/", t)
            if base not in baseno:
                baseno[base] = len(baseno)
                k = baseno[base]
                files[base] = {"page": None, "inherit": None, "attrs": [], "body": [("T", "[BASE%d" % k), ("D", n1, [("T", "(%s@base%d)" % (n1, k))], ""), ("T", "|"), ("E", "next.body()"), ("T", " self.%s=" % n1), ("E", "P(self, %r)" % n1), ("T", "]")]}
            tag = "%d.%d" % (di, ti)
            # two levels: the leaf itself names the base relatively
            leaf = d + "/leaf%d.html" % ti
            files[leaf] = {"page": None, "inherit": ("s", t), "attrs": [], "body": [("T", "[LEAF" + tag), ("T", " parent.%s=" % n1), ("E", "P(parent, %r)" % n1), ("T", "]")]}
            mains.append(leaf)
            # three levels: a leaf in another directory names the middle template absolutely, the middle one names the base relatively
            mid = d + "/mid%d.html" % ti
            files[mid] = {"page": None, "inherit": ("s", t), "attrs": [], "body": [("T", "[MID" + tag + "|"), ("E", "next.body()"), ("T", " parent.%s=" % n1), ("E", "P(parent, %r)" % n1), ("T", "]")]}
            top = dirs[(di + 1) % len(dirs)] + "/top%d_%d.html" % (di, ti)
            files[top] = {"page": None, "inherit": ("s", mid), "attrs": [], "body": [("T", "[TOP" + tag), ("T", " parent.%s=" % n1), ("E", "P(parent, %r)" % n1), ("T", "]")]}
            mains.append(top)
    return {"files": files, "main": mains[0], "ctx": {"P": "@helper:P", "A": "@helper:A"}}, mains
