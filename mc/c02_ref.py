"""C02 reference: a tiny template IR, its printer into Mako syntax and its
reference interpreter.  Nothing here imports mako.

IR (JSON-able, so that a case can be replayed from its record):

  prog = {
    "D":   None | [filter source, ...]          Template(default_filters=...)   (None = not given)
    "B":   [filter source, ...]                  Template(buffer_filters=...)
    "P":   None | [filter source, ...]          <%page expression_filter="..."/>
    "bind":  "ctx" | "module" | "imports" | "local"   where the expression-level user callables come from
    "pbind": "imports" | "module"                where f3, f4, f5 (D / P / B names) come from
    "decoy": bool                                context also holds callables named h, x, u, ...
    "body": [node, ...]
    "strict": bool                               (optional) Template(strict_undefined=True)
    "via":  "lookup"                             (optional) built by a TemplateLookup given the same arguments
    "vals": {name: value}                        (optional) context values fixed by the program (nested-pipeline family)
    "sub":  prog                                 (optional) a second template; the context callable sub() renders it
  }
  node = ["text", s]
       | ["expr", src, [filter source, ...], raw]   raw: None (canonical spelling) or the exact text between "${" and "}"
       | ["def", name, {"filter": None|[...], "buffered": bool}, body]      (top-level; callable as name())
       | ["block", name|None, None|[filters], body]
       | ["call", defname, body]                   <%call expr="defname()">body</%call>
       | ["texttag", s, None|[filters]]

Semantics = the property statement + DESIGN.md Appendix A1/A3:
  ${e | L}: write  L(P(D(value)))  left to right; `n` in L drops D and P, `n` in P drops D, D unset = [str];
  filter= on def/block/text: the tag's own list only; buffered def returns B(filter(content)).
Python leaves (the expression, a user filter, a filter call) are evaluated with eval() in the
environment the template sees, so Python is the oracle for Python.
"""

import html.entities
import re
import urllib.parse

import markupsafe


class DontCare(Exception):
    """the statement / documentation does not fix the answer here"""


FLAGS = ("h", "x", "u", "trim", "entity", "str", "unicode")
_DECODE = re.compile(r"decode\.(\w+)\Z")

_ENT = {c: "&%s;" % n for c, n in html.entities.codepoint2name.items()}


class V:
    """a value travelling through a pipeline + whether its Markup-ness is left open by the documentation"""

    __slots__ = ("v", "amb")

    def __init__(self, v, amb=False):
        self.v = v
        self.amb = amb


class Refuses(Exception):
    """one allowed reading: a text filter refuses a non-string"""


# A text filter (x, u, trim, entity) given a non-string: the documentation speaks of strings.  Allowed readings:
# the filter refuses the value (raises), or it works on str(value); trim ("string.strip()") may also use the
# value's own strip().  Every combination of readings is run; the implementation must match one of them.
OPTIONS = {"x": ("refuse", "text"), "u": ("refuse", "text"), "entity": ("text", "refuse"), "trim": ("refuse", "text", "method")}
_POLICY = {}
_MET = []


def _need_str(name, s):
    """-> the string the filter works on (s itself when it is one)"""
    if isinstance(s, str):
        return s
    opt = _POLICY.get(name)
    if opt is None:
        opt = _POLICY[name] = OPTIONS[name][0]
    if name not in _MET:
        _MET.append(name)
    if opt == "refuse":
        raise Refuses("%s refuses a %s" % (name, type(s).__name__))
    if opt == "method":
        return None
    return str(s)


def stage_builtin(name, val):
    s = val.v
    if name == "h":  # documented: markupsafe.escape(string)
        if val.amb:
            raise DontCare("h after x/entity/decode of a Markup value (Markup-ness of that result is not documented)")
        return V(markupsafe.escape(s))
    if name in ("str", "unicode"):  # documented: the Python 3 str built-in
        return V(str(s))
    if name == "trim":  # documented: string.strip()
        t = _need_str(name, s)
        if t is None:
            if not hasattr(s, "strip"):
                raise Refuses("trim: no strip()")
            return V(s.strip())
        return V(t.strip(), val.amb)
    if name == "u":  # documented: urllib.quote_plus(string.encode('utf-8'))
        s = _need_str(name, s)
        return V(urllib.parse.quote_plus(s.encode("utf-8")))
    if name == "x":  # documented: XML escaping (the spelling of the quote entities is not fixed)
        s = _need_str(name, s)
        if "'" in s or '"' in s:
            raise DontCare("x applied to text containing quotes (entity spelling not documented)")
        out = str(s).replace("&", "&amp;").replace("<", "&lt;").replace(">", "&gt;")
        return V(out, val.amb or isinstance(s, markupsafe.Markup))
    if name == "entity":  # documented: HTML entity references derived from htmlentitydefs
        s = _need_str(name, s)
        return V(str(s).translate(_ENT), val.amb or isinstance(s, markupsafe.Markup))
    raise AssertionError(name)


def stage_decode(enc, val):
    s = val.v
    if isinstance(s, bytes):
        return V(str(s, enc))
    if isinstance(s, str):
        return V(s, val.amb or isinstance(s, markupsafe.Markup))
    return V(str(s))  # "to replace the usual str function ... the decode filter can be substituted"


_CODE = {}


def _ev(src, env):
    c = _CODE.get(src)
    if c is None:
        if len(_CODE) > 20000:
            _CODE.clear()
        c = _CODE[src] = compile("(\n" + src + "\n)", "<c02>", "eval")
    return eval(c, env)


def apply_stages(stages, value, env, counter=None):
    val = value if isinstance(value, V) else V(value)
    for src in stages:
        t = src.strip()
        if counter is not None:
            counter[0] += 1
        if t in FLAGS:
            val = stage_builtin(t, val)
            continue
        m = _DECODE.match(t)
        if m:
            val = stage_decode(m.group(1), val)
            continue
        f = _ev(t, env)  # "any other filter name or call denotes the callable of that name visible to the template"
        val = V(f(val.v))
    return val


def is_n(src):
    return src.strip() == "n"


def expression_stages(L, P, D):
    """the statement, literally"""
    if any(is_n(f) for f in L):
        stages = list(L)
    else:
        P = list(P or [])
        stages = P + list(L)
        if not any(is_n(f) for f in P):
            stages = (["str"] if D is None else list(D)) + stages
    return [f for f in stages if not is_n(f)]


def tag_stages(L):
    return [f for f in (L or []) if not is_n(f)]


# --------------------------------------------------------------------------
# printer


def _attr(value):
    q = '"' if '"' not in value else "'"
    assert q not in value, value
    return q + value + q


def flist(filters, sep=", "):
    return sep.join(filters)


USER_NAMES = "f1, f2, g, ns, boom"
MOD_NAMES = "f3, f4, f5"


def print_nodes(nodes, attr_raw=None):
    """attr_raw: the exact text to write in every filter= attribute (spelling families)"""
    fl_ = (lambda f: attr_raw) if attr_raw is not None else flist
    out = []
    for nd in nodes:
        k = nd[0]
        if k == "text":
            out.append(nd[1])
        elif k == "expr":
            _, src, filters, raw = nd
            if raw is not None:
                out.append("${" + raw + "}")
            elif filters:
                out.append("${" + src + " | " + flist(filters) + "}")
            else:
                out.append("${" + src + "}")
        elif k == "def":
            _, name, fl, body = nd
            a = ' name="%s()"' % name
            if fl.get("buffered"):
                a += ' buffered="True"'
            if fl.get("cached"):
                a += ' cached="True"'  # (first render of a fresh template: the cache is empty, the meaning is the uncached one)
            if fl.get("filter") is not None:
                a += " filter=" + _attr(fl_(fl["filter"]))
            out.append("<%def" + a + ">" + print_nodes(body, attr_raw) + "</%def>")
        elif k == "block":
            _, name, filters, body = nd
            a = ""
            if name:
                a += ' name="%s"' % name
            if filters is not None:
                a += " filter=" + _attr(fl_(filters))
            out.append("<%block" + a + ">" + print_nodes(body, attr_raw) + "</%block>")
        elif k == "call":
            _, name, body = nd
            out.append('<%call expr="' + name + '()">' + print_nodes(body, attr_raw) + "</%call>")
        elif k == "texttag":
            _, s, filters = nd
            a = ""
            if filters is not None:
                a += " filter=" + _attr(fl_(filters))
            out.append("<%text" + a + ">" + s + "</%text>")
        else:
            raise AssertionError(nd)
    return "".join(out)


def print_program(prog):
    """-> (template text, Template keyword arguments (JSON-able))"""
    head = ""
    if prog.get("P") is not None:
        head += "<%page expression_filter=" + _attr(prog["attr_raw"] if prog.get("attr_raw") is not None and prog.get("attr_raw_page") else flist(prog["P"])) + "/>"
    mod = []
    if prog.get("pbind") == "module":
        mod.append("from mc.c02_env import " + MOD_NAMES)
    if prog.get("bind") == "module":
        mod.append("from mc.c02_env import " + USER_NAMES)
    if mod:
        head += "<%! " + "; ".join(mod) + " %>"
    if prog.get("bind") == "local":
        head += "<% from mc.c02_env import " + USER_NAMES + " %>"
    kw = {}
    if prog.get("D") is not None:
        kw["default_filters"] = list(prog["D"])
    if prog.get("B"):
        kw["buffer_filters"] = list(prog["B"])
    imports = []
    if prog.get("pbind", "imports") == "imports":
        imports.append("from mc.c02_env import " + MOD_NAMES)
    if prog.get("bind") == "imports":
        imports.append("from mc.c02_env import " + USER_NAMES)
    if imports:
        kw["imports"] = imports
    if prog.get("strict"):
        kw["strict_undefined"] = True
    return head + print_nodes(prog["body"], None if prog.get("attr_raw_page") else prog.get("attr_raw")), kw


def context_for(prog, vname):
    """JSON form of the render context ("@helper:<name>" = object of mc.c02_env)"""
    ctx = {}
    if prog.get("bind", "ctx") == "ctx":
        for n in ("f1", "f2", "g", "ns", "boom"):
            ctx[n] = "@helper:" + n
    if prog.get("decoy"):
        for n in ("h", "x", "u", "trim", "entity", "n", "unicode", "decode"):
            ctx[n] = "@helper:decoy_" + n
    if vname is not None:
        ctx["v"] = vname
    ctx.update(prog.get("vals") or {})  # values fixed by the program itself (nested-pipeline family)
    if prog.get("fam") == "nest":
        ctx["box"] = "@helper:box"
    if prog.get("sub") is not None:
        ctx["sub"] = "@sub"  # a callable rendering the second template prog["sub"]; built by the harness per side
    return ctx


# --------------------------------------------------------------------------
# reference interpreter


class _Caller:
    def __init__(self, body):
        self.body = body


class Interp:
    def __init__(self, prog, ctx, call_filtered=True):
        """ctx: the resolved render context (real objects)"""
        from mc import c02_env

        self.prog = prog
        self.call_filtered = call_filtered
        self.stack = [[]]
        self.steps = [0]
        env = {"__builtins__": __builtins__}
        # names every template of this family can see at module level
        for n in ("f3", "f4", "f5"):
            env[n] = getattr(c02_env, n)
        if prog.get("bind", "ctx") != "ctx":
            for n in ("f1", "f2", "g", "ns", "boom"):
                env[n] = getattr(c02_env, n)
        env["capture"] = self._capture_call  # documented built-in: run a callable with a fresh buffer, return its content
        env.update(ctx)
        self.env = env
        for nd in prog["body"]:
            if nd[0] == "def":
                env[nd[1]] = self._make_def(nd)

    def write(self, s):
        if not isinstance(s, str):
            raise DontCare("a non-string (%s) reaches the output buffer" % type(s).__name__)
        self.stack[-1].append(str(s))

    def _capture(self, nodes, env):
        self.stack.append([])
        try:
            self.run(nodes, env)
        finally:
            buf = self.stack.pop()
        return "".join(buf)

    def _capture_call(self, f, *a, **k):
        self.stack.append([])
        try:
            f(*a, **k)
        finally:
            buf = self.stack.pop()
        return "".join(buf)

    def _make_def(self, nd):
        _, name, fl, body = nd

        def call(*a, **k):
            # the pending caller (of a <%call>) is visible as `caller` inside the def
            env = dict(self.env)
            env["caller"] = self._pending
            self._pending = None
            if fl.get("filter") is None and not fl.get("buffered"):
                self.run(body, env)
                return ""
            s = self._capture(body, env)
            r = apply_stages(tag_stages(fl.get("filter")), s, env, self.steps)
            if fl.get("buffered"):
                r = apply_stages(tag_stages(self.prog.get("B")), r, env, self.steps)
                return r.v
            self.write(r.v)
            return ""

        return call

    _pending = None

    def run(self, nodes, env):
        for nd in nodes:
            k = nd[0]
            if k == "text":
                self.write(nd[1])
            elif k == "expr":
                _, src, filters, raw = nd
                value = _ev(src, env)
                st = expression_stages(filters, self.prog.get("P"), self.prog.get("D"))
                self.write(apply_stages(st, value, env, self.steps).v)
            elif k == "def":
                pass
            elif k == "block":
                _, name, filters, body = nd
                if filters is None:
                    self.run(body, env)
                else:
                    s = self._capture(body, env)
                    self.write(apply_stages(tag_stages(filters), s, env, self.steps).v)
            elif k == "call":
                _, name, body = nd
                outer = env

                def body_fn(_body=body, _env=outer):
                    self.run(_body, _env)
                    return ""

                self._pending = _Caller(body_fn)
                r = _ev(name + "()", env)
                # what <%call> does with the callee's return value is not fixed by the statement: either it is
                # written as it is, or expr= is an expression substitution with an empty local filter list
                if self.call_filtered:
                    st = expression_stages([], self.prog.get("P"), self.prog.get("D"))
                    r = apply_stages(st, r, env, self.steps).v
                self.write(r)
            elif k == "texttag":
                _, s, filters = nd
                if filters is None:
                    self.write(s)
                else:
                    self.write(apply_stages(tag_stages(filters), s, env, self.steps).v)
            else:
                raise AssertionError(nd)

    def render(self):
        self.run(self.prog["body"], self.env)
        return "".join(self.stack[0])


def _has_call(nodes):
    for nd in nodes:
        if nd[0] == "call":
            return True
        if nd[0] in ("def", "block") and _has_call(nd[3]):
            return True
    return False


def reference_sub(prog, ctx):
    """the callable `sub` of the reference side: renders the second program with its own filters"""
    return lambda: Interp(prog, ctx).render()


RAISES = "\x00raises"  # among the allowed alternatives: "the render raises"


def _reference_once(prog, ctx):
    it = Interp(prog, ctx)
    try:
        out = it.render()
        alt = []
        if _has_call(prog["body"]):
            a = Interp(prog, ctx, call_filtered=False).render()
            if a != out:
                alt.append(a)
        return ("ok", out, it.steps[0], alt)
    except DontCare as e:
        return ("dontcare", str(e), it.steps[0])
    except Exception as e:  # the documented composition itself raises: so must the template
        return ("error", type(e).__name__, it.steps[0])


def reference(prog, ctx):
    """-> ("ok", text, steps, [other allowed outcomes: texts or RAISES]) | ("dontcare", reason, steps)
    | ("error", exception class name, steps)"""
    _POLICY.clear()
    del _MET[:]
    first = _reference_once(prog, ctx)
    if not _MET:
        return first
    # a text filter met a non-string: run every combination of the allowed readings
    import itertools

    names = list(_MET)
    results = []
    for _round in range(4):
        results = []
        grew = False
        for combo in itertools.product(*[OPTIONS[n] for n in names]):
            _POLICY.clear()
            _POLICY.update(zip(names, combo))
            del _MET[:]
            results.append(_reference_once(prog, ctx))
            for n in _MET:
                if n not in names:
                    names.append(n)
                    grew = True
        if not grew:
            break
    else:
        return ("dontcare", "too many readings", first[2])
    _POLICY.clear()
    steps = max(r[2] for r in results)
    if any(r[0] == "dontcare" for r in results):
        return ("dontcare", [r for r in results if r[0] == "dontcare"][0][1], steps)
    oks = [r for r in results if r[0] == "ok"]
    errs = [r for r in results if r[0] == "error"]
    if not oks:
        return ("error", errs[0][1], steps)
    texts = []
    for r in oks:
        for t in [r[1]] + list(r[3]):
            if t not in texts:
                texts.append(t)
    return ("ok", texts[0], steps, texts[1:] + ([RAISES] if errs else []))
