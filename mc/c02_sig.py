"""C02 helper: footprint signatures of failing cases.

pipe / tagf / bind families: which filter sources take part in the failing program + how it fails.
spell family: where Mako's expression scanner stopped (the character and its lexical context as Python's own
tokenizer sees it), so that one scanner defect has one signature whatever expression it was found in.
"""

import io
import tokenize

from mc import c02_ref

_CLOSE = {"(": ")", "[": "]", "{": "}"}


def walk(nodes):
    for nd in nodes:
        yield nd
        if nd[0] in ("def", "block"):
            yield from walk(nd[3])
        elif nd[0] == "call":
            yield from walk(nd[2])


def value_expr(prog):
    for nd in walk(prog["body"]):
        if nd[0] == "expr" and nd[1] not in ("d()", "caller.body()", "'x'"):
            return nd
    return None


def features(prog):
    feats = set()
    nd = value_expr(prog)
    L = nd[2] if nd else []
    if any(not c02_ref.is_n(f) for f in L):
        feats.add("L")
    if any(c02_ref.is_n(f) for f in L):
        feats.add("n")
    D, P = prog.get("D"), prog.get("P") or []
    if D is None:
        feats.add("Dunset")
    elif D:
        feats.add("D")
    if any(not c02_ref.is_n(f) for f in P):
        feats.add("P")
    if any(c02_ref.is_n(f) for f in P):
        feats.add("Pn")
    if prog.get("B"):
        feats.add("B")
    for n2 in walk(prog["body"]):
        fl = None
        if n2[0] == "def":
            fl = n2[2].get("filter")
            if n2[2].get("buffered"):
                feats.add("buffered")
            if fl is not None:
                feats.add("def-filter")
        elif n2[0] == "block" and n2[2] is not None:
            fl = n2[2]
            feats.add("block-filter")
        elif n2[0] == "texttag" and n2[2] is not None:
            fl = n2[2]
            feats.add("text-filter")
        elif n2[0] == "call":
            feats.add("call")
        if fl and any(c02_ref.is_n(f) for f in fl):
            feats.add("Fn")
    if prog.get("bind", "ctx") != "ctx":
        feats.add("bind=" + prog["bind"])
    if prog.get("pbind", "imports") != "imports":
        feats.add("pbind=" + prog["pbind"])
    if prog.get("decoy"):
        feats.add("decoy")
    if prog.get("strict"):
        feats.add("strict_undefined")
    if prog.get("via"):
        feats.add("via=" + prog["via"])
    return feats


def pclass(prog):
    P = prog.get("P")
    if not P:
        return "absent"
    return "a list containing n" if any(c02_ref.is_n(f) for f in P) else "a list without n"


def py_context(src, off):
    """lexical context (by Python's tokenizer) of the character src[off] of a valid expression"""
    src = src.replace("\r\n", " \n")  # same length, same tokens
    starts = [0]
    for line in src.split("\n")[:-1]:
        starts.append(starts[-1] + len(line) + 1)

    def pos(rc):
        r, c = rc
        if r - 1 >= len(starts):
            return len(src) + 1
        return starts[r - 1] + c - (1 if r == 1 else 0)  # undo the wrapping parenthesis on row 1

    stack = []  # open brackets and f-strings
    try:
        first = True
        for tok in tokenize.generate_tokens(io.StringIO("(" + src + "\n)", newline="\n").readline):
            name = tokenize.tok_name[tok.type]
            if first:
                first = False
                if name == "OP" and tok.string == "(":
                    continue  # the wrapper
            a, b = pos(tok.start), pos(tok.end)
            if a <= off < b:
                if name == "STRING":
                    body = tok.string.lstrip("rRbBuUfF")
                    pre = tok.string[: len(tok.string) - len(body)]
                    q = body[:3] if body[:3] in ("'''", '"""') else body[:1]
                    for kind, qq in reversed(stack):
                        if kind == "f" and qq[0] == q[0]:
                            return "a string that reuses the quote of its enclosing f-string (PEP 701)"
                    return "a %s%s..%s string" % (pre, q, q)
                if name == "FSTRING_MIDDLE":
                    return "the literal part of an f-string"
                if name == "COMMENT":
                    return "a comment"
                if stack:
                    kind, qq = stack[-1]
                    return "an f-string replacement field" if kind == "f" else "%s..%s" % (qq, _CLOSE[qq])
                return "top level (%s)" % name
            if name == "FSTRING_START":
                stack.append(("f", tok.string.lstrip("rRfF")))
            elif name == "FSTRING_END":
                if stack:
                    stack.pop()
            elif name == "OP" and tok.string in "([{":
                stack.append(("b", tok.string))
            elif name == "OP" and tok.string in ")]}":
                if stack:
                    stack.pop()
    except Exception as e:  # noqa
        return "unknown (%s)" % type(e).__name__
    return "unknown"


def scan_footprint(prog, text):
    """where Mako's scanner cut the expression short: character + Python lexical context; None if it did not"""
    from mako.lexer import Lexer

    nd = [n for n in prog["body"] if n[0] == "expr"][0]
    raw = nd[3] if nd[3] is not None else nd[1]
    src = nd[1]
    start = text.index("${" + raw) + 2
    lead = len(raw) - len(raw.lstrip())
    lx = Lexer(text)
    lx.textlength = len(text)
    lx.match_position = start
    try:
        got, end = lx.parse_until_text(True, r"\|", r"}")
    except BaseException as e:  # noqa
        return "scanner raises " + type(e).__name__
    want_len = lead + len(src)
    if len(got) < want_len:
        off = len(got) - lead
        return "cut inside %s" % py_context(src, off)
    rest = raw[want_len:]
    if len(got) > want_len + (len(rest) - len(rest.lstrip())):
        return "ran past the end of the expression"
    return None


def signature(prog, exp, obs, tags=None, text=None):
    how = "diff" if obs[0] == "ok" and exp[0] == "ok" else ("no-error" if obs[0] == "ok" else "exc:" + obs[1])
    fam = prog.get("fam", "pipe")
    if fam == "spell":
        try:
            if text is None:
                text = c02_ref.print_program(prog)[0]
            fp = scan_footprint(prog, text)
        except Exception as e:  # noqa
            fp = "footprint-error " + type(e).__name__
        if fp:
            return "spell:" + fp
        return "spell:%s:%s" % (how, (tags or ["?"])[0])
    if fam == "fpart":
        return "fpart:%s:%s" % (how, prog.get("fclass", "?"))
    if fam == "vals":
        nd = value_expr(prog)
        stages = c02_ref.expression_stages(nd[2] if nd else [], prog.get("P"), prog.get("D"))
        return "vals:%s:first stage %s" % (how, stages[0] if stages else "none")
    if fam == "nest":
        fo, fi = prog.get("nest") or ["?", "?"]
        cls = lambda f: "decode.*" if f.startswith("decode.") else f  # noqa
        return "nest:%s:outer=%s/inner=%s" % (how, cls(fo), cls(fi))
    return "%s:%s:%s" % ("tagf" if fam == "tagf" else "expr", how, "+".join(sorted(features(prog))))
