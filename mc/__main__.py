import sys
from mc.core import main
sys.exit(main())
