"""In-tree dict cache backend for the C16 render harness (registered through mako.cache.register_plugin)."""

STORE = {}
CALLS = []  # (key, arguments) of every get_or_create
SCHED = None


def _y(label):
    if SCHED is not None:
        SCHED.yield_point(label)


def _base():
    from mako.cache import CacheImpl

    return CacheImpl


class _Meta(type):
    pass


def _make():
    CacheImpl = _base()

    class DictCache(CacheImpl):
        def get_or_create(self, key, creation_function, **kw):
            k = (self.cache.id, key)
            CALLS.append((key, dict(kw)))
            _y("cache.check")
            if k in STORE:
                return STORE[k]
            v = creation_function()
            _y("cache.store")
            STORE[k] = v
            return v

        def set(self, key, value, **kw):
            STORE[(self.cache.id, key)] = value

        def get(self, key, **kw):
            return STORE.get((self.cache.id, key))

        def invalidate(self, key, **kw):
            STORE.pop((self.cache.id, key), None)

    return DictCache


def __getattr__(name):
    if name == "DictCache":
        cls = _make()
        globals()["DictCache"] = cls
        return cls
    raise AttributeError(name)


def deco(fn):
    """a user decorator (documented signature) with scheduling points before and after the wrapped call"""

    def wrapper(context, *a, **kw):
        _y("deco.before")
        r = fn(*a, **kw)
        _y("deco.after")
        return r

    return wrapper
