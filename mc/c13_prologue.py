"""C13 family "prologue": an exception raised while a section is being ENTERED - after the call, before its first
node - and in an include's set-up.  Kinds:

  strict      strict_undefined=True and the section reads a name nobody supplies (NameError at the section's start)
  default     a def nested in the section has an argument default that raises (evaluated when the section starts)
  nsfetch     the section uses a <%namespace> whose file does not exist (TemplateLookupException when first fetched)
  inc-inherit the included template inherits from an expression that raises / names no template
  inc-ns      the included template declares a namespace whose file does not exist and uses it

Section flavours: plain, buffered, filter=, cached, buffered+filter; placements: top-level def, def nested in a def,
anonymous block, named block; call forms ${f()}, capture(f), <%call expr>.  Handlers: a `% try` around the call, an
error_handler returning True, the caller of render_context (then a second render on a fresh context must be right),
include_error_handler returning True (include kinds).  Closed forms: text written before the failing section stays,
the section contributes nothing, later output follows in place; unhandled, the ORIGINAL exception object propagates.

Nothing here imports mako at import time.
"""

import itertools


class Boom(ValueError):
    pass


class FalsyBoom(Boom):
    """an exception whose instances are false in a boolean test (an empty collection of problems)"""

    def __bool__(self):
        return False

    def __len__(self):
        return 0


FLAVOURS = {"plain": "", "buffered": ' buffered="True"', "filter": ' filter="trim"', "cached": ' cached="True"', "buffered+filter": ' buffered="True" filter="trim"',
            "filter-n": ' filter="n"', "filter-n-n": ' filter="n, n"', "filter-n-trim": ' filter="n, trim"'}
KINDS = ["strict", "default", "nsfetch", "mid", "mid-falsy"]
PLACES = ["top", "nested"]  # (names read in a block are fetched when the ENCLOSING callable starts: no section to abandon)
FORMS = ["expr", "capture", "calltag"]
HANDLERS = ["try", "error_handler", "caller"]
INC_KINDS = ["inc-inherit-raises", "inc-inherit-missing", "inc-ns-missing"]
INC_HANDLERS = ["try", "include_error_handler", "caller", "error_handler"]


def cases():
    for kind in KINDS:
        for fl in FLAVOURS:
            for place in PLACES:
                forms = FORMS if place in ("top", "nested") else ["inplace"]
                for form in forms:
                    for h in HANDLERS:
                        yield {"fam": "prologue", "kind": kind, "flavour": fl, "place": place, "form": form, "handler": h}
    yield from nested_cases()
    for kind in INC_KINDS:
        for h in INC_HANDLERS:
            for wrap in ("body", "in-buffered-def", "in-loop"):
                yield {"fam": "prologue", "kind": kind, "flavour": "-", "place": wrap, "form": "include", "handler": h}


NESTED_SITES = {
    # where the nested render_context() call sits -> (template text around CALL, expected output with the widget giving W)
    "body": ("s(CALL)e|${g()}", "s(W)e|G"),
    "buffered-def": ('<%def name="f()" buffered="True">F[CALL]</%def>s(${f()})e|${g()}', "s(F[W])e|G"),
    "filtered-def": ('<%def name="f()" filter="trim">F[CALL]</%def>s(${f()})e|${g()}', "s(F[W])e|G"),
    "capture": ('<%def name="f()">F[CALL]</%def>s(${capture(f)})e|${g()}', "s(F[W])e|G"),
    "call-body-of-buffered-def": ('<%def name="w()" buffered="True">w{${caller.body()}}</%def>s(<%call expr="w()">CALL</%call>)e|${g()}', "s(w{W})e|G"),
    "block-filter": ('s(<%block filter="trim">B[CALL]</%block>)e|${g()}', "s(B[W])e|G"),
    "nested-twice": ('<%def name="f()" buffered="True">F[<%def name="i()" buffered="True">I[CALL]</%def>${i()}]</%def>s(${f()})e|${g()}', "s(F[I[W]])e|G"),
}
NESTED_CALLS = {"render_context": "<% widget.render_context(context) %>", "render_context-kw": "<% widget.render_context(context, q=1) %>"}


def nested_cases():
    for site in NESTED_SITES:
        for call in NESTED_CALLS:
            for wk in ("fails-handled", "ok"):
                yield {"fam": "prologue", "kind": "nested-render", "flavour": site, "place": call, "form": wk, "handler": "error_handler"}


def run_nested(c):
    """a second template rendered into the SAME context (render_context) from inside a capturing construct; its failure
    is handled by the error_handler of the template the Context belongs to (returns True): what it wrote stays where it was written, the enclosing
    constructs close normally, later output follows"""
    from mako.runtime import Context
    from mako.template import Template
    from mako.util import FastEncodingBuffer

    tmpl, exp = NESTED_SITES[c["flavour"]]
    handled = []

    def eh(context, error):
        handled.append(error)
        return True

    def boom():
        raise Boom("planted")

    # (the template the Context was made for - the outer one - is the one whose error handling options govern)
    widget = Template("W${boom()}X" if c["form"] == "fails-handled" else "W")
    main = Template(tmpl.replace("CALL", NESTED_CALLS[c["place"]]) + '<%def name="g()">G</%def>', error_handler=eh)
    what = "nested-render:%s" % c["flavour"]
    for attempt in (1, 2):
        buf = FastEncodingBuffer()
        ctx = Context(buf, widget=widget, boom=boom)
        del handled[:]
        try:
            main.render_context(ctx)
            out = "".join(buf.getvalue().split("\n"))
        except Exception as e:  # noqa
            return ("prologue:%s:exception escapes (%s)" % (what, type(e).__name__), "a failure of the nested render handled by the error_handler leaves the enclosing render consistent", exp, "%s: %s" % (type(e).__name__, str(e)[:100]))
        if c["form"] == "fails-handled" and len(handled) != 1:
            return ("prologue:%s:handler not called once" % what, "the error_handler is called once", 1, len(handled))
        if out != exp:
            return ("prologue:%s:output differs" % what, "text goes to the buffer that was current where it was written; enclosing constructs close normally", exp, out)
        if len(ctx._buffer_stack) != 1 or ctx._buffer_stack[0] is not buf:
            return ("prologue:%s:buffer stack not restored" % what, "rendering state is as if every construct had been exited normally", "the caller's buffer alone", "depth %d" % len(ctx._buffer_stack))
    return None


def build(c):
    """-> (files, template kwargs, expected output when handled, exception class name expected unhandled)"""
    kind, fl, place, form, h = c["kind"], c["flavour"], c["place"], c["form"], c["handler"]
    files = {}
    kw = {}
    if form == "include":
        if kind == "inc-inherit-raises":
            files["/inc.html"] = '<%inherit file="${context[\'boom\']()}"/>INC'
            exc = "Boom"
        elif kind == "inc-inherit-missing":
            files["/inc.html"] = '<%inherit file="/nowhere.html"/>INC'
            exc = "TemplateLookupException"
        else:
            files["/inc.html"] = '<%namespace name="q" file="/nowhere.html"/>INC${q.x()}'
            exc = "TemplateLookupException"
        inc = '<%include file="/inc.html"/>'
        if place == "body":
            site, pre, post = inc, "s(", ")e"
        elif place == "in-buffered-def":
            files_def = '<%def name="w()" buffered="True">w[' + inc + "]</%def>"
            site, pre, post = "${w()}", "s(", ")e"
        else:
            site, pre, post = "\\\n% for i in range(2):\n<" + inc + ">\\\n% endfor\n", "s(", ")e"
        trysite = "\\\n% try:\n" + site + "\\\n% except Exception as zz:\nC\\\n% endtry\n" if h == "try" else site
        main = pre + trysite + post + "|${g()}" + '<%def name="g()">G</%def>' + (files_def if place == "in-buffered-def" else "")
        files["/main.html"] = main
        # handled by the try: nothing of the include, C instead; by include_error_handler: the include contributes nothing
        if h == "try":
            exp = "s(<C)e|G" if place == "in-loop" else "s(C)e|G"
        elif h == "include_error_handler":
            exp = {"body": "s()e|G", "in-buffered-def": "s(w[])e|G", "in-loop": "s(<><>)e|G"}[place]
        elif h == "error_handler":
            exp = {"body": "s(", "in-buffered-def": "s(", "in-loop": "s(<"}[place]
        else:
            exp = None
        return files, kw, exp, exc
    attr = FLAVOURS[fl]
    inner = "F"
    if kind == "strict":
        kw["strict_undefined"] = True
        inner = "F${zz_nobody_supplies_this}"
        exc = "NameError"
    elif kind == "default":
        inner = '<%def name="deep(a=boom())">d</%def>F'
        exc = "Boom"
    elif kind in ("mid", "mid-falsy"):
        # the section has already written text when it fails: a section with a buffer of its own (buffered, filter=, cached)
        # takes that text with it, a plain def has written it directly
        inner = "F${boom()}"
        exc = "Boom"
    else:
        inner = "F${nq.x()}"
        exc = "TemplateLookupException"
    head = '<%namespace name="nq" file="/nowhere.html"/>' if kind == "nsfetch" else ""
    defs = ""
    if place == "top":
        defs = '<%def name="f()"' + attr + ">" + inner + "</%def>"
        call = {"expr": "${f()}", "capture": "${capture(f)}", "calltag": '<%call expr="f()"></%call>'}[form]
    elif place == "nested":
        call = "${o()}"
        ic = {"expr": "${f()}", "capture": "${capture(f)}", "calltag": '<%call expr="f()"></%call>'}[form]
        defs = '<%def name="o()">o[<%def name="f()"' + attr + ">" + inner + "</%def>" + ic + "]</%def>"
    elif place == "anon-block":
        if "cached" in fl:
            attr = attr  # anonymous blocks may be cached
        call = "<%block" + attr + ">" + inner + "</%block>"
    else:
        call = '<%block name="nb"' + attr + ">" + inner + "</%block>"
    if kind == "default" and place in ("anon-block", "named-block"):
        return None  # a def cannot be nested in a block's tag body in every version: not generated
    trysite = "\\\n% try:\n" + call + "\\\n% except Exception as zz:\nC\\\n% endtry\n" if h == "try" else call
    files["/main.html"] = head + "s(" + trysite + ")e|${g()}" + '<%def name="g()">G</%def>' + defs
    direct = "F" if (kind in ("mid", "mid-falsy") and fl == "plain" and form != "capture") else ""
    exp = ("s(o[" + direct + "C)e|G" if place == "nested" else "s(" + direct + "C)e|G") if h == "try" else None
    if h == "error_handler":
        exp = "s(" + direct  # the handler ends the render: what was written directly before the failure stays
        if place == "nested":
            exp = "s(o[" + direct
    return files, kw, exp, exc


def run(c):
    """-> None or (sig, oracle text, expected, observed)"""
    from mako import exceptions
    from mako.lookup import TemplateLookup
    from mako.runtime import Context
    from mako.util import FastEncodingBuffer

    if c["kind"] == "nested-render":
        return run_nested(c)
    b = build(c)
    if b is None:
        return "skip"
    files, kw, exp, excname = b
    h = c["handler"]
    seen = []

    def boom():
        e = (FalsyBoom if c["kind"] == "mid-falsy" else Boom)("planted")
        seen.append(e)
        raise e

    def eh(context, error):
        import sys as _sys

        seen.append(("handled", error))
        # the handler runs WHILE the exception is being handled: sys.exc_info() (what RichTraceback() and the error
        # templates read when they are given nothing) is that exception
        seen.append(("exc_info", _sys.exc_info()[1]))
        try:
            from mako import exceptions as _ex

            rt = _ex.RichTraceback()
            seen.append(("rich", rt.error, len(rt.records)))
        except BaseException as e_:  # noqa
            seen.append(("rich", e_, -1))
        return True

    def given_to_handler():
        return [x[1] for x in seen if isinstance(x, tuple) and x[0] == "handled"]

    lkw = dict(kw)
    if h == "error_handler":
        lkw["error_handler"] = eh
    if h == "include_error_handler":
        lkw["include_error_handler"] = eh
    lk = TemplateLookup(**lkw)
    for u, t in files.items():
        lk.put_string(u, t)
    try:
        t = lk.get_template("/main.html")
    except Exception as e:  # noqa
        return ("prologue:compile", "the program compiles", "template", "%s: %s" % (type(e).__name__, str(e)[:120]))
    classes = {"Boom": Boom, "NameError": NameError, "TemplateLookupException": exceptions.TemplateLookupException}
    what = "%s:%s" % (c["kind"], c["flavour"])
    for attempt in (1, 2):
        buf = FastEncodingBuffer()
        ctx = Context(buf, boom=boom)
        del seen[:]
        try:
            t.render_context(ctx)
            out = ("ok", "".join(buf.getvalue().split("\n")))
        except Exception as e:  # noqa
            out = ("exc", e)
        if h == "include_error_handler" and out[0] == "exc":
            # whether the handler also covers the SET-UP of the included template is not fixed by the statement; what
            # propagates must then be the original exception
            if not isinstance(out[1], classes[excname]):
                return ("prologue:%s:another exception propagates (%s)" % (what, type(out[1]).__name__), "unhandled, the original exception object propagates unchanged", excname, "%s: %s" % (type(out[1]).__name__, str(out[1])[:100]))
        elif h in ("try", "include_error_handler") or (h == "error_handler"):
            if out[0] != "ok":
                return ("prologue:%s:handled but %s escapes" % (what, type(out[1]).__name__), "an exception handled by %s leaves a consistent render" % h, exp, "%s: %s" % (type(out[1]).__name__, str(out[1])[:100]))
            if h in ("error_handler", "include_error_handler") and excname == "Boom":
                raised = [x for x in seen if isinstance(x, Boom)]
                got_ = given_to_handler()
                if raised and got_ and got_[0] is not raised[0]:
                    return ("prologue:%s:handler is not given the exception object" % what, "the handler receives the exception that was raised", repr(raised[0]), repr(got_[0]))
            if h in ("error_handler", "include_error_handler"):
                hd = given_to_handler()
                ei = [x[1] for x in seen if isinstance(x, tuple) and x[0] == "exc_info"]
                ri = [x for x in seen if isinstance(x, tuple) and x[0] == "rich"]
                if hd and ei and ei[0] is not hd[0]:
                    return ("prologue:%s:handler runs outside the exception's handling" % what, "inside the handler sys.exc_info() is the exception being handled", repr(hd[0]), repr(ei[0]))
                # (RichTraceback takes `value or type` from sys.exc_info(): for an exception instance that is false in a
                # boolean test its .error is the class - outside every listed property, not demanded here)
                if hd and ri and ((ri[0][1] is not hd[0] and ri[0][1] is not type(hd[0])) or ri[0][2] < 1):
                    return ("prologue:%s:RichTraceback() in the handler does not describe the exception" % what, "RichTraceback() called in the handler describes the exception being handled", repr(hd[0]), "%r, %d records" % (ri[0][1], ri[0][2]))
            if h == "error_handler":
                if not out[1].startswith(exp):
                    return ("prologue:%s:output before the failure lost" % what, "text written directly before the failing section stays", exp + "...", out[1])
            elif out[1] != exp:
                return ("prologue:%s:output differs after a handled exception" % what, "later output goes to the correct buffer, abandoned buffers are discarded", exp, out[1])
        else:
            if out[0] != "exc":
                return ("prologue:%s:no exception" % what, "unhandled, the original exception propagates", excname, out[1])
            if not isinstance(out[1], classes[excname]):
                return ("prologue:%s:another exception propagates (%s)" % (what, type(out[1]).__name__), "unhandled, the original exception object propagates unchanged", excname, "%s: %s" % (type(out[1]).__name__, str(out[1])[:100]))
            if excname == "Boom" and seen and out[1] is not seen[0]:
                return ("prologue:%s:not the original object" % what, "unhandled, the original exception object propagates unchanged", "the raised object", repr(out[1]))
        if len(ctx._buffer_stack) != 1 or ctx._buffer_stack[0] is not buf:
            return ("prologue:%s:buffer stack not restored" % what, "rendering state is as if every abandoned construct had been exited normally", "the caller's buffer alone", "depth %d" % len(ctx._buffer_stack))
    return None
