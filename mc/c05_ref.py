"""C05 helper: reference interpreter of the program IR (mc/c05_ir.py).

Implements DESIGN.md Appendix A rules A1 (output) and A3 (defs and calls) on the
IR directly; never sees the Mako text and imports nothing from mako.  Python is
the oracle for Python: argument lists and expression leaves are evaluated with
eval(), parameter binding is done by a real Python function that has the
declared signature.

  * output: a stack of buffers; Text writes to the top buffer; an expression is
    evaluated, goes through the expression pipeline (str, then the template's
    default filters) and is written to the top buffer;
  * calling a def: bind by Python; the def's `caller` is the caller object of the
    call-with-content that invoked it, else None; unbuffered -> writes in place,
    returns ''; buffered -> own buffer, returns buffer_filters(def_filters(content));
    filter= without buffered -> own buffer, writes def_filters(content) in place,
    returns ''; decorator -> deco(fn) called as wrapper(context, *args, **kw);
  * call with content: keyword arguments from the attributes (literal -> str,
    single ${e} -> value, mixture -> + left to right); caller.body(**args) and the
    defs written inside the tag run in the scope of the call site (`caller` inside
    body is the call site's caller); nested defs are defs (their own caller);
  * capture(f, *a, **k): fresh buffer, run, pop, return the content;
  * `caller` is lexical here (the innermost enclosing def's caller), so "restored
    after the call" holds by construction.
"""

import builtins
import functools
import operator

from mc import c05_env

_GLOBALS = {"__builtins__": builtins}


class RefCaller:
    """the `caller` namespace of a call with content"""

    def __init__(self):
        pass


class RefNamespace:
    """self / local: the top-level defs of the file"""

    def __init__(self):
        pass


class RefContext:
    """what a decorator receives as `context`"""

    def __init__(self, ref):
        self._ref = ref

    def write(self, s):
        self._ref.write(s)


_BINDERS = {}


def binder(sig):
    """a real Python function with the declared signature that returns its bound parameters, in declaration order"""
    f = _BINDERS.get(sig)
    if f is None:
        ns = {}
        exec("def __bind(%s):\n    return dict(locals())\n" % sig, dict(_GLOBALS), ns)
        f = _BINDERS[sig] = ns["__bind"]
    return f


def _cap(*a, **k):
    return a, k


def as_call(sig):
    """argument list that hands the same-named variables to a function of this signature (Python's inspect decides
    which parameter is of which kind)"""
    import inspect

    out = []
    for p in inspect.signature(binder(sig)).parameters.values():
        if p.kind == p.VAR_POSITIONAL:
            out.append("*" + p.name)
        elif p.kind == p.KEYWORD_ONLY:
            out.append("%s=%s" % (p.name, p.name))
        elif p.kind == p.VAR_KEYWORD:
            out.append("**" + p.name)
        else:
            out.append(p.name)
    return ", ".join(out)


class Ref:
    def __init__(self, prog, calldef_caller="own", calldef_leak=False):
        from mc.c05_ir import CFGS

        # "own": a def written inside a call is a def like any other (its caller is whoever calls it with content);
        # "outer": alternative model used only to classify a known defect (it sees the call site's caller)
        self.calldef_caller = calldef_caller
        # alternative model used only to classify a known defect: the defs written inside calls that are nested in
        # this call's body are exported on this call's `caller` as well (later ones win)
        self.calldef_leak = calldef_leak

        cfg = CFGS[prog["cfg"]]
        self.prog = prog
        self.bufs = [[]]
        self.expr_filters = [c05_env.FILTERS[n] for n in cfg.get("default_filters", ["str"]) if n != "str"]
        self.buffer_filters = [c05_env.FILTERS[n] for n in cfg.get("buffer_filters", [])]
        self.context = RefContext(self)
        self.steps = 0

    # -- output ---------------------------------------------------------
    def write(self, s):
        self.bufs[-1].append(s)

    def emit(self, value):
        s = str(value)
        for f in self.expr_filters:
            s = f(s)
        self.write(s)

    def capture(self, fn, *a, **k):
        if not callable(fn):
            raise TypeError("capture() needs a callable")
        self.bufs.append([])
        try:
            fn(*a, **k)
        finally:
            buf = self.bufs.pop()
        return "".join(buf)

    # -- program --------------------------------------------------------
    def render(self):
        base = dict(self.prog["ctx"])
        base["capture"] = self.capture
        base["caller"] = None
        ns = RefNamespace()
        base["self"] = base["local"] = ns
        self.toplevel = {}
        for d in self.prog["defs"]:
            fn = self.make_def(d, base)
            self.toplevel[d["name"]] = fn
            setattr(ns, d["name"], fn)
            base[d["name"]] = fn
        self.base = base
        body_env = base
        if self.prog.get("page") is not None:
            # <%page args>: the body is a function (sig, **pageargs) called with render()'s positional arguments and
            # all of its keyword arguments (which are the context values as well)
            pos, kw = self.ev("__cap(%s)" % self.prog.get("render_args", ""), {"__cap": _cap})
            data = dict(self.prog["ctx"])
            data.update(kw)
            body_env = dict(base)
            body_env.update(data)
            bound = binder(self.prog["page"] + ", **pageargs")(*pos, **data)
            bound.pop("pageargs", None)
            body_env.update(bound)
        for s in self.prog["body"]:
            if s[0] == "nblock":
                # a named block is a member of the template's namespace, a top-level callable (sig, **pageargs)
                d = {"name": s[1], "sig": s[2] + ", **pageargs", "buffered": False, "filters": [], "deco": False, "defs": [], "body": s[3]}
                setattr(ns, s[1], self.make_def(d, base))
        self.block(self.prog["body"], body_env)
        assert len(self.bufs) == 1
        return "".join(self.bufs[0])

    def make_def(self, d, env_of_definition, keep_caller=False):
        """the callable a def is; env_of_definition is looked at when called (a closure), `caller=` is how a call
        with content hands its caller object over"""
        bind = binder(d["sig"])
        flt = [c05_env.FILTERS[n] for n in d["filters"]]

        def raw(*a, **k):
            caller = k.pop("__caller", None)
            bound = bind(*a, **k)
            env = dict(env_of_definition)
            env.update(bound)
            if not keep_caller:
                env["caller"] = caller
            for nd in d["defs"]:
                env[nd["name"]] = self.make_def(nd, env)
            own = d["buffered"] or bool(flt)
            if own:
                self.bufs.append([])
            try:
                self.block(d["body"], env)
            finally:
                if own:
                    content = "".join(self.bufs.pop())
            if not own:
                return ""
            for f in flt:
                content = f(content)
            if d["buffered"]:
                for f in self.buffer_filters:
                    content = f(content)
                return content
            self.write(content)
            return ""

        if not d["deco"]:
            return raw

        def decorated(*a, **k):
            caller = k.pop("__caller", None)

            def fn(*a2, **k2):
                return raw(*a2, __caller=caller, **k2)

            return c05_env.deco(fn)(self.context, *a, **k)

        return decorated

    def ev(self, src, env):
        return eval(src, _GLOBALS, env)

    def block(self, stmts, env):
        for s in stmts:
            self.steps += 1
            k = s[0]
            if k == "text":
                self.write(s[1])
            elif k == "expr":
                self.emit(self.ev(s[1], env))
            elif k == "for":
                for i in range(s[2]):
                    e2 = dict(env)
                    e2[s[1]] = i
                    self.block(s[3], e2)
            elif k == "block":
                self.bufs.append([])
                try:
                    self.block(s[2], env)
                finally:
                    content = "".join(self.bufs.pop())
                for n in s[1]:
                    content = c05_env.FILTERS[n](content)
                self.write(content)
            elif k == "nblock":
                # rendered in place with the same-named variables of the body as its arguments
                a, kw = self.ev("__cap(%s)" % as_call(s[2]), dict(env, __cap=_cap))
                getattr(env["self"], s[1])(*a, **kw)
            elif k == "call":
                self.call(s, env)
            else:
                raise ValueError(k)

    def call(self, s, env):
        _, form, name, args, content = s
        if form in ("self", "local", "tcallself", "tself", "tlocal"):
            target = getattr(env["self"], name)
        else:
            target = self.ev(name, env)
        if form in ("tself", "tlocal"):
            a = ()
            kw = {}
            for key, parts in args:
                # literal text of an attribute: a CRLF line end of the source is read as LF (the lexer normalises the
                # line ends of attribute values; the statement does not distinguish them)
                vals = [p[1].replace("\r\n", "\n") if p[0] == "lit" else self.ev(p[1], env) for p in parts]
                kw[key] = functools.reduce(operator.add, vals) if vals else ""
        else:
            a, kw = self.ev("__cap(%s)" % args, dict(env, __cap=_cap))
        if content is None:
            if form == "cap":
                ret = self.capture(target, *a, **kw)
            else:
                ret = target(*a, **kw)
                if form == "cat":
                    ret = "<" + ret + ">"
                if form == "stmt":
                    return  # a statement: whatever the def returned is dropped
            self.emit(ret)
            return
        c = RefCaller()
        bind = binder(content["args"])

        def body(*ba, **bk):
            e2 = dict(env)
            e2.update(bind(*ba, **bk))
            self.block(content["body"], e2)
            return ""

        c.body = body
        for nd in content["named"]:
            setattr(c, nd["name"], self.make_def(nd, env, keep_caller=self.calldef_caller == "outer"))
        if self.calldef_leak:
            for nd in inner_call_defs(content["body"]):
                setattr(c, nd["name"], self.make_def(nd, env))
        ret = target(*a, __caller=c, **kw)
        self.emit(ret)


def inner_call_defs(stmts):
    """the defs written inside calls with content that occur (at any depth) in these statements, in document order"""
    for s in stmts:
        if s[0] == "call" and s[4] is not None:
            for nd in s[4]["named"]:
                yield nd
            yield from inner_call_defs(s[4]["body"])
        elif s[0] == "for":
            yield from inner_call_defs(s[3])
        elif s[0] == "block":
            yield from inner_call_defs(s[2])


def expected(prog, **kw):
    """("ok", text) | ("exc", exception class name)"""
    try:
        return ("ok", Ref(prog, **kw).render())
    except TypeError:
        return ("exc", "TypeError")
