"""C13 helper: reference interpreter of the final IR (mc/c13_ir.py).

Implements DESIGN.md Appendix A rules A1, A3, A4, A7 and A8 with Python's own
try/finally: leaving a construct by exception pops exactly what entering it
pushed; content of popped buffers is discarded; a `% try` handler continues in
the buffer that was current at the `% try`.  Shares no code with mako and never
looks at the Mako text.
"""


def dlabel(d):
    fl = ("b" if d["b"] else "") + ("f" if d["f"] is not None else "") + ("c" if d["c"] else "") + ("d" if d["d"] else "")
    return "def[%s%s]" % (fl, "" if d["top"] else ";nested")


class RBoom(Exception):
    def __init__(self, i):
        Exception.__init__(self, i)
        self.i = i


class RBase(BaseException):
    """the BaseException-only raise kind (armed by a negative probe number): nothing inside a render catches it"""

    def __init__(self, i):
        BaseException.__init__(self, i)
        self.i = i


class Env:
    """one render callable's view: its caller (closure or None) and its own loop stack"""

    __slots__ = ("caller", "loops", "uri")

    def __init__(self, caller, uri):
        self.caller = caller
        self.loops = []
        self.uri = uri


class Ref:
    def __init__(self, prog, ieh=False):
        self.prog = prog
        self.ieh = ieh
        self.defs = {}
        for uri, f in prog["files"].items():
            for d in f["decls"]:
                self._index(d, uri)
        self.cache = {}  # uri -> {key: text}   (one cache per template)
        self.visits = {}  # probe -> times reached (reset by the caller)
        self.nested = False

    def _index(self, d, uri):
        self.defs[d["name"]] = (d, uri)
        for n in d["decls"]:
            self._index(n, uri)

    # -- one render ---------------------------------------------------------
    def render(self, targets):
        """returns dict(out=text in the outermost buffer, escaped=probe or None, raised=[probes], inside=[...], after=[...])"""
        self.T = list(targets)
        self.bufs = [[]]
        self.raised = []
        self.pkinds = []  # kind of each probe that fired
        self.handled = []  # who handled each raise that was handled inside the render
        self.path = []  # labels of the stateful constructs entered and not left
        self.inside = []  # construct path at each raise
        self.writes_after = 0  # writes since the last raise
        escaped = None
        self.base_escaped = False
        self.kind = 0
        root = self.prog["root"]
        try:
            self.block(self.prog["files"][root]["body"], Env(None, root))
        except (RBoom, RBase) as e:
            escaped = e.i
            self.base_escaped = isinstance(e, RBase)
        assert len(self.bufs) == 1 and not self.path
        return {
            "out": "".join(self.bufs[0]),
            "escaped": escaped,
            "base": self.base_escaped,
            "kind": self.kind,
            "raised": list(self.raised),
            "inside": list(self.inside),
            "after": self.writes_after,
            "pkinds": list(self.pkinds),
            "handled": list(self.handled),
            "left": list(self.T),
        }

    def cache_keys(self):
        return {uri: sorted(c) for uri, c in self.cache.items() if c}

    # -- primitives ---------------------------------------------------------
    def write(self, s):
        if s:
            self.writes_after += 1
        self.bufs[-1].append(s)

    def probe(self, i, kind="stmt"):
        self.visits[i] = self.visits.get(i, 0) + 1
        for v in self.T:
            if abs(v) % 1000 == i:
                break
        else:
            return
        self.pkinds.append(kind)
        self.T.remove(v)
        self.raised.append(v)
        self.inside.append(list(self.path))
        self.writes_after = 0
        if v < 0:
            raise RBase(i)
        self.kind = v // 1000  # exception family: all of them are handled like Boom
        raise RBoom(i)

    def push(self):
        self.bufs.append([])

    def pop(self):
        return "".join(self.bufs.pop())

    # -- statements ---------------------------------------------------------
    def block(self, stmts, env):
        for s in stmts:
            self.stmt(s, env)

    def stmt(self, s, env):
        k = s[0]
        if k == "text":
            self.write(s[1])
        elif k == "nl":
            self.write("\n")
        elif k == "probe":
            self.probe(s[1])
        elif k == "lo":
            self.write("[%d.%d]" % (env.loops[-1][0], len(env.loops) - 1))
        elif k == "cb":
            self.callbody(env)
        elif k == "rr":
            # re-entrant fault-free render of the same Template (same cache); the inner render does not recurse
            if not self.nested:
                sub = Ref.__new__(Ref)
                sub.prog, sub.ieh, sub.defs, sub.cache, sub.visits, sub.nested = self.prog, self.ieh, self.defs, self.cache, self.visits, True
                self.write(sub.render([])["out"])
        elif k == "ob":
            self.write("[nocaller]")  # A3: a def called without content has no caller
        elif k == "py":
            # Python function under supports_caller: a frame of its own whose caller is the content
            self.probe(s[1], "arg")
            benv = Env(env.caller, env.uri)
            penv = Env((s[3], benv), env.uri)
            self.path.append("py")
            try:
                self.write("<p>")
                self.probe(s[2], "pyfn")
                self.callbody(penv)
                self.write("</p>")
            finally:
                self.path.pop()
        elif k == "try":
            try:
                self.block(s[1], env)
            except RBoom as e:
                self.handled.append("try")
                self.write("[x%d]" % e.i)
                self.block(s[2], env)
        elif k == "forp":
            self.probe(s[3], "iter-plain")  # the iterable expression
            for _ in range(s[1]):
                self.block(s[2], env)
        elif k == "for":
            self.probe(s[3], "iter")  # the iterable expression is evaluated before the loop context exists
            cell = [0]
            env.loops.append(cell)
            self.path.append("for")
            try:
                for _ in range(s[1]):
                    self.block(s[2], env)
                    cell[0] += 1
            finally:
                env.loops.pop()
                self.path.pop()
        elif k == "call":
            self.call(s, env)
        elif k == "textf":
            self.push()
            self.path.append("textf")
            try:
                self.write(s[2])
            finally:
                t = self.pop()
                self.path.pop()
            self.probe(s[1], "textfilter")
            self.write("{" + t + "}")
        elif k == "inc":
            f = self.prog["files"][s[1]]
            self.path.append("inc")
            try:
                try:
                    self.block(f["body"], Env(None, s[1]))
                except RBoom:
                    if not self.ieh:
                        raise
                    self.handled.append("ieh")
                    self.write("[IEH]")
            finally:
                self.path.pop()
        elif k == "inh":
            f = self.prog["files"][s[1]]
            self.path.append("inh")
            try:
                self.block(f["body"], Env(None, s[1]))
            finally:
                self.path.pop()
        else:
            raise ValueError(k)

    def callbody(self, env):
        c = env.caller
        if c is None:
            self.write("[nocaller]")
            return
        stmts, cenv = c
        # inside body(), `caller` is the caller of the callable the <%call> is written in;
        # (no % for inside call content: the loop stack there is not fixed by A4)
        self.path.append("content")
        try:
            self.block(stmts, cenv)
        finally:
            self.path.pop()

    def call(self, s, env):
        _, form, name, argprobe, content = s
        d, uri = self.defs[name]
        self.probe(argprobe, "arg")  # the argument list is evaluated first
        if form == "expr":
            self.write(self.calldef(d, uri, None))
        elif form == "cap":
            self.push()
            self.path.append("cap")
            try:
                self.calldef(d, uri, None)  # capture() ignores what the callable returns
            finally:
                t = self.pop()
                self.path.pop()
            self.write(t)
        else:
            # the body is a closure over the calling callable; its `caller` is that callable's caller
            benv = Env(env.caller, env.uri)
            benv.loops = env.loops
            self.write(self.calldef(d, uri, (content, benv)))

    def calldef(self, d, uri, caller):
        if d["d"]:
            self.write("<d>")
            self.probe(d["d"][0], "deco-pre")
            r = self.calldef2(d, uri, caller)
            self.write("</d>")
            self.probe(d["d"][1], "deco-post")
            return r
        return self.calldef2(d, uri, caller)

    def filt(self, d, t):
        if d["f"] is not None:
            self.probe(d["f"], "filter[%s]" % dlabel(d))
            t = "{" + t + "}"
        return t

    def run_buffered(self, d, uri, caller):
        self.push()
        self.path.append(dlabel(d))
        try:
            self.block(d["body"], Env(caller, uri))
        finally:
            t = self.pop()
            self.path.pop()
        return t

    def calldef2(self, d, uri, caller):
        if d["c"]:
            key = ("render_" if d["top"] else "") + d["name"]
            store = self.cache.setdefault(uri, {})
            if key not in store:
                self.path.append("cache")
                try:
                    t = self.filt(d, self.run_buffered(d, uri, caller))
                finally:
                    self.path.pop()
                store[key] = t
            t = store[key]
            if d["b"]:
                return t
            self.write(t)
            return ""
        if d["b"]:
            return self.filt(d, self.run_buffered(d, uri, caller))
        if d["f"] is not None:
            t = self.run_buffered(d, uri, caller)
            self.write(self.filt(d, t))
            return ""
        self.path.append(dlabel(d))
        try:
            self.block(d["body"], Env(caller, uri))
        finally:
            self.path.pop()
        return ""
