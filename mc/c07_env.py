"""C07 helper: the objects a render context of a C07 program may contain.

Nothing here imports mako.  A context value written "@helper:<name>" in a case
or corpus entry names a module-level object of this module, so that another
process can rebuild the context with `build_ctx`.
"""


def cf():
    """context callable competing with an imported def of the same name"""
    return "<ctx-f>"


def cg():
    return "<ctx-g>"


def build_value(v):
    if isinstance(v, str) and v.startswith("@helper:"):
        return globals()[v[len("@helper:"):]]
    return v


def build_ctx(ctx):
    """{"name": json value | "@helper:<name>"} -> the real keyword arguments for render()"""
    return {k: build_value(v) for k, v in (ctx or {}).items()}


def helper(name):
    return globals()[name]


# data alphabets (VERIF_SEED picks one column; every element is valid in every position)
POOL_TEXT = ["a", "z", "é", "\U0001d11e"]
POOL_DIR = [("d1", "d2", "d3"), ("p", "q", "r"), ("alpha", "beta", "gamma"), ("x1", "y_2", "z-3")]
POOL_VAL = [("V1", "V2", "V3"), ("k", "l", "m"), ("éA", "ßB", "жC"), ("7", "8", "9")]
