"""C03: the template IR, its Mako printer, its reference translation to plain
Python and the reference loop context.  Nothing in this file imports mako.

IR (tuples, JSON-able):

  program = {"defs": ((name, sig, body), ...), "body": body, "page": None | 'enable_loop="True"'}
  body    = (stmt, ...)
  stmt    = ("L", pieces)                      one source line; pieces = (("t", text) | ("e", python expression), ...)
          | ("If", ((cond, body), ...), else_body | None)
          | ("For", target, iterable, body, else_body | None, trailing_comment | None)
          | ("While", cond, body)
          | ("Try", body, ((except_spec, body), ...))          except_spec "" = bare except
          | ("With", "expr as name", body)
          | ("Py", (line, ...), style)          a <% %> block; lines carry their own relative indentation
          | ("C", text)                         a '## text' line
          | ("Doc", text)                       <%doc>text</%doc> followed by backslash-newline (no output at all)
          | ("Raw", mako_text, (python line, ...))   hand-written pair (tags), '{nl}' = line terminator
          | ("Block", body)                     anonymous <%block> ... </%block>: a closure run in place
          | ("CallBody", "f()", body)           <%call expr="f()"> body </%call>: the body is a closure handed to f as caller.body
          | ("NDef", name, sig, body)           a <%def> written inside another def's body (declaration only)
          | ("NsDef", ns, name, sig, body)      <%namespace name="ns"><%def name="name(sig)"> body </%def></%namespace> in the main body
                                                (declaration only; called as ns.name(); its body reads nothing of the enclosing scope)

Two printers read it:

* `mako_source(prog, spell)`  -> template text.  All spelling choices (indentation of
  each '%'/'##' line, '% kw' vs '%kw', LF/CRLF, margin of each <% %> block) come from
  `spell` and never reach the reference.
* `ref_source(prog, enable_loop)` -> the text of a plain Python module: one function per
  def, one for the body, real for/if/while/try/with statements, `__o(str(...))` for
  output.  Python itself then decides scoping, control flow and exceptions.
"""

import builtins

CM = "\x03"  # inside a condition / except spec / with expression: what follows is a trailing '# comment' of that control line


def _cc(text):
    """'cond\x03note' -> 'cond: # note' ; 'cond' -> 'cond:'"""
    if CM in text:
        code, note = text.split(CM, 1)
        return code + ": # " + note
    return text + ":"


def code_part(text):
    return text.split(CM, 1)[0]


IND = ["", "  ", "\t", "       "]
MARGIN = ["", "    ", "        ", "\t"]


class Spell:
    """Spelling parameters of one rendering of a program into Mako syntax."""

    def __init__(self, nl="\n", ind=None, margin=None, pct=None, a=0, b=1, m=0):
        self.nl = nl
        self._ind = ind  # explicit list (full combinations) or None -> affine rule
        self._margin = margin
        self._pct = pct
        self.a, self.b, self.m = a, b, m

    def ind(self, j):
        if self._ind is not None:
            return self._ind[j % len(self._ind)]
        return IND[(self.a + self.b * j) % 4]

    def margin(self, j):
        if self._margin is not None:
            return self._margin[j % len(self._margin)]
        return MARGIN[(self.m + j) % 4]

    def pct(self, j):
        if self._pct is not None:
            return self._pct[j % len(self._pct)]
        return "% "

    def describe(self):
        return {
            "nl": self.nl,
            "ind": self._ind if self._ind is not None else "IND[(%d+%d*j)%%4]" % (self.a, self.b),
            "margin": self._margin if self._margin is not None else "MARGIN[(%d+j)%%4]" % self.m,
            "pct": self._pct or "% ",
        }


# --------------------------------------------------------------------------
# printer 1: Mako syntax


def mako_source(prog, sp):
    out = []
    cnt = {"cl": 0, "pb": 0}
    nl = sp.nl

    def cline(text):
        j = cnt["cl"]
        cnt["cl"] += 1
        out.append(sp.ind(j) + sp.pct(j) + text + nl)

    def body(stmts):
        for s in stmts:
            stmt(s)

    def stmt(s):
        k = s[0]
        if k == "L":
            for kind, v in s[1]:
                out.append(v if kind == "t" else "${" + v + "}")
            out.append(nl)
        elif k == "If":
            for i, (cond, b) in enumerate(s[1]):
                cline(("if " if i == 0 else "elif ") + _cc(cond))
                body(b)
            if s[2] is not None:
                cline("else:")
                body(s[2])
            cline("endif")
        elif k == "For":
            cline("for %s in %s:%s" % (s[1], s[2], (" # " + s[5]) if s[5] else ""))
            body(s[3])
            if s[4] is not None:
                cline("else:")
                body(s[4])
            cline("endfor")
        elif k == "While":
            cline("while " + _cc(s[1]))
            body(s[2])
            cline("endwhile")
        elif k == "Try":
            cline("try:")
            body(s[1])
            for spec, b in s[2]:
                cline("except " + _cc(spec) if spec else "except:")
                body(b)
            cline("endtry")
        elif k == "With":
            cline("with " + _cc(s[1]))
            body(s[2])
            cline("endwith")
        elif k == "Py":
            lines, style = s[1], s[2]
            if style == "inline":
                assert len(lines) == 1
                out.append("<% " + lines[0] + " %>" + nl)
            elif style == "inline-cont":
                # the line break behind the block is consumed by a backslash: nothing follows the block on its line
                assert len(lines) == 1
                out.append("<% " + lines[0] + " %>\\" + nl)
            else:
                j = cnt["pb"]
                cnt["pb"] += 1
                m = sp.margin(j)
                out.append("<%" + nl)
                for i, l in enumerate(lines):
                    # a line starting with '\x00' is written verbatim (string content, free-form continuation)
                    text = l[1:] if l.startswith("\x00") else ((m + l) if l.strip() else l)
                    last = i == len(lines) - 1
                    if last and style == "close-same-line":
                        out.append(text + " %>" + nl)
                    else:
                        out.append(text + nl)
                if style != "close-same-line":
                    out.append("%>" + nl)
        elif k == "C":
            j = cnt["cl"]
            cnt["cl"] += 1
            out.append(sp.ind(j) + "## " + s[1] + nl)
        elif k == "Doc":
            out.append("<%doc>" + s[1] + "</%doc>\\" + nl)
        elif k == "Raw":
            out.append(s[1].replace("{nl}", nl))
        elif k == "Block":
            out.append("<%block>" + nl)
            body(s[1])
            out.append("</%block>" + nl)
        elif k == "CallBody":
            out.append('<%%call expr="%s">' % s[1] + nl)
            body(s[2])
            out.append("</%call>" + nl)
        elif k == "NDef":
            out.append('<%%def name="%s(%s)">' % (s[1], s[2]) + nl)
            body(s[3])
            out.append("</%def>" + nl)
        elif k == "NsDef":
            out.append('<%%namespace name="%s">' % s[1] + nl)
            out.append('<%%def name="%s(%s)">' % (s[2], s[3]) + nl)
            body(s[4])
            out.append("</%def>" + nl)
            out.append("</%namespace>" + nl)
        else:
            raise ValueError(k)

    if prog.get("page"):
        out.append("<%page " + prog["page"] + "/>" + nl)
    for name, sig, b in prog.get("defs", ()):
        out.append('<%%def name="%s(%s)">' % (name, sig) + nl)
        body(b)
        out.append("</%def>" + nl)
    body(prog["body"])
    return "".join(out)


def count_lines(prog):
    """(number of '%'/'##' lines, number of multi-line <% %> blocks) in printing order."""
    c = [0, 0]

    def body(stmts):
        for s in stmts:
            k = s[0]
            if k == "If":
                c[0] += len(s[1]) + (1 if s[2] is not None else 0) + 1
                for _, b in s[1]:
                    body(b)
                if s[2] is not None:
                    body(s[2])
            elif k == "For":
                c[0] += 2 + (1 if s[4] is not None else 0)
                body(s[3])
                if s[4] is not None:
                    body(s[4])
            elif k == "While":
                c[0] += 2
                body(s[2])
            elif k == "Try":
                c[0] += 2 + len(s[2])
                body(s[1])
                for _, b in s[2]:
                    body(b)
            elif k == "With":
                c[0] += 2
                body(s[2])
            elif k == "C":
                c[0] += 1
            elif k == "Py" and s[2] not in ("inline", "inline-cont"):
                c[1] += 1
            elif k == "Block":
                body(s[1])
            elif k == "CallBody":
                body(s[2])
            elif k == "NDef":
                body(s[3])
            elif k == "NsDef":
                body(s[4])

    for _, _, b in prog.get("defs", ()):
        body(b)
    body(prog["body"])
    return tuple(c)


# --------------------------------------------------------------------------
# printer 2: the equivalent plain Python


def ref_source(prog, enable_loop, nl="\n"):
    L = []

    def emit(ind, text):
        L.append("    " * ind + text)

    def body(stmts, ind):
        emit(ind, "pass")
        for s in stmts:
            stmt(s, ind)

    def stmt(s, ind):
        k = s[0]
        if k == "L":
            for kind, v in s[1]:
                if kind == "t":
                    if v:
                        emit(ind, "__o(%r)" % v)
                else:
                    emit(ind, "__o(str(%s))" % v)
            emit(ind, "__o(%r)" % nl)
        elif k == "If":
            for i, (cond, b) in enumerate(s[1]):
                emit(ind, ("if " if i == 0 else "elif ") + _cc(cond))
                body(b, ind + 1)
            if s[2] is not None:
                emit(ind, "else:")
                body(s[2], ind + 1)
        elif k == "For":
            if enable_loop:
                emit(ind, "loop = __R.enter(%s)" % (s[2] if _simple(s[2]) else "(" + s[2] + ")"))
                emit(ind, "try:")
                ind += 1
                emit(ind, "for %s in loop:" % s[1])
            else:
                emit(ind, "for %s in %s:" % (s[1], s[2]))
            body(s[3], ind + 1)
            if s[4] is not None:
                emit(ind, "else:")
                body(s[4], ind + 1)
            if enable_loop:
                ind -= 1
                emit(ind, "finally:")
                emit(ind + 1, "loop = __R.exit()")
        elif k == "While":
            emit(ind, "while " + _cc(s[1]))
            body(s[2], ind + 1)
        elif k == "Try":
            emit(ind, "try:")
            body(s[1], ind + 1)
            for spec, b in s[2]:
                emit(ind, "except " + _cc(spec) if spec else "except:")
                body(b, ind + 1)
        elif k == "With":
            emit(ind, "with " + _cc(s[1]))
            body(s[2], ind + 1)
        elif k == "Py":
            for l in s[1]:
                if l.startswith("\x00"):
                    L.append(l[1:])  # verbatim: inside a string literal or a bracket
                elif l.strip():
                    emit(ind, l)
            if s[2] != "inline-cont":
                emit(ind, "__o(%r)" % nl)
        elif k == "C":
            emit(ind, "# " + s[1])
        elif k == "Doc":
            pass
        elif k == "Raw":
            for l in s[2]:
                emit(ind, l.replace("{nl}", nl.encode("unicode_escape").decode("ascii")))
        elif k in ("Block", "CallBody"):
            # a closure of the enclosing callable: it shares that callable's loop stack (and, by
            # Python's own rule, `loop` becomes its local if it binds it with a `% for` of its own)
            nclos[0] += 1
            fn = "__clos%d" % nclos[0]
            b = s[1] if k == "Block" else s[2]
            emit(ind, "def %s():" % fn)
            emit(ind + 1, "__o(%r)" % nl)
            body(b, ind + 1)
            emit(ind + 1, "return ''")
            if k == "Block":
                emit(ind, fn + "()")
            else:
                emit(ind, "__cbstack.append(%s)" % fn)
                emit(ind, "try:")
                emit(ind + 1, "__o(str(%s))" % s[1])
                emit(ind, "finally:")
                emit(ind + 1, "__cbstack.pop()")
            emit(ind, "__o(%r)" % nl)
        elif k == "NDef":
            emit(ind, "def %s(%s):" % (s[1], s[2]))
            if enable_loop:
                emit(ind + 1, "__R = __RefLoopStack()")
                emit(ind + 1, "loop = __R.top()")
            emit(ind + 1, "__o(%r)" % nl)
            body(s[3], ind + 1)
            emit(ind + 1, "return ''")
            emit(ind, "__o(%r)" % nl)
        elif k == "NsDef":
            emit(ind, "def __nsdef_%s(%s):" % (s[2], s[3]))
            if enable_loop:
                emit(ind + 1, "__R = __RefLoopStack()")
                emit(ind + 1, "loop = __R.top()")
            emit(ind + 1, "__o(%r)" % nl)
            body(s[4], ind + 1)
            emit(ind + 1, "return ''")
            emit(ind, "%s = type('__NS', (), {})()" % s[1])
            emit(ind, "%s.%s = __nsdef_%s" % (s[1], s[2], s[2]))
            emit(ind, "__o(%r)" % nl)
        else:
            raise ValueError(k)

    nclos = [0]

    def func(name, sig, stmts, pre):
        emit(0, "def %s(%s):" % (name, sig))
        if enable_loop:
            emit(1, "__R = __RefLoopStack()")
            emit(1, "loop = __R.top()")
        for t in pre:
            emit(1, "__o(%r)" % t)
        body(stmts, 1)
        emit(1, "return ''")

    defs = prog.get("defs", ())
    for name, sig, b in defs:
        func(name, sig, b, [nl])
    pre = []
    if prog.get("page"):
        pre.append(nl)
    pre += [nl] * len(defs)
    func("__body", "", prog["body"], pre)
    return "\n".join(L) + "\n"


def _simple(expr):
    # a bare tuple ("1, 2") must be parenthesised to be passed as one argument;
    # done by a syntactic test on the parsed expression, not by looking at mako
    import ast

    try:
        node = ast.parse(expr, mode="eval").body
    except SyntaxError:
        return False
    return not isinstance(node, (ast.Tuple, ast.GeneratorExp)) or expr.lstrip().startswith("(")


# --------------------------------------------------------------------------
# reference runtime


class NoLoopContext(Exception):
    """`loop` was used where no `% for` of the current callable is active."""


class _NoLoop:
    def __getattr__(self, key):
        raise NoLoopContext(key)

    def __iter__(self):
        raise NoLoopContext("iter")


class RefLoop:
    """The loop context as documented (runtime.rst, 'The Loop Context'):
    index = 0-based count of the current iteration, first, last, even, odd,
    reverse_index = iterations remaining, cycle(*values), parent;
    last and reverse_index need len() of the iterable (TypeError otherwise)."""

    def __init__(self, iterable, parent):
        self._it = iterable
        self.parent = parent
        self.index = 0

    def __iter__(self):
        n = 0
        for item in self._it:
            self.index = n
            yield item
            n += 1

    @property
    def first(self):
        return self.index == 0

    @property
    def last(self):
        return self.index == len(self._it) - 1

    @property
    def even(self):
        return self.index % 2 == 0

    @property
    def odd(self):
        return self.index % 2 == 1

    @property
    def reverse_index(self):
        return len(self._it) - 1 - self.index

    def cycle(self, *values):
        if not values:
            raise ValueError("no values")
        return values[self.index % len(values)]


class RefLoopStack:
    def __init__(self):
        self.stack = []
        self.none = _NoLoop()

    def top(self):
        return self.stack[-1] if self.stack else self.none

    def enter(self, iterable):
        self.stack.append(RefLoop(iterable, self.stack[-1] if self.stack else None))
        return self.stack[-1]

    def exit(self):
        self.stack.pop()
        return self.top()


class RefUndefined:
    """A name found nowhere: false, and an error when rendered."""

    def __str__(self):
        raise NameError("Undefined")

    def __bool__(self):
        return False


class _Ctx:
    def __init__(self, write):
        self.write = write


def _names(code, acc):
    acc.update(code.co_names)
    for c in code.co_consts:
        if hasattr(c, "co_names"):
            _names(c, acc)


def run_reference(src, ctx):
    """Execute the reference module.  -> ("ok", text) | ("exc", type name, args repr)"""
    out = []
    g = dict(ctx)
    g["__o"] = out.append
    g["__RefLoopStack"] = RefLoopStack
    g["STOP_RENDERING"] = ""
    g["context"] = _Ctx(out.append)
    g["__cbstack"] = []  # pending call-with-content bodies (closures of the calling scope)
    code = compile(src, "<c03-reference>", "exec")
    used = set()
    _names(code, used)
    undef = RefUndefined()
    g["UNDEFINED"] = undef
    for n in used:
        if n not in g and not hasattr(builtins, n):
            g[n] = undef
    exec(code, g)
    try:
        g["__body"]()
    except Exception as e:  # noqa
        return ("exc", type(e).__name__, repr(e.args))
    return ("ok", "".join(out))


# --------------------------------------------------------------------------
# enumeration of bodies by weight (family A)

T_ = "\x02T"  # placeholders resolved by `finish_program`
V_ = "\x01"  # the assigned variable: 'c' in the body, 'd' inside defs


def _compositions(total, parts):
    """all tuples of `parts` non-negative ints summing to total"""
    if parts == 0:
        if total == 0:
            yield ()
        return
    if parts == 1:
        yield (total,)
        return
    for i in range(total + 1):
        for rest in _compositions(total - i, parts - 1):
            yield (i,) + rest


class Gen:
    """Memoised generator of all bodies of an exact weight.

    weight: every statement 1; every extra arm (elif / else / except) 1; a def
    called from the body 1 + its own body.  depth: nesting of compound
    statements (a def body continues the depth of its call site).
    """

    def __init__(self, max_depth, alphabet):
        self.max_depth = max_depth
        self.al = alphabet
        self.memo_b = {}
        self.memo_s = {}

    # leaves --------------------------------------------------------------
    def leaves(self, in_for):
        a = self.al
        out = [("L", (("t", T_),)), ("C", "n")]
        if a["full"]:
            out += [
                ("L", (("e", a["tgt"] if in_for else a["var"]),)),
                ("L", (("e", V_),)),
                ("Py", (V_ + " = 1",), "inline"),
                ("Py", (V_ + " += 1",), "inline"),
            ]
        if a.get("skel"):
            return out
        out += [
            ("Py", ("return STOP_RENDERING",), "inline"),
            ("Py", ("raise ValueError('v')",), "inline"),
        ]
        if in_for:
            out.append(("Py", ("break",), "inline"))
            if a["full"]:
                out.append(("Py", ("continue",), "inline"))
        return out

    def bodies(self, w, depth, in_for):
        """all bodies of total weight w (tuple of statements)"""
        key = (w, depth, in_for)
        r = self.memo_b.get(key)
        if r is not None:
            return r
        res = []
        if w == 0:
            res.append(())
        else:
            # first statement of weight k, rest of weight w-k
            for k in range(1, w + 1):
                firsts = self.stmts(k, depth, in_for)
                if not firsts:
                    continue
                rests = self.bodies(w - k, depth, in_for)
                for f in firsts:
                    for r_ in rests:
                        res.append((f,) + r_)
        self.memo_b[key] = res
        return res

    def iter_top(self, w):
        """the bodies of weight w at depth 0, lazily (the top layer is not stored)"""
        if w == 0:
            yield ()
            return
        for k in range(1, w + 1):
            firsts = self.stmts(k, 0, False)
            if not firsts:
                continue
            rests = self.bodies(w - k, 0, False)
            for f in firsts:
                for r_ in rests:
                    yield (f,) + r_

    def stmts(self, w, depth, in_for):
        key = (w, depth, in_for)
        r = self.memo_s.get(key)
        if r is not None:
            return r
        a = self.al
        res = []
        if w == 1:
            res.extend(self.leaves(in_for))
        if depth < self.max_depth and w >= 1:
            d = depth + 1
            inner = w - 1
            # If: n arms (1..3), optional else
            for narms in (1, 2, 3):
                for has_else in (0, 1):
                    extra = (narms - 1) + has_else
                    left = inner - extra
                    if left < 0:
                        continue
                    nb = narms + has_else
                    for comp in _compositions(left, nb):
                        for conds in _cond_vectors(narms, a):
                            lists = [self.bodies(x, d, in_for) for x in comp]
                            for combo in _product(lists):
                                arms = tuple((conds[i], combo[i]) for i in range(narms))
                                els = combo[narms] if has_else else None
                                res.append(("If", arms, els))
            # For over a two-item list, optional else
            for has_else in (0, 1):
                left = inner - has_else
                if left < 0:
                    continue
                for comp in _compositions(left, 1 + has_else):
                    lists = [self.bodies(comp[0], d, True)]
                    if has_else:
                        lists.append(self.bodies(comp[1], d, in_for))
                    for combo in _product(lists):
                        res.append(("For", a["tgt"], a["iter"], combo[0], combo[1] if has_else else None, None))
            # While with a counter (two iterations); the counter is per depth
            wv = "w%d" % d
            for b in self.bodies(inner, d, False) if "while" not in a.get("without", ()) else ():
                res.append(("__While", wv, b))
            # Try with 1..2 handlers
            for hs in a["handlers"]:
                left = inner - len(hs)
                if left < 0:
                    continue
                for comp in _compositions(left, 1 + len(hs)):
                    lists = [self.bodies(x, d, in_for) for x in comp]
                    for combo in _product(lists):
                        res.append(("Try", combo[0], tuple((hs[i], combo[1 + i]) for i in range(len(hs)))))
            # With
            for b in self.bodies(inner, d, in_for):
                res.append(("With", "cm(context, 'm') as v", b))
            # call of a def whose body comes from the same grammar
            for b in self.bodies(inner, d, False) if "call" not in a.get("without", ()) else ():
                res.append(("__Call", b))
        self.memo_s[key] = res
        return res


def _cond_vectors(n, a):
    t, f = a["true"], a["false"]
    if a.get("skel"):
        return [(f,) * (n - 1) + (t,)]
    if n == 1:
        return [(t,), (f,)]
    if n == 2:
        return [(t, f), (f, t), (f, f)] if a["full"] else [(f, t), (f, f)]
    return [(f, f, t), (f, t, f), (f, f, f)] if a["full"] else [(f, f, t)]


def _product(lists):
    if not lists:
        yield ()
        return
    if len(lists) == 1:
        for x in lists[0]:
            yield (x,)
        return
    for x in lists[0]:
        for rest in _product(lists[1:]):
            yield (x,) + rest


def finish_program(body, texts):
    """Resolve the generator's placeholders: number the text lines in document
    order (so that any reordering or duplication shows), expand __While into
    counter blocks, hoist __Call bodies into defs f0, f1, ..."""
    defs = []
    tn = [0]

    def text():
        t = texts[tn[0] % len(texts)] + (str(tn[0] // len(texts)) if tn[0] >= len(texts) else "")
        tn[0] += 1
        return t

    def conv_body(stmts, var):
        out = []
        for s in stmts:
            k = s[0]
            if k == "L":
                out.append(
                    ("L", tuple(("t", text()) if (kind == "t" and v == T_) else (kind, v.replace(V_, var)) for kind, v in s[1]))
                )
            elif k == "If":
                arms = tuple((c, conv_body(b, var)) for c, b in s[1])
                out.append(("If", arms, conv_body(s[2], var) if s[2] is not None else None))
            elif k == "For":
                b = conv_body(s[3], var)
                out.append(("For", s[1], s[2], b, conv_body(s[4], var) if s[4] is not None else None, s[5]))
            elif k == "__While":
                wv = s[1]
                out.append(("Py", (wv + " = 0",), "inline"))
                out.append(("While", wv + " < 2", conv_body(s[2], var) + (("Py", (wv + " += 1",), "inline"),)))
            elif k == "While":
                out.append(("While", s[1], conv_body(s[2], var)))
            elif k == "Try":
                b = conv_body(s[1], var)
                out.append(("Try", b, tuple((sp, conv_body(hb, var)) for sp, hb in s[2])))
            elif k == "With":
                out.append(("With", s[1], conv_body(s[2], var)))
            elif k == "__Call":
                name = "f%d" % len(defs)
                defs.append(None)
                idx = len(defs) - 1
                out.append(("L", (("e", name + "()"),)))
                defs[idx] = (name, "", conv_body(s[1], "d"))
            elif k == "Py":
                out.append(("Py", tuple(l.replace(V_, var) for l in s[1]), s[2]))
            else:
                out.append(s)
        return tuple(out)

    b = conv_body(body, "c")
    return {"defs": tuple(defs), "body": b, "page": None}


def kinds(prog):
    """construct kinds occurring in a program, and the maximal nesting depth"""
    ks = set()
    md = [0]

    def body(stmts, d):
        for s in stmts:
            k = s[0]
            if k == "L":
                ks.add("expr" if any(p[0] == "e" for p in s[1]) else "text")
            elif k == "If":
                ks.add("if%d%s" % (len(s[1]), "+else" if s[2] is not None else ""))
                md[0] = max(md[0], d + 1)
                for _, b in s[1]:
                    body(b, d + 1)
                if s[2] is not None:
                    body(s[2], d + 1)
            elif k == "For":
                ks.add("for" + ("+else" if s[4] is not None else ""))
                md[0] = max(md[0], d + 1)
                body(s[3], d + 1)
                if s[4] is not None:
                    body(s[4], d + 1)
            elif k == "While":
                ks.add("while")
                md[0] = max(md[0], d + 1)
                body(s[2], d + 1)
            elif k == "Try":
                ks.add("try%d" % len(s[2]))
                md[0] = max(md[0], d + 1)
                body(s[1], d + 1)
                for _, b in s[2]:
                    body(b, d + 1)
            elif k == "With":
                ks.add("with")
                md[0] = max(md[0], d + 1)
                body(s[2], d + 1)
            elif k == "Py":
                ks.add("py:" + s[1][0].split()[0] if len(s[1]) == 1 else "py:block")
            elif k == "C":
                ks.add("comment")
            elif k == "Doc":
                ks.add("doc")
            elif k == "Raw":
                ks.add("tag")
            elif k == "Block":
                ks.add("block")
                body(s[1], d + 1)
            elif k == "CallBody":
                ks.add("call-body")
                body(s[2], d + 1)
            elif k == "NDef":
                ks.add("nested-def")
                body(s[3], d + 1)
            elif k == "NsDef":
                ks.add("namespace-def")
                body(s[4], d + 1)

    for _, _, b in prog.get("defs", ()):
        ks.add("def")
        body(b, 1)
    body(prog["body"], 0)
    return ks, md[0]


def uses_loop(prog):
    import re

    pat = re.compile(r"\bloop\b")

    def body(stmts):
        for s in stmts:
            k = s[0]
            if k == "L":
                if any(p[0] == "e" and pat.search(p[1]) for p in s[1]):
                    return True
            elif k == "If":
                if any(pat.search(c) for c, _ in s[1]):
                    return True
                if any(body(b) for _, b in s[1]) or (s[2] is not None and body(s[2])):
                    return True
            elif k == "For":
                if pat.search(s[2]) or body(s[3]) or (s[4] is not None and body(s[4])):
                    return True
            elif k == "While":
                if pat.search(s[1]) or body(s[2]):
                    return True
            elif k == "Try":
                if body(s[1]) or any(body(b) for _, b in s[2]):
                    return True
            elif k == "With":
                if pat.search(s[1]) or body(s[2]):
                    return True
            elif k == "Py":
                if any(pat.search(l) for l in s[1]):
                    return True
            elif k == "Raw":
                if pat.search(s[1]):
                    return True
            elif k == "Block":
                if body(s[1]):
                    return True
            elif k == "CallBody":
                if pat.search(s[1]) or body(s[2]):
                    return True
            elif k == "NDef":
                if body(s[3]):
                    return True
            elif k == "NsDef":
                if body(s[4]):
                    return True
        return False

    return any(body(b) for _, _, b in prog.get("defs", ())) or body(prog["body"])


def to_json(x):
    if isinstance(x, tuple):
        return [to_json(v) for v in x]
    if isinstance(x, dict):
        return {k: to_json(v) for k, v in x.items()}
    return x


def from_json(x):
    if isinstance(x, list):
        return tuple(from_json(v) for v in x)
    if isinstance(x, dict):
        return {k: from_json(v) for k, v in x.items()}
    return x
