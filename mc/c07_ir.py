"""C07 helper: the multi-file template IR and its printer into Mako syntax.

A *program* is {"files": {path: File}, "main": uri, "ctx": {...}} where path is a
normalised absolute URI ("/d1/c.html").  Everything is plain dicts / lists /
tuples of JSON values.  The printer never emits a newline: every tag is on one
line, so the only characters that reach the output are those of Text
statements and of evaluated expressions.

File   = {"page": None | "a, b=2, **kw", "inherit": None | uri-spec,
          "ns": [Ns], "defs": [Def], "body": [Stmt]}
Ns     = {"name": str|None, "file": None | uri-spec, "module": None | dotted name,
          "imp": None | "f, g" | "*", "inheritable": bool, "inline": [Def]}
Def    = {"name": str, "params": "x, y=1", "body": [Stmt], "kind": "def" | "block"}
uri-spec = "literal"  |  ["var", name]  |  ["mix", name, "literal tail"]
Stmt   =
  ["text", s]
  ["var", name]                          ${name}
  ["call", name, args]                   ${name(args)}           bare (unqualified) call
  ["attr", "a.b", member, args]          ${a.b.member(args)}     qualified call
  ["uri", base]                          {U:${base.uri}}
  ["probe", name]                        {U:${getattr(name, 'uri', '-')}}
  ["include", uri-spec, args]            <%include file=".." args=".."/>
  ["include_file", base, uri, kwargs]    <% base.include_file('uri', kwargs) %>
  ["get_ns", base, uri, member, args]    ${base.get_namespace('uri').member(args)}
  ["get_tpl", base, uri]                 ${base.get_template('uri').render_unicode()}
  ["get_ns2", base, uri1, uri2, member]  ${base.get_namespace('uri1').get_namespace('uri2').member()}
  ["block", name, [Stmt]]                <%block name="..">..</%block>
  ["nscall", ns, member, {k: literal}, [Stmt]]   <%ns:member k="literal">..</%ns:member>
  ["callerbody"]                         ${caller.body()}
  ["ndef", Def]                          <%def name="..">..</%def> written inside a def (a closure)
  ["assign", name, literal]              <% name = literal %>      (template body only)
  ["kwitems", name]                      ${sorted(name.items())}
  ["ctxget", name]                       ${context.get('name', '-')}
`args` / `kwargs` are Python argument-list source made of literals only.
"""


def File(body=(), page=None, inherit=None, ns=(), defs=()):
    return {"page": page, "inherit": inherit, "ns": list(ns), "defs": list(defs), "body": list(body)}


def Ns(name=None, file=None, module=None, imp=None, inheritable=False, inline=()):
    return {"name": name, "file": file, "module": module, "imp": imp, "inheritable": inheritable, "inline": list(inline)}


def Def(name, params="", body=(), kind="def"):
    return {"name": name, "params": params, "body": list(body), "kind": kind}


def T(s):
    return ["text", s]


# --------------------------------------------------------------------------
# printer


def p_uri(u, in_namespace=False):
    if isinstance(u, str):
        return u
    if u[0] == "var":
        return "${context[%r]}" % u[1] if in_namespace else "${%s}" % u[1]
    if u[0] == "mix":
        return ("${context[%r]}" % u[1] if in_namespace else "${%s}" % u[1]) + u[2]
    raise ValueError(u)


def p_def(d):
    if d["kind"] == "block":
        return '<%%block name="%s">%s</%%block>' % (d["name"], p_stmts(d["body"]))
    return '<%%def name="%s(%s)">%s</%%def>' % (d["name"], d["params"], p_stmts(d["body"]))


def p_ns(n):
    a = []
    if n["name"] is not None:
        a.append('name="%s"' % n["name"])
    if n["file"] is not None:
        a.append('file="%s"' % p_uri(n["file"], True))
    if n["module"] is not None:
        a.append('module="%s"' % n["module"])
    if n["imp"] is not None:
        a.append('import="%s"' % n["imp"])
    if n["inheritable"]:
        a.append('inheritable="True"')
    head = "<%namespace " + " ".join(a)
    if n["inline"]:
        return head + ">" + "".join(p_def(d) for d in n["inline"]) + "</%namespace>"
    return head + "/>"


def p_stmt(s):
    k = s[0]
    if k == "text":
        return s[1]
    if k == "var":
        return "${%s}" % s[1]
    if k == "call":
        return "${%s(%s)}" % (s[1], s[2])
    if k == "attr":
        return "${%s.%s(%s)}" % (s[1], s[2], s[3])
    if k == "uri":
        return "{U:${%s.uri}}" % s[1]
    if k == "probe":
        return "{U:${getattr(%s, 'uri', '-')}}" % s[1]
    if k == "include":
        if s[2]:
            return '<%%include file="%s" args="%s"/>' % (p_uri(s[1]), s[2])
        return '<%%include file="%s"/>' % p_uri(s[1])
    if k == "include_file":
        return "<%% %s.include_file(%r%s) %%>" % (s[1], s[2], (", " + s[3]) if s[3] else "")
    if k == "get_ns":
        return "${%s.get_namespace(%r).%s(%s)}" % (s[1], s[2], s[3], s[4])
    if k == "get_ns2":
        return "${%s.get_namespace(%r).get_namespace(%r).%s()}" % (s[1], s[2], s[3], s[4])
    if k == "get_tpl":
        return "${%s.get_template(%r).render_unicode()}" % (s[1], s[2])
    if k == "block":
        return '<%%block name="%s">%s</%%block>' % (s[1], p_stmts(s[2]))
    if k == "nscall":
        attrs = "".join(' %s="%s"' % (a, v) for a, v in sorted(s[3].items()))
        return "<%%%s:%s%s>%s</%%%s:%s>" % (s[1], s[2], attrs, p_stmts(s[4]), s[1], s[2])
    if k == "callerbody":
        return "${caller.body()}"
    if k == "ndef":
        return p_def(s[1])
    if k == "assign":
        return "<%% %s = %s %%>" % (s[1], s[2])
    if k == "kwitems":
        return "${sorted(%s.items())}" % s[1]
    if k == "ctxget":
        return "${context.get(%r, '-')}" % s[1]
    raise ValueError(s)


def p_stmts(stmts):
    return "".join(p_stmt(s) for s in stmts)


def p_file(f):
    out = []
    if f["page"] is not None:
        out.append('<%%page args="%s"/>' % f["page"])
    if f["inherit"] is not None:
        out.append('<%%inherit file="%s"/>' % p_uri(f["inherit"], True))
    for n in f["ns"]:
        out.append(p_ns(n))
    for d in f["defs"]:
        out.append(p_def(d))
    out.append(p_stmts(f["body"]))
    return "".join(out)


def print_program(files):
    """{path: File} -> {path: template text}"""
    return {p: p_file(f) for p, f in files.items()}
