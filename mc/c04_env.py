"""C04 helper: the objects a render context of a C04 program may contain.

Nothing here imports mako.  A context value of a corpus program is either a
JSON value or the string "@helper:<name>", which names a module-level object of
this module (so that another process can rebuild exactly the same context with
`build_ctx`).
"""

import contextlib

# suffix appended to every tag value; chosen by VERIF_SEED (interchangeable data)
SUFFIX_POOL = ["", "é", "ж", "\U0001d11e"]
# spelling of the variable under test (never a default-filter name, never a reserved name)
NAME_POOL = ["nm", "va", "q7", "zed"]
# second variable (read-only / bound name of the statement family)
NAME2_POOL = ["rr", "wq", "k9", "yot"]
# builtins that are deterministic as a value and return a str when called with a 1-character string
BUILTIN_POOL = ["repr", "ascii", "format", "max"]


def _mk_tagger(tag):
    def tagger(s=""):
        return tag + ":" + str(s)

    tagger.__name__ = "tag_" + tag
    tagger.__qualname__ = "tag_" + tag
    return tagger


# callables that a context can hold in "call" style programs: tag_C0('r') == 'C:r' ...
tag_C0 = _mk_tagger("C" + SUFFIX_POOL[0])
tag_C1 = _mk_tagger("C" + SUFFIX_POOL[1])
tag_C2 = _mk_tagger("C" + SUFFIX_POOL[2])
tag_C3 = _mk_tagger("C" + SUFFIX_POOL[3])
tag_R0 = _mk_tagger("R" + SUFFIX_POOL[0])
tag_R1 = _mk_tagger("R" + SUFFIX_POOL[1])
tag_R2 = _mk_tagger("R" + SUFFIX_POOL[2])
tag_R3 = _mk_tagger("R" + SUFFIX_POOL[3])


def cm(v=None):
    """a context manager yielding v (for `with cm(r) as b:` statement forms)"""
    return contextlib.nullcontext(v)


class Boom(Exception):
    pass


def boom(v=None):
    raise Boom(v)


def ident(v):
    return v


class Base:
    """a base class supplied through the context (`class b(rbase): pass`)"""


def show(v):
    """address-free text of any value a statement form may bind (the same for mako's and the reference's UNDEFINED)"""
    import types

    if isinstance(v, str):
        return v
    if type(v).__name__ in ("Undefined", "RefUndefined"):
        return "U"
    if isinstance(v, type):
        return "class:" + v.__name__
    if isinstance(v, types.ModuleType):
        return "module:" + v.__name__
    if isinstance(v, BaseException):
        return "exc:" + type(v).__name__
    if isinstance(v, (list, tuple)):
        return type(v).__name__ + "(" + ",".join(show(i) for i in v) + ")"
    if callable(v):
        return "callable:" + getattr(v, "__name__", "?")
    return type(v).__name__ + ":" + repr(v)


def resolve(v):
    if isinstance(v, str) and v.startswith("@helper:"):
        return globals()[v[len("@helper:"):]]
    return v


def build_ctx(ctx):
    """{"name": json-or-"@helper:x"} -> the real keyword arguments for render()"""
    return {k: resolve(v) for k, v in ctx.items()}


class _Default:
    """an object handed to the template to be used as the explicit default of context.get(name, dfl)"""

    def __repr__(self):
        return "DEFAULT"


DEFAULT = _Default()


def tagf(p):
    """filter factory: ${'v' | tagf(a), tagf(b)} -> 'b(a(v))'"""
    return lambda s: p + "(" + s + ")"
