"""C02 helper: the bounded grammar of expression spellings (third grid).

Every generated text is a valid Python expression whose value is a str and in
which `|`, `}`, `{`, quotes, `#` and newlines occur only inside brackets or
string literals (a top-level `|` is by documentation the filter separator).
The expected value is eval() of the very same text: nothing here knows how
Mako scans.  Nothing here imports mako.

An item is (src, tags): tags name the constructs used (for signatures / spread).
"""

import itertools

CONTENT = ["}", "|", "{", "#", "'", '"', "\\", "a", ")", "]", "${", "\n"]
QUOTES = ["'", '"', "'''", '"""']


def lit(content, q, prefix=""):
    """source text of a string literal with the given content, or None if this style cannot spell it"""
    qc = q[0]
    triple = len(q) == 3
    out = []
    raw = "r" in prefix
    fmt = "f" in prefix
    n = len(content)
    for i, c in enumerate(content):
        if c == "\\":
            if raw:
                return None
            out.append("\\\\")
        elif c == "\n":
            if triple:
                out.append("\n")
            elif raw:
                return None
            else:
                out.append("\\n")
        elif c == qc:
            if triple and i != n - 1 and content[i + 1] != qc and (i == 0 or content[i - 1] != qc):
                out.append(c)  # a lone quote inside a triple-quoted literal needs no escape
            elif raw:
                return None
            else:
                out.append("\\" + c)
        elif fmt and c in "{}":
            out.append(c + c)
        else:
            out.append(c)
    body = "".join(out)
    if fmt:
        body += "{0}"
    src = prefix + q + body + q
    return src


def _contents(maxlen, alphabet=CONTENT):
    for n in range(1, maxlen + 1):
        for w in itertools.product(alphabet, repeat=n):
            yield "".join(w)


def atoms(maxlen):
    """all string-literal atoms with content of <= maxlen alphabet items, in every quote style (+ r / f prefixes)"""
    out = []
    seen = set()
    for c in _contents(maxlen):
        for q in QUOTES:
            for prefix in ("", "r", "f"):
                s = lit(c, q, prefix)
                if s is None or s in seen:
                    continue
                want = c + ("0" if prefix == "f" else "")
                try:
                    got = eval(s)
                except SyntaxError:
                    continue  # e.g. r'...' cases Python itself rejects
                if got != want:
                    continue
                seen.add(s)
                tags = ["str" + q + prefix]
                for ch, nm in (("}", "rbrace"), ("|", "pipe"), ("{", "lbrace"), ("#", "hash"), ("\\", "bslash"), ("\n", "nl")):
                    if ch in c:
                        tags.append("has-" + nm)
                if "'" in c or '"' in c:
                    tags.append("has-quote")
                out.append((s, tags))
    return out


def _pick(contents, quotes):
    out = []
    for c in contents:
        for q in quotes:
            s = lit(c, q)
            assert s is not None and eval(s) == c, (c, q)
            out.append((s, ["str" + q]))
    return out


def core1():
    return _pick(["}", "|", "{", "#", "'", '"', "|}", "}'", '"}', "#}"], ["'", '"']) + _pick(["}", "'}", '|"'], ["'''", '"""'])


def core2():
    return _pick(["}"], ["'"]) + _pick(["|", '#"'], ['"']) + _pick(["}'|"], ['"""'])


def core2s():
    return _pick(["'}"], ["'"]) + _pick(['#"|'], ['"'])


def core3():
    return _pick(["}"], ["'"]) + _pick(["|'"], ['"']) + _pick(['"}'], ["'''"])


COMPANIONS = ["'{|'", '"}"']
COMMENTS = ["}", "|", "it's }", 'say "', ")", "{ ["]


def wrappers():
    """(tag, function E -> src) - every wrapper keeps the value a str; specials stay inside brackets/strings"""
    W = []

    def add(tag, fmt, **kw):
        W.append((tag, fmt))

    add("paren", "(%(E)s)")
    add("list", "[%(E)s][0]")
    add("dict", "{0: %(E)s}[0]")
    add("dictkey", "list({%(E)s: 0})[0]")
    add("set", "{%(E)s}.pop()")
    add("call", "str(%(E)s)")
    add("lambda", "(lambda: %(E)s)()")
    add("listcomp", "[c for c in [%(E)s]][0]")
    add("dictcomp", "list({c: 0 for c in [%(E)s]})[0]")
    add("compif", "[c for c in [%(E)s] if c or 1 | 2][0]")
    add("bitor", "(1 | 2, %(E)s)[1]")
    add("bracekey", "{'k}': %(E)s}['k}']")
    add("percent", '"%%s|" %% (%(E)s,)')
    add("slice", "%(E)s[0:]")
    add("kwcall", "dict(a=%(E)s)['a']")
    add("method", "(%(E)s).replace('|}', \"}|\")")
    add("ternary-top", "%(E)s if True else '}'")
    add("nl-list", "[\n%(E)s\n][0]")
    add("nl-call", "str(\n  %(E)s\n)")
    for i, c2 in enumerate(COMPANIONS):
        add("tuple%d" % i, "(" + c2 + ", %(E)s)[1]")
        add("ternary%d" % i, "(%(E)s if 1 else " + c2 + ")")
        add("concat%d" % i, "(" + c2 + " + %(E)s)")
        add("concat-top%d" % i, "%(E)s + " + c2)
        add("nl-tuple%d" % i, "(" + c2 + ",\n %(E)s)[1]")
        add("crlf-tuple%d" % i, "(" + c2 + ",\r\n %(E)s)[1]")
    for i, c in enumerate(COMMENTS):
        add("comment%d" % i, "('|', # " + c + "\n %(E)s)[1]")
    add("comment-crlf", "('}', # }|'\r\n %(E)s)[1]")
    add("comment-first", "(# }\n %(E)s)")
    add("comment-nospace", "('|', #}|'\n %(E)s)[1]")
    return W


def wrap(items, W):
    for tag, fmt in W:
        for src, tags in items:
            yield fmt % {"E": src}, tags + [tag]


def dedupe(items):
    seen = set()
    out = []
    for s, t in items:
        if s not in seen:
            seen.add(s)
            out.append((s, t))
    return out


# filter parts (the text after the expression, up to the closing brace) with the filter list they denote
def spacing_suffixes():
    out = []
    for a in ("", " ", "  "):
        for b in ("", " ", "  "):
            out.append((a + "|" + b + "f1", ["f1"]))
            for c in ("", " ", "  "):
                for d in ("", " ", "  "):
                    out.append((a + "|" + b + "f1" + c + "," + d + "f2", ["f1", "f2"]))
    return out


SUFFIX4 = [
    ("", []),
    ("|f1", ["f1"]),
    (" | f1, h", ["f1", "h"]),
    ("  |  g('}|')  ,  ns.f1 ", ["g('}|')", "ns.f1"]),
]
SUFFIX2 = [("", []), (" | n, f2", ["n", "f2"])]

FARG_SUFFIXES = [
    (' | g("}")', ['g("}")']),
    (" | g('|')", ["g('|')"]),
    (" | g(\"'\")", ["g(\"'\")"]),
    (" | g('\"}')", ["g('\"}')"]),
    (" | g('a', \"|\")", ["g('a', \"|\")"]),
    (" | g(tag='}')", ["g(tag='}')"]),
    (" | ns.g('|}')", ["ns.g('|}')"]),
    (" | g(')')", ["g(')')"]),
    (" | g('(')", ["g('(')"]),
    (" | g('#')", ["g('#')"]),
    (" | g(','), f1", ["g(',')", "f1"]),
    (" | g('{'), g('}')", ["g('{')", "g('}')"]),
    (" | g('a',\n 'b')", ["g('a',\n 'b')"]),
    (" | g('a', # }\n 'b')", ["g('a', # }\n 'b')"]),
    (" | f1, g('|'), h, f2", ["f1", "g('|')", "h", "f2"]),
]

# PEP 701 (Python >= 3.12): a replacement field may reuse the quote of its f-string
PEP701 = [
    ("f'{'}'}'", ["pep701", "has-rbrace"]),
    ("f\"{\"|\"}\"", ["pep701", "has-pipe"]),
    ("f'{'a'}'", ["pep701"]),
    ("f\"{'}'}\"", ["fstring-other-quote", "has-rbrace"]),
    ("f'{\"|\"}'", ["fstring-other-quote", "has-pipe"]),
    ("f\"{ {'a': 1}['a'] }\"", ["fstring-other-quote"]),
    ("f\"{dict(k='}')[\"k\"]}\"", ["pep701", "has-rbrace"]),
    ("f'{', '.join(['|', '}'])}'", ["pep701", "has-rbrace", "has-pipe"]),
]

PREFIXES = ["", "$", "{", "}", "|", "#", "$$", "\\"]
POSTFIXES = ["", "}", "|", "{", "$", "${'x'}"]


def grids(tier):
    """-> list of (family, [(src, tags)], [(suffix, filters)])  - the complete bounded space of the tier"""
    W = wrappers()
    a2 = atoms(2)
    c1, c2, c3 = core1(), core2(), core3()
    d1 = dedupe(wrap(c1, W))
    d2 = dedupe(wrap(dedupe(wrap(core2s() if tier == "quick" else c2, W)), W))
    a1 = atoms(1)
    a1s = {x[0] for x in a1}
    out = [
        ("atoms", a1, SUFFIX4),
        ("atoms2", [x for x in a2 if x[0] not in a1s], SUFFIX2 if tier == "quick" else SUFFIX4),
        ("depth1", d1, SUFFIX2 if tier == "quick" else SUFFIX4),
        ("depth2", d2, SUFFIX2),
        ("spacing", c2 + dedupe(wrap(c3, W[:6])), spacing_suffixes()),
        ("fargs", c2 + [("v", [])], FARG_SUFFIXES),
        ("pep701", PEP701, SUFFIX2),
    ]
    if tier == "thorough":
        d2full = dedupe(wrap(d1, W))
        d3 = dedupe(wrap(dedupe(wrap(dedupe(wrap(c3[:2], W)), W)), W))
        out += [
            ("atoms3", [x for x in atoms(3) if x[0] not in {s for s, _ in a2} and x[0][0] not in "rf"], SUFFIX2),
            ("depth2-core1", d2full, [("", [])]),
            ("depth3", d3, [("", [])]),
        ]
    return out
