"""C19 helper: expression-tree generator over CPython's abstract grammar.

A *kind* is one node shape with zero or more child slots.  Trees are built as
real `ast` nodes; the source text comes from `ast.unparse` (trusted base) and is
validated with `compile(..., 'eval')`.

Kind = (label, feature, family, slots, build)
  label    unique name of the shape, e.g. "BinOp.Pow", "Lambda.kwonly-default"
  feature  the language feature the shape stands for (used in violation signatures)
  family   ast class name
  slots    list of neutral leaf names, one per child slot
  build    function(children:list[ast.expr]) -> ast.expr
"""

import ast

L = ast.Load()
ST = ast.Store()


def nm(i):
    return ast.Name(i, L)


def st(i):
    return ast.Name(i, ST)


def co(v):
    return ast.Constant(v)


def args(posonly=(), pos=(), vararg=None, kwonly=(), kw_defaults=(), kwarg=None, defaults=()):
    return ast.arguments(
        posonlyargs=[ast.arg(a) for a in posonly],
        args=[ast.arg(a) for a in pos],
        vararg=ast.arg(vararg) if vararg else None,
        kwonlyargs=[ast.arg(a) for a in kwonly],
        kw_defaults=list(kw_defaults),
        kwarg=ast.arg(kwarg) if kwarg else None,
        defaults=list(defaults),
    )


def tup(*names):
    return ast.Tuple([nm(n) for n in names], L)


def comp(target, it, ifs=()):
    return ast.comprehension(target=target, iter=it, ifs=list(ifs), is_async=0)


KINDS = []


def K(label, feature, family, slots, build):
    KINDS.append((label, feature, family, list(slots), build))


def _init():
    # ---- leaves
    K("Name", "Name", "Name", [], lambda c: nm("x"))
    K("Const.int", "Constant", "Constant", [], lambda c: co(7))
    K("Const.bigint", "Constant", "Constant", [], lambda c: co(10**20))
    K("Const.float", "Constant", "Constant", [], lambda c: co(1.5))
    K("Const.float-exp", "Constant", "Constant", [], lambda c: co(1e-07))
    K("Const.inf", "Constant.inf", "Constant", [], lambda c: co(float("inf")))
    K("Const.complex", "Constant", "Constant", [], lambda c: co(2j))
    K("Const.negint", "Constant.signed", "Constant", [], lambda c: ast.UnaryOp(ast.USub(), co(7)))
    K("Const.negfloat", "Constant.signed", "Constant", [], lambda c: ast.UnaryOp(ast.USub(), co(2.5)))
    K("Const.posint", "Constant.signed", "Constant", [], lambda c: ast.UnaryOp(ast.UAdd(), co(3)))
    K("Const.invint", "Constant.signed", "Constant", [], lambda c: ast.UnaryOp(ast.Invert(), co(3)))
    K("Const.str", "Constant", "Constant", [], lambda c: co("ab"))
    K("Const.str-esc-sq", "Constant", "Constant", [], lambda c: co("a'\n\\\té\U0001d11e#}|"))
    K("Const.str-esc-dq", "Constant", "Constant", [], lambda c: co('a"\n${'))
    K("Const.str-both", "Constant", "Constant", [], lambda c: co("a'\"%>"))
    K("Const.bytes", "Constant", "Constant", [], lambda c: co(b"a\x00\xff"))
    K("Const.True", "Constant", "Constant", [], lambda c: co(True))
    K("Const.None", "Constant", "Constant", [], lambda c: co(None))
    K("Const.Ellipsis", "Constant.Ellipsis", "Constant", [], lambda c: co(Ellipsis))
    K("Tuple.empty", "Tuple", "Tuple", [], lambda c: ast.Tuple([], L))
    K("List.empty", "List", "List", [], lambda c: ast.List([], L))
    K("Dict.empty", "Dict", "Dict", [], lambda c: ast.Dict([], []))
    K("JoinedStr.plain", "JoinedStr", "JoinedStr", [], lambda c: ast.JoinedStr([co("ab")]))
    K("Slice.empty", "Slice", "Subscript", [], lambda c: ast.Subscript(nm("l"), ast.Slice(), L))
    K("Subscript.neg", "Subscript", "Subscript", [], lambda c: ast.Subscript(nm("l"), ast.UnaryOp(ast.USub(), co(1)), L))
    K("Lambda.pos", "Lambda", "Lambda", [], lambda c: ast.Lambda(args(pos=["a", "b"]), tup("a", "b")))
    K("Lambda.posonly", "Lambda.posonly", "Lambda", [], lambda c: ast.Lambda(args(posonly=["a"], pos=["b"]), tup("a", "b")))
    K("Lambda.vararg", "Lambda.vararg", "Lambda", [], lambda c: ast.Lambda(args(vararg="a"), nm("a")))
    K("Lambda.pos-vararg", "Lambda.vararg", "Lambda", [], lambda c: ast.Lambda(args(pos=["a"], vararg="b"), tup("a", "b")))
    K("Lambda.kwonly", "Lambda.kwonly", "Lambda", [], lambda c: ast.Lambda(args(kwonly=["k"], kw_defaults=[None]), nm("k")))
    K("Lambda.kwarg", "Lambda.kwarg", "Lambda", [], lambda c: ast.Lambda(args(kwarg="kw"), nm("kw")))
    # ---- one node, child slots
    K("Attribute", "Attribute", "Attribute", ["x"], lambda c: ast.Attribute(c[0], "real", L))
    K("Subscript.value", "Subscript", "Subscript", ["l"], lambda c: ast.Subscript(c[0], co(1), L))
    K("Subscript.index", "Subscript", "Subscript", ["x"], lambda c: ast.Subscript(nm("gi"), c[0], L))
    K("Slice.lower", "Slice", "Subscript", ["x"], lambda c: ast.Subscript(nm("gi"), ast.Slice(c[0], None, None), L))
    K("Slice.upper", "Slice", "Subscript", ["x"], lambda c: ast.Subscript(nm("gi"), ast.Slice(None, c[0], None), L))
    K("Slice.step", "Slice", "Subscript", ["x"], lambda c: ast.Subscript(nm("gi"), ast.Slice(None, None, c[0]), L))
    K("Slice.full", "Slice", "Subscript", ["x", "y", "z"], lambda c: ast.Subscript(nm("gi"), ast.Slice(c[0], c[1], c[2]), L))
    K("Subscript.tuple", "Subscript.tuple", "Subscript", ["x"], lambda c: ast.Subscript(nm("gi"), ast.Tuple([c[0], nm("y")], L), L))
    K("Subscript.ext", "Subscript.extslice", "Subscript", ["x"],
      lambda c: ast.Subscript(nm("gi"), ast.Tuple([ast.Slice(co(1), co(2), None), c[0]], L), L))
    K("Subscript.ext2", "Subscript.extslice", "Subscript", ["x"],
      lambda c: ast.Subscript(nm("gi"), ast.Tuple([c[0], ast.Slice(None, None, co(3))], L), L))
    K("Subscript.star", "Subscript.star", "Subscript", ["l"],
      lambda c: ast.Subscript(nm("gi"), ast.Tuple([ast.Starred(c[0], L)], L), L))
    K("Call.func", "Call", "Call", ["f"], lambda c: ast.Call(c[0], [], []))
    K("Call.pos", "Call", "Call", ["x"], lambda c: ast.Call(nm("f"), [c[0]], []))
    K("Call.pos2", "Call", "Call", ["y"], lambda c: ast.Call(nm("f"), [nm("x"), c[0]], []))
    K("Call.kw", "Call.keyword", "Call", ["x"], lambda c: ast.Call(nm("f"), [], [ast.keyword("k", c[0])]))
    K("Call.kw2", "Call.keyword", "Call", ["y"], lambda c: ast.Call(nm("f"), [], [ast.keyword("k", nm("x")), ast.keyword("j", c[0])]))
    K("Call.star", "Call.star", "Call", ["l"], lambda c: ast.Call(nm("f"), [ast.Starred(c[0], L)], []))
    K("Call.star-pos", "Call.star", "Call", ["x"], lambda c: ast.Call(nm("f"), [ast.Starred(nm("l"), L), c[0]], []))
    K("Call.dstar", "Call.dstar", "Call", ["d"], lambda c: ast.Call(nm("f"), [], [ast.keyword(None, c[0])]))
    K("Call.mixed", "Call.dstar", "Call", ["y"],
      lambda c: ast.Call(nm("f"), [nm("x"), ast.Starred(nm("l"), L)], [ast.keyword("k", c[0]), ast.keyword(None, nm("d"))]))
    K("Call.genexp", "Call.genexp", "Call", ["l"],
      lambda c: ast.Call(nm("f"), [ast.GeneratorExp(nm("i"), [comp(st("i"), c[0])])], []))
    for op in ("Invert", "Not", "UAdd", "USub"):
        K("UnaryOp." + op, "UnaryOp." + op, "UnaryOp", ["x"], (lambda o: lambda c: ast.UnaryOp(getattr(ast, o)(), c[0]))(op))
    for op in ("Add", "Sub", "Mult", "Div", "FloorDiv", "Mod", "Pow", "LShift", "RShift", "BitOr", "BitXor", "BitAnd", "MatMult"):
        K("BinOp." + op, "BinOp." + op, "BinOp", ["x", "y"], (lambda o: lambda c: ast.BinOp(c[0], getattr(ast, o)(), c[1]))(op))
    for op in ("And", "Or"):
        K("BoolOp." + op, "BoolOp." + op, "BoolOp", ["x", "y"], (lambda o: lambda c: ast.BoolOp(getattr(ast, o)(), [c[0], c[1]]))(op))
    K("BoolOp.And3", "BoolOp.And", "BoolOp", ["y"], lambda c: ast.BoolOp(ast.And(), [nm("x"), c[0], nm("z")]))
    for op in ("Eq", "NotEq", "Lt", "LtE", "Gt", "GtE", "Is", "IsNot", "In", "NotIn"):
        right = "l" if op in ("In", "NotIn") else "y"
        K("Compare." + op, "Compare." + op, "Compare", ["x", right],
          (lambda o: lambda c: ast.Compare(c[0], [getattr(ast, o)()], [c[1]]))(op))
    K("Compare.chain", "Compare.chain", "Compare", ["y"], lambda c: ast.Compare(nm("x"), [ast.Lt(), ast.LtE()], [c[0], nm("z")]))
    K("Compare.chain3", "Compare.chain", "Compare", ["x"],
      lambda c: ast.Compare(c[0], [ast.NotEq(), ast.In(), ast.IsNot()], [nm("y"), nm("l"), co(None)]))
    K("IfExp", "IfExp", "IfExp", ["x", "y", "z"], lambda c: ast.IfExp(c[1], c[0], c[2]))
    K("Lambda.noargs", "Lambda", "Lambda", ["x"], lambda c: ast.Lambda(args(), c[0]))
    K("Lambda.pos-body", "Lambda", "Lambda", ["x"], lambda c: ast.Lambda(args(pos=["a"]), c[0]))
    K("Lambda.default", "Lambda.default", "Lambda", ["x"], lambda c: ast.Lambda(args(pos=["a", "b"], defaults=[c[0]]), tup("a", "b")))
    K("Lambda.kwonly-default", "Lambda.kwonly", "Lambda", ["x"], lambda c: ast.Lambda(args(kwonly=["k"], kw_defaults=[c[0]]), nm("k")))
    K("Lambda.vararg-kwonly", "Lambda.kwonly", "Lambda", ["x"],
      lambda c: ast.Lambda(args(vararg="a", kwonly=["k"], kw_defaults=[c[0]]), tup("a", "k")))
    K("Lambda.kwonly-default-first", "Lambda.kwonly", "Lambda", ["x"],
      lambda c: ast.Lambda(args(kwonly=["g", "h"], kw_defaults=[c[0], None]), tup("g", "h")))
    K("Lambda.kwonly-default-last", "Lambda.kwonly", "Lambda", ["x"],
      lambda c: ast.Lambda(args(kwonly=["g", "h"], kw_defaults=[None, c[0]]), tup("g", "h")))
    K("Lambda.kwonly-default-outer", "Lambda.kwonly", "Lambda", ["x", "y"],
      lambda c: ast.Lambda(args(kwonly=["g", "h", "k"], kw_defaults=[c[0], None, c[1]]), tup("g", "h", "k")))
    K("Lambda.kwonly-default-middle", "Lambda.kwonly", "Lambda", ["x"],
      lambda c: ast.Lambda(args(pos=["a", "b"], defaults=[co(1)], kwonly=["g", "h", "k"], kw_defaults=[None, c[0], None]), tup("a", "b", "g", "h", "k")))
    K("Lambda.all", "Lambda.kwonly", "Lambda", ["x", "y"],
      lambda c: ast.Lambda(
          args(posonly=["a"], pos=["b", "c"], vararg="e", kwonly=["g", "h"], kw_defaults=[None, c[1]], kwarg="kw", defaults=[c[0]]),
          tup("a", "b", "c", "e", "g", "h", "kw")))
    K("Tuple.1", "Tuple", "Tuple", ["x"], lambda c: ast.Tuple([c[0]], L))
    K("Tuple.2a", "Tuple", "Tuple", ["x"], lambda c: ast.Tuple([c[0], nm("y")], L))
    K("Tuple.2b", "Tuple", "Tuple", ["y"], lambda c: ast.Tuple([nm("z"), c[0]], L))
    K("List.1", "List", "List", ["x"], lambda c: ast.List([c[0]], L))
    K("List.2b", "List", "List", ["y"], lambda c: ast.List([nm("x"), c[0]], L))
    K("Set.1", "Set", "Set", ["x"], lambda c: ast.Set([c[0]]))
    K("Set.2b", "Set", "Set", ["y"], lambda c: ast.Set([nm("x"), c[0]]))
    K("Dict.key", "Dict", "Dict", ["x"], lambda c: ast.Dict([c[0]], [nm("y")]))
    K("Dict.value", "Dict", "Dict", ["y"], lambda c: ast.Dict([nm("s")], [c[0]]))
    K("Dict.2", "Dict", "Dict", ["z"], lambda c: ast.Dict([nm("x"), co("k")], [nm("y"), c[0]]))
    K("Dict.unpack", "Dict.unpack", "Dict", ["d"], lambda c: ast.Dict([None], [c[0]]))
    K("Dict.mixed", "Dict.unpack", "Dict", ["d"], lambda c: ast.Dict([co("a"), None], [nm("x"), c[0]]))
    K("Dict.unpack-first", "Dict.unpack", "Dict", ["x"], lambda c: ast.Dict([None, co("a")], [nm("d"), c[0]]))
    K("List.star", "Starred", "List", ["l"], lambda c: ast.List([ast.Starred(c[0], L)], L))
    K("List.pos-star", "Starred", "List", ["l"], lambda c: ast.List([nm("x"), ast.Starred(c[0], L)], L))
    K("Tuple.star", "Starred", "Tuple", ["l"], lambda c: ast.Tuple([ast.Starred(c[0], L)], L))
    K("Set.star", "Starred", "Set", ["l"], lambda c: ast.Set([ast.Starred(c[0], L)]))
    for fam, cls in (("ListComp", ast.ListComp), ("SetComp", ast.SetComp), ("GeneratorExp", ast.GeneratorExp)):
        K(fam + ".elt", fam, fam, ["x"], (lambda C: lambda c: C(c[0], [comp(st("i"), nm("l"))]))(cls))
        K(fam + ".iter", fam, fam, ["l"], (lambda C: lambda c: C(nm("i"), [comp(st("i"), c[0])]))(cls))
        K(fam + ".if", fam, fam, ["x"], (lambda C: lambda c: C(nm("i"), [comp(st("i"), nm("l"), [c[0]])]))(cls))
    K("ListComp.if2", "ListComp", "ListComp", ["x"], lambda c: ast.ListComp(nm("i"), [comp(st("i"), nm("l"), [nm("i"), c[0]])]))
    K("ListComp.for2", "ListComp", "ListComp", ["l"],
      lambda c: ast.ListComp(tup("i", "j"), [comp(st("i"), nm("l")), comp(st("j"), c[0])]))
    K("ListComp.for2if", "ListComp", "ListComp", ["x"],
      lambda c: ast.ListComp(nm("j"), [comp(st("i"), nm("l"), [c[0]]), comp(st("j"), nm("l"), [nm("j")])]))
    K("ListComp.tuple-target", "ListComp", "ListComp", ["pp"],
      lambda c: ast.ListComp(nm("a"), [comp(ast.Tuple([st("a"), st("b")], ST), c[0])]))
    K("DictComp.key", "DictComp", "DictComp", ["x"], lambda c: ast.DictComp(c[0], nm("i"), [comp(st("i"), nm("l"))]))
    K("DictComp.value", "DictComp", "DictComp", ["x"], lambda c: ast.DictComp(nm("i"), c[0], [comp(st("i"), nm("l"))]))
    K("DictComp.iter", "DictComp", "DictComp", ["l"], lambda c: ast.DictComp(nm("i"), nm("i"), [comp(st("i"), c[0])]))
    K("DictComp.if", "DictComp", "DictComp", ["x"], lambda c: ast.DictComp(nm("i"), nm("i"), [comp(st("i"), nm("l"), [c[0]])]))
    K("FString.value", "JoinedStr", "JoinedStr", ["x"], lambda c: ast.JoinedStr([ast.FormattedValue(c[0], -1, None)]))
    K("FString.conv-r", "JoinedStr", "JoinedStr", ["x"], lambda c: ast.JoinedStr([ast.FormattedValue(c[0], 114, None)]))
    K("FString.conv-s", "JoinedStr", "JoinedStr", ["x"], lambda c: ast.JoinedStr([ast.FormattedValue(c[0], 115, None)]))
    K("FString.conv-a", "JoinedStr", "JoinedStr", ["s"], lambda c: ast.JoinedStr([ast.FormattedValue(c[0], 97, None)]))
    K("FString.spec", "JoinedStr", "JoinedStr", ["x"],
      lambda c: ast.JoinedStr([ast.FormattedValue(c[0], -1, ast.JoinedStr([co(">5")]))]))
    K("FString.nested-spec", "JoinedStr", "JoinedStr", ["y"],
      lambda c: ast.JoinedStr([ast.FormattedValue(nm("x"), -1, ast.JoinedStr([ast.FormattedValue(c[0], -1, None)]))]))
    K("FString.text", "JoinedStr", "JoinedStr", ["x"],
      lambda c: ast.JoinedStr([co("a{"), ast.FormattedValue(c[0], -1, None), co("b"), ast.FormattedValue(nm("y"), 114, None)]))
    K("NamedExpr", "NamedExpr", "NamedExpr", ["x"], lambda c: ast.NamedExpr(st("w"), c[0]))


_init()
BY_LABEL = {k[0]: k for k in KINDS}

# the operator subset for the complete depth-3 layer (thorough)
OPERATOR_FAMILIES = ("BinOp", "UnaryOp", "BoolOp", "Compare", "IfExp", "Lambda", "Call", "Subscript")
# same-precedence twins left out of the two outer layers of the depth-3 enumeration (the innermost layer is complete)
D3_SKIP = {
    "BinOp.Add", "BinOp.FloorDiv", "BinOp.Mod", "BinOp.RShift", "BinOp.BitXor",
    "Compare.NotEq", "Compare.LtE", "Compare.Gt", "Compare.GtE", "Compare.Is", "Compare.NotIn", "Compare.chain3",
    "UnaryOp.UAdd", "Call.pos2", "Call.kw2", "Lambda.pos-body",
}
# one slot of a few kinds for the depth 4-5 single-child spines: (label, slot index)
SPINE = [
    ("UnaryOp.USub", 0), ("UnaryOp.Not", 0), ("BinOp.Sub", 1), ("BinOp.Mult", 0), ("Compare.Lt", 0),
    ("BoolOp.Or", 1), ("IfExp", 0), ("IfExp", 1), ("Lambda.noargs", 0), ("Call.func", 0),
    ("Subscript.value", 0), ("Attribute", 0),
]


def build(label, children=None):
    """children: None (all neutral leaves) or dict slot-index -> ast node"""
    k = BY_LABEL[label]
    ch = [nm(n) for n in k[3]]
    if children:
        for i, node in children.items():
            ch[i] = node
    return k[4](ch)


def source(node):
    """(text, reference dump) or None if CPython itself rejects the text"""
    try:
        text = ast.unparse(ast.fix_missing_locations(ast.Expression(node)))
        ref = ast.parse(text, mode="eval")
        compile(ref, "<c19>", "eval")
    except (SyntaxError, ValueError, TypeError, AttributeError):
        return None
    return text, ref.body


def depth1():
    for k in KINDS:
        yield (k[0],), build(k[0])


def depth2():
    for k1 in KINDS:
        for i in range(len(k1[3])):
            for k2 in KINDS:
                yield (k1[0], i, k2[0]), build(k1[0], {i: build(k2[0])})


# innermost layer of the depth-3 enumeration: one representative of every printing behaviour
D3_INNER = [
    "Name", "Const.int", "Const.str", "Const.inf", "Tuple.empty", "Attribute", "Subscript.value", "Subscript.index", "Slice.full",
    "Subscript.ext", "Subscript.star", "Call.func", "Call.pos", "Call.kw", "Call.star", "Call.dstar", "Call.genexp", "UnaryOp.USub", "UnaryOp.Not",
    "UnaryOp.Invert", "BinOp.Add", "BinOp.Sub", "BinOp.Mult", "BinOp.Pow", "BinOp.BitOr", "BinOp.MatMult", "BoolOp.And", "BoolOp.Or",
    "Compare.Lt", "Compare.In", "Compare.IsNot", "Compare.chain", "IfExp", "Lambda.noargs", "Lambda.pos", "Lambda.default",
    "Lambda.vararg-kwonly", "Lambda.posonly", "Tuple.1", "Tuple.2a", "List.1", "Set.1", "Dict.key", "Dict.unpack", "List.star", "Tuple.star",
    "ListComp.elt", "ListComp.if", "SetComp.elt", "GeneratorExp.elt", "DictComp.value", "FString.value", "FString.spec", "FString.text",
    "NamedExpr",
]


def d3_ops():
    return [k for k in KINDS if k[2] in OPERATOR_FAMILIES and k[3] and k[0] not in D3_SKIP]


def depth3():
    ops = d3_ops()
    for k1 in ops:
        for i in range(len(k1[3])):
            for k2 in ops:
                for j in range(len(k2[3])):
                    for l3 in D3_INNER:
                        yield (k1[0], i, k2[0], j, l3), build(k1[0], {i: build(k2[0], {j: build(l3)})})


def spines(n, alphabet=None):
    import itertools

    sp = alphabet or SPINE
    leaves = ["Name", "BinOp.Add", "IfExp", "Lambda.vararg"]
    for chain in itertools.product(sp, repeat=n):
        for leaf in leaves:
            node = build(leaf)
            for lab, slot in reversed(chain):
                node = build(lab, {slot: node})
            path = []
            for lab, slot in chain:
                path += [lab, slot]
            yield tuple(path + [leaf]), node
