"""A Python module used as a <%namespace module=...> by the C16 `module-ns` harness.  Its body passes scheduling
points, so that another thread can run while the module is only partly initialised (the import system keeps other
importers of the same module waiting until the body is done)."""

from mc import c16_cache as _cc

_cc._y("nsmod:top")


def greet(context, x):
    return "hello %s" % x


_cc._y("nsmod:after-greet")


def other(context):
    return "o"


_cc._y("nsmod:end")
