"""C07 helper: reference interpreter for the multi-file IR of mc/c07_ir.py.

Implements DESIGN.md Appendix A6 (namespaces, includes, URI resolution) on top
of the parts of A2/A3/A5 that C07 programs touch.  Shares no code with mako:
URIs are resolved by an explicit component stack, argument binding is done by
real Python functions built with exec (Python is the oracle for Python), module
namespaces call the real functions of mc.c07_nsmod with a context object of
this file.

render(files, main, ctx) returns the expected outcome:
    ("out", text)        the render must produce exactly this text (URIs inside {U:..} normalised)
    ("err", "lookup")    TemplateLookupException (and not its TopLevel subclass)
    ("err", "TypeError") that Python exception class (argument binding)
    ("err", "error")     some exception, class not fixed by the statement
    ("dontcare", why)    the statement does not fix the answer
"""

import builtins
import inspect


class Lookup(Exception):
    pass


class PyErr(Exception):
    def __init__(self, cls, why=""):
        Exception.__init__(self, cls, why)
        self.cls = cls
        self.why = why


class DontCare(Exception):
    pass


class _Undef:
    def __repr__(self):
        return "UNDEF"


UNDEF = _Undef()


# --------------------------------------------------------------------------
# URI resolution (A6): absolute -> itself, relative -> against the directory of the
# URI of the file the tag is written in; '.' and '..' are path navigation; leaving
# the root is unresolvable.


def resolve(uri, calling):
    if not isinstance(uri, str) or uri == "":
        raise DontCare("empty / non-string uri")
    if uri.startswith("/") or calling is None:
        comps = uri.split("/")
    else:
        comps = calling.split("/")[:-1] + uri.split("/")
    stack = []
    for c in comps:
        if c in ("", "."):
            continue
        if c == "..":
            if not stack:
                raise Lookup("leaves the lookup root: %r from %r" % (uri, calling))
            stack.pop()
        else:
            stack.append(c)
    return "/" + "/".join(stack)


def norm_uri_text(u):
    """normal form of a URI that mako printed (it keeps '..' and the caller's spelling)"""
    if u == "-":
        return u
    try:
        return resolve(u, None)
    except Lookup:
        return "<outside:%s>" % u


# --------------------------------------------------------------------------
# Python as the oracle for argument lists

_BIND = {}


def binder(sig):
    f = _BIND.get(sig)
    if f is None:
        ns = {}
        exec("def _b(%s):\n    return dict(locals())" % sig, ns)
        f = _BIND[sig] = ns["_b"]
    return f


def sig_names(sig):
    """(named parameters, name of **kw or None)"""
    named, varkw = [], None
    for p in inspect.signature(binder(sig)).parameters.values():
        if p.kind == p.VAR_KEYWORD:
            varkw = p.name
        elif p.kind == p.VAR_POSITIONAL:
            raise DontCare("*args in a signature")
        else:
            named.append(p.name)
    return named, varkw


def bind(sig, a, kw):
    try:
        return binder(sig)(*a, **kw)
    except TypeError as e:
        raise PyErr("TypeError", str(e))


def _capture(*a, **kw):
    return a, kw


def evalargs(src):
    if not src:
        return (), {}
    return eval("_c(%s)" % src, {"_c": _capture, "__builtins__": {}})


# --------------------------------------------------------------------------
# model objects


class RefCallable:
    """a def / block / body bound to the level it is written in"""

    def __init__(self, it, name, sig, body, level, inline=False, ctx=None, is_body=False, outer=None):
        self.it, self.name, self.sig, self.body, self.level, self.inline = it, name, sig, body, level, inline
        self.ctx, self.is_body, self.outer = ctx, is_body, outer

    def __call__(self, *a, **kw):
        it = self.it
        params = bind(self.sig, a, kw)
        env = Env(self.level, params, it.take_caller(), inline=self.inline, ctx=self.ctx, is_body=self.is_body, outer=self.outer)
        it.run(self.body, env)
        return ""


class ModCallable:
    def __init__(self, it, fn, needs_caller, ctx):
        self.it, self.fn, self.needs_caller, self.ctx = it, fn, needs_caller, ctx

    def __call__(self, *a, **kw):
        it = self.it
        caller = it.take_caller()
        if not self.needs_caller and caller is not None:
            raise DontCare("call-with-content on a function without supports_caller")
        return self.fn(RefContext(it, self.ctx, caller), *a, **kw)


class RefContext:
    """what a module-namespace function may use of its first argument"""

    def __init__(self, it, ctx, caller):
        self._it, self._ctx, self._caller = it, ctx, caller

    def write(self, s):
        self._it.out[-1].append(s)

    def get(self, k, default=None):
        if k in self._ctx:
            return self._ctx[k]
        return getattr(builtins, k, default)

    def __getitem__(self, k):
        if k == "caller":
            if self._caller is None:
                raise DontCare("caller used without a call-with-content")
            return self._caller
        if k in self._ctx:
            return self._ctx[k]
        return getattr(builtins, k)


class CallerFrame:
    def __init__(self, it, body, env):
        self._it, self._body, self._env = it, body, env

    def body(self, *a, **kw):
        # inside body, `caller` is the caller of the enclosing callable (A3)
        self._it.run(self._body, self._env)
        return ""


class Level:
    def __init__(self, chain, idx, path, f):
        self.chain, self.idx, self.path, self.file = chain, idx, path, f
        self.nss = {}
        self.imports = {}
        self.imports_error = None

    def view(self, which):
        ch = self.chain
        if self.special_dontcare:
            raise DontCare("self/local/parent/next inside a def written in a <%namespace> tag")
        if which == "self":
            return ch.view(0)
        if which == "local":
            return ch.view(self.idx)
        if which == "parent":
            return ch.view(self.idx + 1) if self.idx + 1 < len(ch.levels) else None
        if which == "next":
            return ch.view(self.idx - 1) if self.idx > 0 else None
        raise KeyError(which)

    special_dontcare = False

    def find_def(self, name, ctx=None):
        for d in self.file["defs"]:
            if d["name"] == name:
                return RefCallable(self.chain.it, name, d["params"] if d["kind"] == "def" else "**pageargs", d["body"], self, ctx=ctx)
        for b in toplevel_blocks(self.file["body"]):
            if b[1] == name:
                return RefCallable(self.chain.it, name, "**pageargs", b[2], self)
        return None

    def exports(self):
        return [d["name"] for d in self.file["defs"]] + [b[1] for b in toplevel_blocks(self.file["body"])]

    def body_callable(self):
        sig = self.file["page"]
        if sig is None:
            sig = "**pageargs"
        elif sig_names(sig)[1] is None:
            sig = sig + ", **pageargs"
        return RefCallable(self.chain.it, "body", sig, self.file["body"], self, is_body=True)


def toplevel_blocks(stmts):
    for s in stmts:
        if s[0] == "block":
            yield s
            for b in toplevel_blocks(s[2]):
                yield b


class View:
    """a namespace: the chain seen from level j toward the base (A5); a <%namespace file>
    is the view from level 0 of the file's own chain, with the inline defs in front (A6)"""

    def __init__(self, chain, j):
        self.chain, self.j = chain, j

    @property
    def path(self):
        return self.chain.levels[self.j].path

    def member(self, name):
        ch = self.chain
        if self.j == 0 and name in ch.inline:
            return ch.inline[name]
        for lv in ch.levels[self.j:]:
            if name == "body":
                return lv.body_callable()
            d = lv.find_def(name)
            if d is not None:
                return d
        if self.j == 0 and name in ch.inheritable:
            return ch.inheritable[name]
        raise PyErr("error", "no member %r" % name)

    def star(self):
        ch = self.chain
        out = {}
        lv = ch.levels[self.j]
        for n in lv.exports():
            out[n] = lv.find_def(n)
        if self.j == 0:
            out.update(ch.inline)  # defs written inside the tag take precedence (statement)
        return out


class InlineNs:
    """<%namespace name=..> with neither file nor module: only the defs written in the tag"""

    path = None

    def __init__(self, inline):
        self.inline = inline

    def member(self, name):
        if name in self.inline:
            return self.inline[name]
        raise PyErr("error", "no member %r" % name)

    def star(self):
        return dict(self.inline)


class ModNs:
    path = None

    def __init__(self, it, modname, inline, ctx):
        import importlib

        self.mod = importlib.import_module(modname)
        self.it, self.inline, self.ctx = it, inline, ctx

    def member(self, name):
        if name in self.inline:
            return self.inline[name]
        if name in self.mod.REF:
            fn, nc = self.mod.REF[name]
            return ModCallable(self.it, fn, nc, self.ctx)
        raise PyErr("error", "no member %r" % name)

    def star(self):
        out = {n: self.member(n) for n in self.mod.REF}
        out.update(self.inline)
        return out


class Chain:
    def __init__(self, it, path, ctx, inline_decl=None, decl_level=None):
        self.it, self.ctx = it, ctx
        self.levels = []
        self.inheritable = {}
        self.inline = {}
        self._views = {}
        p = path
        depth = 0
        while p is not None:
            f = it.getfile(p)
            lv = Level(self, len(self.levels), p, f)
            self.levels.append(lv)
            depth += 1
            if depth > 12:
                raise DontCare("inheritance cycle")
            if f["inherit"] is not None:
                it.hops += 1
                p = resolve(it.uri_value(f["inherit"], ctx), p)
            else:
                p = None
        if inline_decl:
            self.inline = make_inline(it, inline_decl, decl_level)
        # namespaces of the most-derived level first, then toward the base (order only matters
        # for which error surfaces; programs carry at most one fault)
        for lv in self.levels:
            setup_namespaces(it, lv)

    def view(self, j):
        v = self._views.get(j)
        if v is None:
            v = self._views[j] = View(self, j)
        return v


def make_inline(it, defs, decl_level):
    out = {}
    for d in defs:
        lv = InlineLevel(decl_level)
        out[d["name"]] = RefCallable(it, d["name"], d["params"] if d["kind"] == "def" else "**pageargs", d["body"], lv, inline=True)
    return out


class InlineLevel(Level):
    """environment of a def written inside a <%namespace> tag: the file it is written in
    (for URIs, module names) and the render context; self/local are not fixed by the statement"""

    special_dontcare = True

    def __init__(self, decl_level):
        Level.__init__(self, decl_level.chain, decl_level.idx, decl_level.path, decl_level.file)
        self.decl = decl_level


def setup_namespaces(it, lv):
    ctx = lv.chain.ctx
    it.nsdepth += 1
    if it.nsdepth > 12:
        raise DontCare("namespace cycle")
    try:
        for decl in lv.file["ns"]:
            if decl["file"] is not None:
                it.hops += 1
                target = resolve(it.uri_value(decl["file"], ctx), lv.path)
                ch = Chain(it, target, ctx, decl["inline"], lv)
                ns = ch.view(0)
            elif decl["module"] is not None:
                ns = ModNs(it, decl["module"], make_inline(it, decl["inline"], lv), ctx)
            else:
                ns = InlineNs(make_inline(it, decl["inline"], lv))
            if decl["name"] is not None:
                lv.nss[decl["name"]] = ns
            if decl["inheritable"] and decl["name"] is not None:
                lv.chain.inheritable[decl["name"]] = ns
            if decl["imp"] is not None:
                for ident in [x for x in decl["imp"].replace(" ", "").split(",")]:
                    if ident == "*":
                        for k, v in ns.star().items():
                            if k in lv.imports:
                                lv.imports[k] = AMBIGUOUS
                            else:
                                lv.imports[k] = v
                    else:
                        try:
                            v = ns.member(ident)
                        except PyErr as e:
                            lv.imports_error = e
                            continue
                        lv.imports[ident] = AMBIGUOUS if ident in lv.imports else v
    finally:
        it.nsdepth -= 1


AMBIGUOUS = object()  # the same name imported from two namespaces: order not fixed by the statement


class Env:
    """one running callable.  ctx = the context it sees: the render context of its chain, or (A2(6)) for a
    top-level def called by its bare name from the body, that context overlaid with the body's <%page>
    arguments and the current values of the body's <% %> assignments"""

    def __init__(self, level, params, caller, inline=False, ctx=None, is_body=False, outer=None):
        self.level, self.params, self.caller, self.inline = level, params, caller, inline
        self.outer = outer  # lexically enclosing callable of a nested def (A2(3))
        self.ctx = level.chain.ctx if ctx is None else ctx
        self.is_body = is_body


# --------------------------------------------------------------------------


class Interp:
    def __init__(self, files, strict=False):
        self.files = files
        self.strict = strict  # Template(strict_undefined=True): an unresolvable name is a NameError (A2(8))
        self.out = [[]]
        self.hops = 0  # template-to-template resolutions performed
        self.nsdepth = 0
        self.pending_caller = None
        self.depth = 0

    def getfile(self, path):
        f = self.files.get(path)
        if f is None:
            raise Lookup("no such template %r" % path)
        return f

    def uri_value(self, spec, ctx, env=None):
        if isinstance(spec, str):
            return spec
        name = spec[1]
        if env is not None:
            v = self.lookup(name, env)
        else:
            if name not in ctx:
                raise PyErr("error", "KeyError")
            v = ctx[name]
        if not isinstance(v, str):
            raise DontCare("non-string uri value")
        return v + (spec[2] if spec[0] == "mix" else "")

    def take_caller(self):
        c, self.pending_caller = self.pending_caller, None
        return c

    # -- names (A2, the part C07 uses) -------------------------------------
    def lookup(self, name, env):
        lv = env.level
        e = env
        while e is not None:
            if name in e.params:
                return e.params[name]
            e = e.outer
        if name in ("self", "local", "parent", "next"):
            v = lv.view(name)
            if v is not None:
                return v
        if name == "caller":
            if env.caller is None:
                raise DontCare("caller outside a call-with-content")
            return env.caller
        base = lv.decl if env.inline else lv
        for d in base.file["defs"]:
            if d["name"] == name:
                if env.inline:
                    raise DontCare("file-level def called from a def inside <%namespace>")
                if env.is_body:
                    overlay = dict(env.ctx)
                    overlay.update(env.params)  # <%page> arguments and the assignments made so far
                    return base.find_def(name, ctx=overlay)
                return base.find_def(name, ctx=env.ctx)
        if name in base.nss:
            return base.nss[name]
        if name in base.imports:
            if env.inline:
                raise DontCare("imported name used inside a def written in a <%namespace> tag")
            if base.imports[name] is AMBIGUOUS:
                raise DontCare("name imported from two namespaces")
            return base.imports[name]
        ctx = env.ctx
        if name in ctx:
            return ctx[name]
        if hasattr(builtins, name):
            return getattr(builtins, name)
        if self.strict:
            raise PyErr("NameError", "'%s' is not defined" % name)
        return UNDEF

    def entering(self, env):
        """a top-level callable of a file binds the file's imports on entry: a named import that
        does not exist fails there"""
        lv = env.level
        base = lv.decl if env.inline else lv
        if base.imports_error is not None and not env.inline:
            raise PyErr("error", "import of a missing member")
        if base.imports_error is not None:
            raise DontCare("inline def in a file with a failing import")

    def attr_path(self, path, env):
        parts = path.split(".")
        v = self.lookup(parts[0], env)
        for p in parts[1:]:
            v = self.getattr(v, p)
        return v

    def getattr(self, v, name):
        if v is UNDEF:
            raise PyErr("error", "attribute of UNDEFINED")
        if isinstance(v, (View, InlineNs, ModNs)):
            return v.member(name)
        raise DontCare("attribute of a non-namespace value")

    def call(self, fn, a, kw):
        if fn is UNDEF:
            raise PyErr("error", "call of UNDEFINED")
        if isinstance(fn, (View, InlineNs, ModNs)):
            raise PyErr("error", "namespace is not callable")
        self.depth += 1
        if self.depth > 40:
            raise DontCare("recursion")
        try:
            if isinstance(fn, (RefCallable, ModCallable)):
                return fn(*a, **kw)
            self.pending_caller = None
            try:
                return fn(*a, **kw)
            except TypeError as e:
                raise PyErr("TypeError", str(e))
        finally:
            self.depth -= 1

    def tostr(self, v):
        if v is UNDEF:
            raise PyErr("error", "str(UNDEFINED)")
        if isinstance(v, (View, InlineNs, ModNs, RefCallable, ModCallable, CallerFrame)):
            raise DontCare("printing a namespace / callable")
        return str(v)

    def w(self, s):
        self.out[-1].append(s)

    # -- statements ---------------------------------------------------------
    def run(self, stmts, env):
        self.entering(env)
        for s in stmts:
            if s[0] == "ndef":  # a def written inside this callable: a closure over it
                d = s[1]
                env.params[d["name"]] = RefCallable(self, d["name"], d["params"], d["body"], env.level, inline=env.inline, ctx=env.ctx, outer=env)
        for s in stmts:
            self.stmt(s, env)

    def stmt(self, s, env):
        k = s[0]
        if k == "text":
            self.w(s[1])
        elif k == "var":
            self.w(self.tostr(self.lookup(s[1], env)))
        elif k == "call":
            fn = self.lookup(s[1], env)
            a, kw = evalargs(s[2])
            self.pending_caller = None
            self.w(self.tostr(self.call(fn, a, kw)))
        elif k == "attr":
            fn = self.getattr(self.attr_path(s[1], env), s[2])
            a, kw = evalargs(s[3])
            self.pending_caller = None
            self.w(self.tostr(self.call(fn, a, kw)))
        elif k == "uri":
            v = self.lookup(s[1], env)
            if not isinstance(v, View):
                raise DontCare("uri of a non-template namespace")
            self.w("{U:%s}" % v.path)
        elif k == "probe":
            v = self.lookup(s[1], env)
            self.w("{U:%s}" % (v.path if isinstance(v, View) else "-"))
        elif k == "include":
            uri = self.uri_value(s[1], None, env)
            a, kw = evalargs(s[2])
            self.include(uri, env.level.path, env.ctx, a, kw)
        elif k == "include_file":
            v = self.lookup(s[1], env)
            if not isinstance(v, View):
                raise DontCare("include_file on a non-template namespace")
            a, kw = evalargs(s[3])
            if env.ctx is not env.level.chain.ctx:
                raise DontCare("include_file() inside a def that runs with the body's locals in its context")
            self.include(s[2], v.path, v.chain.ctx, a, kw)
        elif k == "get_ns":
            v = self.lookup(s[1], env)
            if not isinstance(v, View):
                raise DontCare("get_namespace on a non-template namespace")
            self.hops += 1
            target = resolve(s[2], v.path)
            ns = Chain(self, target, v.chain.ctx).view(0)
            fn = ns.member(s[3])
            a, kw = evalargs(s[4])
            self.pending_caller = None
            self.w(self.tostr(self.call(fn, a, kw)))
        elif k == "get_ns2":
            v = self.lookup(s[1], env)
            if not isinstance(v, View):
                raise DontCare("get_namespace on a non-template namespace")
            self.hops += 2
            # each get_namespace resolves against the template of the namespace it is called on
            ns1 = Chain(self, resolve(s[2], v.path), v.chain.ctx).view(0)
            ns2 = Chain(self, resolve(s[3], ns1.path), v.chain.ctx).view(0)
            fn = ns2.member(s[4])
            self.pending_caller = None
            self.w(self.tostr(self.call(fn, (), {})))
        elif k == "get_tpl":
            v = self.lookup(s[1], env)
            if not isinstance(v, View):
                raise DontCare("get_template on a non-template namespace")
            self.hops += 1
            target = resolve(s[2], v.path)
            self.getfile(target)
            # Template.render_unicode(): an independent render with an empty context
            self.out.append([])
            try:
                self.toplevel(target, {})
            finally:
                text = "".join(self.out.pop())
            self.w(text)
        elif k == "block":
            lv = env.level
            if env.inline or lv.special_dontcare:
                raise DontCare("block inside an inline def")
            par = lv.view("parent")
            if par is not None:
                try:
                    par.member(s[1])
                    return  # declared toward the base: rendered where the base places it
                except PyErr:
                    pass
            fn = lv.view("self").member(s[1])
            self.pending_caller = None
            self.call(fn, (), {})
        elif k == "nscall":
            ns = self.lookup(s[1], env)
            fn = self.getattr(ns, s[2])
            frame = CallerFrame(self, s[4], env)
            self.pending_caller = frame
            self.w(self.tostr(self.call(fn, (), dict(s[3]))))
        elif k == "callerbody":
            c = self.lookup("caller", env)
            self.pending_caller = None
            self.w(self.tostr(c.body()))
        elif k == "ndef":
            pass
        elif k == "assign":
            if not env.is_body:
                raise DontCare("assignment outside a template body")
            env.params[s[1]] = eval(s[2], {"__builtins__": {}})
        elif k == "kwitems":
            v = self.lookup(s[1], env)
            if not isinstance(v, dict):
                raise DontCare("items() of a non-dict")
            self.w(str(sorted(v.items())))
        elif k == "ctxget":
            ctx = env.ctx
            v = ctx[s[1]] if s[1] in ctx else getattr(builtins, s[1], "-")
            self.w(self.tostr(v))
        else:
            raise ValueError(s)

    # -- includes and renders ------------------------------------------------
    def include(self, uri, calling, ctx, a, kw):
        if a:
            raise DontCare("positional include args")
        self.hops += 1
        target = resolve(uri, calling)
        self.getfile(target)
        ch = Chain(self, target, ctx)  # fresh self/local, own inheritance, no parent/next of the includer
        base = ch.levels[-1]
        if len(ch.levels) > 1 and any(lv.file["page"] for lv in ch.levels):
            raise DontCare("include of an inheriting template with <%page args>")
        sig = base.file["page"] or ""
        named, varkw = sig_names(sig)
        extras = [k for k in kw if k not in named]
        if extras and varkw is None:
            raise DontCare("extra include args without ** in <%page>")
        if varkw is not None and varkw in ctx:
            raise DontCare("context variable named like the ** parameter")
        kw = dict(kw)
        for n in named:
            if n not in kw and n in ctx:  # args first, context second (statement)
                kw[n] = ctx[n]
        self.depth += 1
        if self.depth > 40:
            raise DontCare("recursion")
        try:
            self.pending_caller = None
            base.body_callable()(**kw)
        finally:
            self.depth -= 1

    def toplevel(self, path, ctx):
        ch = Chain(self, path, ctx)
        base = ch.levels[-1]
        if any(lv.file["page"] for lv in ch.levels):
            raise DontCare("<%page args> on a top-level render")
        self.pending_caller = None
        base.body_callable()()


def render(files, main, ctx, strict=False):
    """expected outcome of lookup.get_template(main).render_unicode(**ctx); also returns the interpreter"""
    it = Interp(files, strict)
    try:
        try:
            path = resolve(main, None)
            it.getfile(path)
        except Lookup:
            return ("dontcare", "main template itself missing"), it
        it.toplevel(path, dict(ctx))
        return ("out", "".join(it.out[0])), it
    except Lookup:
        return ("err", "lookup"), it
    except PyErr as e:
        return ("err", e.cls), it
    except DontCare as e:
        return ("dontcare", str(e)), it
