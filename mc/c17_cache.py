"""Recording dict cache backend for C17 (registered through mako.cache.register_plugin)."""

STORE = {}
LOG = []
PASS_CONTEXT = [False]


def __getattr__(name):
    if name != "RecCache":
        raise AttributeError(name)
    from mako.cache import CacheImpl

    class RecCache(CacheImpl):
        @property
        def pass_context(self):
            return PASS_CONTEXT[0]

        def get_or_create(self, key, creation_function, **kw):
            LOG.append(("get_or_create", self.cache.id, key, kw))
            k = (self.cache.id, key)
            if k not in STORE:
                STORE[k] = creation_function()
            return STORE[k]

        def set(self, key, value, **kw):
            LOG.append(("set", self.cache.id, key, kw))
            STORE[(self.cache.id, key)] = value

        def get(self, key, **kw):
            LOG.append(("get", self.cache.id, key, kw))
            return STORE.get((self.cache.id, key))

        def invalidate(self, key, **kw):
            LOG.append(("invalidate", self.cache.id, key, kw))
            STORE.pop((self.cache.id, key), None)

    globals()["RecCache"] = RecCache
    return RecCache
