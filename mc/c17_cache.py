"""Recording dict cache backend for C17 (registered through mako.cache.register_plugin)."""

STORE = {}
LOG = []
PASS_CONTEXT = [False]
CLOCK = [0.0]  # simulated clock shared with mako.codegen.time (set by the harness)


def __getattr__(name):
    if name != "RecCache":
        raise AttributeError(name)
    from mako.cache import CacheImpl

    class RecCache(CacheImpl):
        @property
        def pass_context(self):
            return PASS_CONTEXT[0]

        # entries older than the owning template's compilation (Cache.starttime) are stale: a recompiled
        # template under the same id starts clean, as the Cache documentation describes
        def _fresh(self, k):
            e = STORE.get(k)
            if e is not None and e[1] < self.cache.starttime:
                del STORE[k]
                return None
            return e

        def get_or_create(self, key, creation_function, **kw):
            LOG.append(("get_or_create", self.cache.id, key, kw))
            k = (self.cache.id, key)
            e = self._fresh(k)
            if e is None:
                e = STORE[k] = (creation_function(), CLOCK[0])
            return e[0]

        def set(self, key, value, **kw):
            LOG.append(("set", self.cache.id, key, kw))
            STORE[(self.cache.id, key)] = (value, CLOCK[0])

        def get(self, key, **kw):
            LOG.append(("get", self.cache.id, key, kw))
            e = self._fresh((self.cache.id, key))
            return e[0] if e else None

        def invalidate(self, key, **kw):
            LOG.append(("invalidate", self.cache.id, key, kw))
            STORE.pop((self.cache.id, key), None)

    globals()["RecCache"] = RecCache
    return RecCache
