"""C19 helper: the evaluation environment shared by the native reference run and
the rendered template, and the value canonicaliser N19.

Nothing here imports mako.  Generated template modules pull the module-level
part of the environment in with

    imports=["from mc import c19_env as __e19", "globals().update(__e19.MOD)"]

(MOD is set by the harness just before the Template is constructed).
"""

import contextlib
import itertools
import re
import types

# "<function render_body.<locals>.<lambda> at 0x7f...>" inside a string: the address and the enclosing function's name
# are not part of the value
_OBJ_REPR = re.compile(r"<([a-z][a-z ]*) (?:[\w<>]+\.)*([\w<>]+) at 0x[0-9a-fA-F]+>")

VALUE_POOLS = [
    {"x": 3, "y": 2, "z": 5, "s": "ab"},
    {"x": 4, "y": 3, "z": 7, "s": "cd"},
    {"x": 5, "y": 2, "z": 9, "s": "éf"},
    {"x": 6, "y": 5, "z": 4, "s": "g\U0001d11e"},
]

MOD = {}  # what a generated module copies into its globals at import time


class _GetItem:
    """gi[key] -> key (so that slices / extended slices are observable)."""

    def __getitem__(self, key):
        return key

    def __repr__(self):
        return "gi"


def _canon(v, d=0):
    if d > 5:
        return "<deep>"
    t = type(v)
    if t is str:
        return ("str", repr(_OBJ_REPR.sub(r"<\1 \2>", v)))
    if t in (int, float, complex, bytes, bool, type(None), type(Ellipsis)):
        return (t.__name__, repr(v))
    if t in (tuple, list):
        return (t.__name__, [_canon(i, d + 1) for i in v])
    if t in (set, frozenset):
        return (t.__name__, sorted(repr(_canon(i, d + 1)) for i in v))
    if t is dict:
        return ("dict", [(_canon(k, d + 1), _canon(w, d + 1)) for k, w in v.items()])
    if t is slice:
        return ("slice", _canon(v.start, d + 1), _canon(v.stop, d + 1), _canon(v.step, d + 1))
    if isinstance(v, types.GeneratorType):
        try:
            return ("gen", [_canon(i, d + 1) for i in itertools.islice(v, 20)])
        except Exception as e:  # noqa
            return ("gen-raises", type(e).__name__)
    if isinstance(v, types.FunctionType):
        c = v.__code__
        sig = (
            c.co_argcount,
            c.co_posonlyargcount,
            c.co_kwonlyargcount,
            c.co_flags & 0x0C,
            c.co_varnames[: c.co_argcount + c.co_kwonlyargcount + bin(c.co_flags & 0x0C).count("1")],
            _canon(v.__defaults__, d + 1),
            _canon(v.__kwdefaults__, d + 1),
        )
        probes = []
        if d < 2:
            for a, k in (((), {}), ((1,), {}), ((1, 2), {}), ((1, 2, 3), {}), ((), {"k": 7}), ((1,), {"g": 8}), ((1, 2), {"g": 8, "q": 9})):
                try:
                    probes.append(_canon(v(*a, **k), d + 2))
                except Exception as e:  # noqa
                    probes.append(("raises", type(e).__name__))
        return ("fn", sig, probes)
    if isinstance(v, types.ModuleType):
        return ("module", v.__name__)
    if isinstance(v, BaseException):
        return ("exc", type(v).__name__, _canon(v.args, d + 1))
    if isinstance(v, type):
        return ("type", v.__name__)
    if isinstance(v, _GetItem):
        return ("gi",)
    return ("obj", t.__name__)


def N19(v):
    """One-line, address-free, deterministic description of a value."""
    return repr(_canon(v))


def _f19(*a, **k):
    return (a, sorted(k.items()))


def G19(*a, **k):
    """filter factory: ${v | G19(args)} renders the canonical form of the arguments"""
    return lambda v: N19((a, sorted(k.items())))


def cm19(v=None):
    return contextlib.nullcontext(v)


def make_env(seed):
    p = VALUE_POOLS[seed % len(VALUE_POOLS)]
    x, y, z = p["x"], p["y"], p["z"]
    return {
        "x": x,
        "y": y,
        "z": z,
        "s": p["s"],
        "l": [1, y, x],
        "d": {"a": 1, "b": y},
        "t": (z, x),
        "pp": [(1, y)],
        "f": _f19,
        "gi": _GetItem(),
        "N19": N19,
        "G19": G19,
        "f19": _f19,
        "cm19": cm19,
    }
