"""C06 helper: a dict cache backend, registered through mako.cache.register_plugin under the name "c06dict".

Entries are keyed by (Cache.id, key), i.e. per template and section name, exactly what a backend is handed; the
harness empties STORE before every case, so nothing is carried from one case to the next.  The class is created
on first attribute access because mako must not be imported at module import time.
"""

STORE = {}
NAME = "c06dict"


def __getattr__(name):
    if name != "DictCache":
        raise AttributeError(name)
    from mako.cache import CacheImpl

    class DictCache(CacheImpl):
        pass_context = False

        def get_or_create(self, key, creation_function, **kw):
            k = (self.cache.id, key)
            if k not in STORE:
                STORE[k] = creation_function()
            return STORE[k]

        def set(self, key, value, **kw):
            STORE[(self.cache.id, key)] = value

        def get(self, key, **kw):
            return STORE.get((self.cache.id, key))

        def invalidate(self, key, **kw):
            STORE.pop((self.cache.id, key), None)

    globals()["DictCache"] = DictCache
    return DictCache


def register():
    from mako import cache

    cache.register_plugin(NAME, "mc.c06_cache", "DictCache")
