"""C19 helper: statement-block generator for the re-margining part.

A block is a list of statements; printing yields *physical lines*
(level, text, raw): `raw` lines lie inside a string literal (their leading
whitespace is content) and are emitted verbatim - no margin, no indentation;
all other lines get  margin + level*unit  in front.

The generator therefore holds the unindented original (margin '' = what is
exec'd natively) and every margined spelling of the same block.
"""

import itertools

# ---------------------------------------------------------------- string-literal forms
# name -> (pieces, comment, single_line_expr)
#   pieces[0] continues the code line, pieces[1:] are raw physical lines,
#   comment is appended after the statement text on the last line.
FORMS = [
    ("plain", ["'v'"], None),
    ("hash-in-string", ["'#'"], None),
    ("sq-in-dq", ['"\'"'], None),
    ("dq-in-sq", ["'\"'"], None),
    ("triple-dq-chars-in-sq-string", ["'\"\"\"'"], None),
    ("triple-sq-chars-in-dq-string", ['"\'\'\'"'], None),
    ("backslash-string", ["'\\\\'"], None),
    ("escaped-quote", ["'it\\'s'"], None),
    ("raw-string-backslash", ["r'\\''"], None),
    ("hash-then-triple-in-string", ['"#\'\'\'"'], None),
    ("fstring-braces", ["f'{n9!r:>4}{{}}#'"], None),
    ("empty-triple", ['""""""'], None),
    ("two-triples-one-line", ["'''a''' + \"\"\"b\"\"\""], None),
    ("four-quotes", ["''''x'''"], None),
    ("multiline-triple-dq", ['"""p %> }', "   q", '\tr"""'], None),  # with the closing tokens of <% %> and ${} inside
    ("multiline-triple-sq", ["'''p", "             q '''"], None),  # interior line indented deeper than any margin
    ("multiline-triple-split", ['"""', "        q", '""" + \'z\''], None),
    ("multiline-triple-with-hash", ['"""# p', "#q\"\"\""], None),
    ("multiline-triple-dq-containing-triple-sq", ['"""it\'s \'\'\'', '  x"""'], None),
    ("multiline-triple-containing-backslash-eol", ['"""p \\\\', '  q"""'], None),
    ("backslash-newline-inside-string", ["'ab %> }\\", "  cd'"], None),  # with the closing tokens of <% %> and ${} inside
    # an ordinary string continued by backslashes over 3 / 4 physical lines whose middle line(s) start with '#'
    # (string content, not comments); the last line starts with whitespace deeper than any margin / with a TAB
    ("backslash-continued-sq-string-3-lines-hash-line", ["'a\\", "# b\\", "             c'"], None),
    ("backslash-continued-dq-string-3-lines-hash-line", ['"a\\', "# b\\", '\t c"'], None),
    ("backslash-continued-sq-string-4-lines-hash-lines", ["'a\\", "# b\\", "#c\\", "             d'"], None),
    ("backslash-continued-dq-string-4-lines-hash-lines", ['"a\\', "# b\\", "  # c\\", '\t    d"'], None),
    ("comment-with-quotes", ["'v'"], "# it's \"q\""),
    ("comment-with-triple-sq", ["'v'"], "# '''"),
    ("comment-with-triple-dq", ["'v'"], '# """'),
    ("comment-ending-in-backslash", ["'v'"], "# c \\"),
    ("literal-tab-in-string", ["'x\ty'"], None),
]
# characters str.splitlines() breaks on but which are ordinary characters inside a Python string literal
SEP_CHARS = [("u2028", "\u2028"), ("u2029", "\u2029"), ("x85", "\x85"), ("x0c", "\x0c"), ("x0b", "\x0b"), ("x1c", "\x1c"),
             ("x1d", "\x1d"), ("x1e", "\x1e")]
_ALL_SEPS = "".join(ch + "    " + n for n, ch in SEP_CHARS)  # each followed by blanks a re-indenter would touch
FORMS += [
    ("raw-line-separator-characters-in-triple-quoted-string", ['"""a' + _ALL_SEPS + '"""'], None),
    ("raw-line-separator-characters-in-sq-string", ["'a" + _ALL_SEPS + "'"], None),
    ("raw-line-separator-characters-on-continuation-line-of-string", ["'ab\\", "   c" + _ALL_SEPS + "'"], None),
    # a lone CR *is* a line end for Python: inside a triple-quoted string it reads as a newline (the reference decides)
    ("lone-cr-in-triple-quoted-string", ['"""one\r    two"""'], None),
]
THOROUGH_ONLY_FORMS = set()
for _n, _ch in SEP_CHARS:
    for _name, _pieces in (
        ("raw-%s-in-triple-quoted-string" % _n, ['"""one' + _ch + '    two"""']),
        ("raw-%s-in-dq-string" % _n, ['"one' + _ch + '    two"']),
        ("raw-%s-on-continuation-line-of-string" % _n, ["'ab\\", "   c" + _ch + "    d'"]),
    ):
        FORMS.append((_name, _pieces, None))
        THOROUGH_ONLY_FORMS.add(_name)
FORM = {f[0]: f for f in FORMS}

# ---------------------------------------------------------------- statement kinds
SIMPLE = ["assign", "aug", "def", "import", "call", "call0", "bscont", "comment"]
# compound kind -> number of body positions
COMPOUND = {"if": 1, "ifelse": 2, "for": 1, "while": 1, "try": 3, "tryraise": 2, "with": 1}
# kinds with a literal hole
HOLE = {"assign", "aug", "def", "import", "call", "call0", "bscont", "if", "ifelse", "for", "with"}


def skeletons(n, d):
    """all blocks (tuples of statements) with <= n statements in total and nesting depth <= d.
    statement = (kind,) or (kind, bodypos, subblock)"""

    def stmts(budget, depth):
        # yields (statement, cost)
        for k in SIMPLE:
            yield (k,), 1
        if depth > 1:
            for k, nb in COMPOUND.items():
                for pos in range(nb):
                    for sub, c in blocks(budget - 1, depth - 1):
                        if sub:
                            yield (k, pos, sub), 1 + c

    def blocks(budget, depth):
        # yields (tuple of statements, cost); includes the empty block
        yield (), 0
        if budget <= 0:
            return
        for s, c in stmts(budget, depth):
            for rest, c2 in blocks(budget - c, depth):
                yield (s,) + rest, c + c2

    for b, c in blocks(n, d):
        if b:
            yield b


def count_holes(block):
    n = 0
    for s in block:
        if s[0] in HOLE:
            n += 1
        if len(s) > 1:
            n += count_holes(s[2])
    return n


class Printer:
    def __init__(self, forms):
        self.forms = list(forms)  # one form name per hole, pre-order
        self.hole = 0
        self.var = 0
        self.ctr = 0
        self.lines = []  # (level, text, raw)

    def v(self):
        self.var += 1
        return "v%d" % ((self.var - 1) % 3)

    def lit(self, level, head, tail=""):
        """emit head + literal + tail (+ comment); the literal may span raw lines"""
        name = self.forms[self.hole]
        self.hole += 1
        _, pieces, comment = FORM[name]
        if len(pieces) == 1:
            self.lines.append((level, head + pieces[0] + tail + ((" " + comment) if comment else ""), False))
            return
        self.lines.append((level, head + pieces[0], False))
        for p in pieces[1:-1]:
            self.lines.append((0, p, True))
        self.lines.append((0, pieces[-1] + tail + ((" " + comment) if comment else ""), True))

    def block(self, block, level):
        for s in block:
            self.stmt(s, level)

    def body(self, s, pos, level, lead=None):
        """body number `pos` of compound statement s: the enumerated sub-block or a plain filler"""
        if lead:
            self.lines.append((level, lead, False))
        if s[1] == pos:
            self.block(s[2], level)
        elif not lead:
            self.lines.append((level, "%s = 'e'" % self.v(), False))

    def stmt(self, s, level):
        k = s[0]
        A = self.lines.append
        if k == "assign":
            self.lit(level, "%s = " % self.v())
        elif k == "aug":
            self.lit(level, "%s += " % self.v())
        elif k == "def":
            self.ctr += 1
            g = "g%d" % self.ctr
            self.lit(level, "def %s(p=" % g, "):")
            A((level + 1, "return p + 'r'", False))
            A((level, "%s = %s()" % (self.v(), g), False))
        elif k == "import":
            A((level, "import os.path as q9", False))
            self.lit(level, "%s = q9.sep + " % self.v())
        elif k == "call":
            self.lit(level, "%s = f19(" % self.v(), ",")
            A((level + 2, "'k',", False))
            A((level + 1, ")", False))
        elif k == "call0":
            self.lit(level, "%s = f19(" % self.v(), ",")
            A((level, "'k'", False))
            A((level, ")", False))
        elif k == "comment":
            # a comment-only line may sit at any column: here one column to the right of the left edge, whatever the margin
            A((0, " # c19: it's a \"note\"", True))
            A((level, "%s = 'c'" % self.v(), False))
        elif k == "bscont":
            # the literal goes on the continuation line so that every form (incl. comments) is legal
            A((level, "%s = 'w' + \\" % self.v(), False))
            self.lit(level + 2, "")
        elif k == "if":
            self.lit(level, "if v0 != ", ":")
            self.body(s, 0, level + 1)
        elif k == "ifelse":
            self.lit(level, "if v0 == ", ":")
            self.body(s, 0, level + 1)
            A((level, "else:", False))
            self.body(s, 1, level + 1)
        elif k == "for":
            self.lit(level, "for it9 in (", ", 'k'):")
            self.body(s, 0, level + 1, lead="%s += it9" % self.v())
        elif k == "while":
            self.ctr += 1
            w = "w%d" % (self.ctr % 4)
            # the condition itself advances the counter: the loop ends even if the body is mis-indented away
            A((level, "while len(%s.append(0) or %s) < 3:" % (w, w), False))
            self.body(s, 0, level + 1, lead="%s = str(len(%s))" % (self.v(), w))
        elif k == "try":
            A((level, "try:", False))
            self.body(s, 0, level + 1)
            A((level, "except Exception:", False))
            self.body(s, 1, level + 1)
            A((level, "finally:", False))
            self.body(s, 2, level + 1)
        elif k == "tryraise":
            A((level, "try:", False))
            self.body(s, 0, level + 1)
            A((level + 1, "1/0", False))
            A((level, "except ZeroDivisionError:", False))
            self.body(s, 1, level + 1)
        elif k == "with":
            self.lit(level, "with cm19(", ") as m9:")
            self.body(s, 0, level + 1, lead="%s = m9" % self.v())
        else:
            raise AssertionError(k)


def physical_lines(block, forms):
    p = Printer(forms)
    p.block(block, 0)
    assert p.hole == len(forms), (block, forms)
    return p.lines


def render_lines(lines, margin, unit):
    out = []
    for level, text, raw in lines:
        out.append(text if raw else margin + unit * level + text)
    return out


PREAMBLE = "v0 = ''; v1 = ''; v2 = ''; w0 = []; w1 = []; w2 = []; w3 = []; n9 = 5"
OBSERVE = "N19((v0, v1, v2))"

MARGINS = [" " * i for i in range(13)] + ["\t", "\t    "]


def margin_class(m):
    if m == "":
        return "none"
    if "\t" in m:
        return "tab" if m == "\t" else "tab+spaces"
    return "spaces"


def template_for(lines, margin, unit, first_same, eol, pos):
    """the Mako spelling of the block.  pos: body | module | ctl | def"""
    body = render_lines(lines, margin, unit)
    opener = "<%!" if pos == "module" else "<%"
    pre = ("<%! " if pos == "module" else "<% ") + PREAMBLE + " %>" + eol
    if first_same:
        code = opener + body[0] + eol + eol.join(body[1:]) + (eol if len(body) > 1 else "") + "%>"
    else:
        code = opener + eol + eol.join(body) + eol + "%>"
    obs = "[[${" + OBSERVE + "}]]"
    if pos == "body":
        # template text with an odd number of each quote character around and after the observation: a scanner that
        # lost track of a string literal inside the block runs on into this text
        return pre + code + eol + '<i title="' + obs + "\">it's</i> ${'\"'}" + eol
    if pos == "module":
        return pre + code + eol + obs + eol
    if pos == "ctl":
        return pre + "% if True:" + eol + "% for q9 in (1,):" + eol + code + eol + obs + eol + "% endfor" + eol + "% endif" + eol
    if pos == "def":
        return '<%def name="d19()">' + pre + code + eol + obs + " it's</%def>${d19()}" + eol
    raise AssertionError(pos)


def native_source(lines):
    return "\n".join(render_lines(lines, "", "    "))
