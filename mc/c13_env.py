"""C13 helper: the names a generated template uses (probes, probing filter and
decorator, observers, handlers) and the dict cache backend.

Nothing here imports mako at module import time.  A template gets the names with

    Template(text, imports=IMPORTS, cache_impl=CACHE_IMPL, ...)

Crash points.  The render argument `T` is a *list* of probe numbers that are
still armed.  `P(i, T)` does nothing and returns '' unless `i in T`; then it
disarms i (one raise per armed probe and render) and raises `Boom(i)`; with
`-i in T` it raises `BoomBase(i)`, a BaseException that no `except Exception`
(and no `% except Boom`) may catch.  The
object raised is appended to RAISED so that the harness can check identity.

Decorator protocol: the one documented in doc/build/filtering.rst
("Decorating"): DEC(i, j)(fn) returns wrapper(context, *args, **kw); the
wrapper writes to `context`, calls fn(*args, **kw) (no context) and returns
its result.  Probe i sits before the call of fn, probe j after it.
"""

IMPORTS = [
    "from mc.c13_env import P, PF, PI, DEC, CB, LO, SCF, Boom",
    "import mc.c13_env as _c13_env; _c13_env.register()",
]
CACHE_IMPL = "c13dict"

RAISED = []  # Boom objects raised by probes, in order (cleared by the harness)


class Boom(Exception):
    pass


class BoomBase(BaseException):
    """second raise kind: a BaseException that is not an Exception (an abort signal like SystemExit / KeyboardInterrupt)
    whose constructor needs its arguments; armed by the NEGATIVE probe number in T"""

    def __init__(self, i, msg):
        BaseException.__init__(self, i, msg)


def _fire(i, T):
    if not T:
        return
    if i in T:
        T.remove(i)
        e = Boom(i, "kaboom#%d" % i)
    elif -i in T:
        T.remove(-i)
        e = BoomBase(i, "kaboom#%d" % i)
    else:
        return
    RAISED.append(e)
    raise e


def P(i, T):
    """statement / argument probe: ${P(i, T)}"""
    _fire(i, T)
    return ""


def PI(i, T, n):
    """probe in the iterable expression of a % for: % for v in PI(i, T, n):"""
    _fire(i, T)
    return range(n)


def PF(i, T):
    """probing filter: filter="PF(i, T)"; tags the whole string it receives"""

    def flt(s):
        _fire(i, T)
        return "{" + s + "}"

    return flt


def DEC(i, j):
    """probing decorator: decorator="DEC(i, j)" (evaluated at module level for top-level defs,
    hence the armed list is read from the context at call time)"""

    def deco(fn):
        def wrapper(context, *args, **kw):
            T = context.get("T")
            context.write("<d>")
            _fire(i, T)
            r = fn(*args, **kw)
            context.write("</d>")
            _fire(j, T)
            return r

        return wrapper

    return deco


def CB(caller):
    """observer of `caller`: renders the caller's body, or says that there is none"""
    try:
        body = caller.body
    except AttributeError:
        return "[nocaller]"
    body()
    return ""


def _scf(context, x, i):
    context.write("<p>")
    _fire(i, context.get("T"))
    context["caller"].body()
    context.write("</p>")
    return ""


_scf_wrapped = [None, None]


def SCF(context, x, i):
    """a plain Python function made callable with content by mako.runtime.supports_caller (doc: namespaces, "python modules");
    <%call expr="SCF(context, A, i)">: writes <p>, probe i, caller.body(), </p>"""
    import mako.runtime as rt

    if _scf_wrapped[0] is not rt:
        _scf_wrapped[0] = rt
        _scf_wrapped[1] = rt.supports_caller(_scf)
    return _scf_wrapped[1](context, x, i)


def LO(loop):
    """observer of `loop`: index and number of enclosing loop contexts"""
    d = 0
    p = loop.parent
    while p is not None:
        d += 1
        p = p.parent
    return "[%d.%d]" % (loop.index, d)


def EH(context, error):
    """error_handler returning True; what it writes must land in the outermost buffer"""
    context.write("[EH]")
    return True


def IEH(context, error):
    """include_error_handler returning True"""
    context.write("[IEH]")
    return True


def EHF(context, error):
    """error_handler returning False: the exception is not handled"""
    return False


def IEHF(context, error):
    """include_error_handler returning False: the exception is not handled"""
    return False


class DictCache:
    """dict cache backend (duck-typed CacheImpl); one store per Cache, i.e. per Template"""

    pass_context = False

    def __init__(self, cache):
        self.cache = cache
        self.store = {}

    def get_or_create(self, key, creation_function, **kw):
        if key not in self.store:
            self.store[key] = creation_function()
        return self.store[key]

    def set(self, key, value, **kw):
        self.store[key] = value

    def get(self, key, **kw):
        return self.store.get(key)

    def invalidate(self, key, **kw):
        self.store.pop(key, None)


_registered_for = [None]


def register():
    """make cache_impl='c13dict' known to the mako that is currently imported"""
    import mako.cache as mc

    if _registered_for[0] is not mc:
        mc.register_plugin(CACHE_IMPL, "mc.c13_env", "DictCache")
        _registered_for[0] = mc


def helper(name):
    return globals()[name]
