"""C13 helper: the names a generated template uses (probes, probing filter and
decorator, observers, handlers) and the dict cache backend.

Nothing here imports mako at module import time.  A template gets the names with

    Template(text, imports=IMPORTS, cache_impl=CACHE_IMPL, ...)

Crash points.  The render argument `T` is a *list* of probe numbers that are
still armed.  `P(i, T)` does nothing and returns '' unless `i in T`; then it
disarms i (one raise per armed probe and render) and raises `Boom(i)`; with
`-i in T` it raises `BoomBase(i)`, a BaseException that no `except Exception`
(and no `% except Boom`) may catch.  The
object raised is appended to RAISED so that the harness can check identity.

Decorator protocol: the one documented in doc/build/filtering.rst
("Decorating"): DEC(i, j)(fn) returns wrapper(context, *args, **kw); the
wrapper writes to `context`, calls fn(*args, **kw) (no context) and returns
its result.  Probe i sits before the call of fn, probe j after it.
"""

IMPORTS = [
    "from mc.c13_env import P, PF, PI, DEC, CB, LO, SCF, RR, Boom",
    "import mc.c13_env as _c13_env; _c13_env.register()",
]
CACHE_IMPL = "c13dict"

RAISED = []  # Boom objects raised by probes, in order (cleared by the harness)


class Boom(Exception):
    pass


class BoomBase(BaseException):
    """second raise kind: a BaseException that is not an Exception (an abort signal like SystemExit / KeyboardInterrupt)
    whose constructor needs its arguments; armed by the NEGATIVE probe number in T"""

    def __init__(self, i, msg):
        BaseException.__init__(self, i, msg)


# exception families that library code might special-case: every one is also a Boom, so that `% except Boom` handles it
class BoomOS(Boom, FileNotFoundError):
    pass


class BoomKey(Boom, KeyError):
    pass


class BoomAttr(Boom, AttributeError):
    pass


class BoomType(Boom, TypeError):
    pass


class BoomStop(Boom, StopIteration):
    pass


class BoomUni(Boom, UnicodeError):
    pass


class BoomRT(Boom, RuntimeError):
    pass


KIND_CLASSES = [Boom, BoomOS, BoomKey, BoomAttr, BoomType, BoomStop, BoomUni, BoomRT]
KIND_NAMES = ["Boom", "OSError", "KeyError", "AttributeError", "TypeError", "StopIteration", "UnicodeError", "RuntimeError"]

VISITS = {}  # probe number -> times reached (armed or not); cleared by the harness: the side-effect counter


def _fire(i, T):
    """an entry v of T arms probe abs(v) % 1000 with raise kind abs(v) // 1000 (0 = Boom); v < 0 = BoomBase"""
    VISITS[i] = VISITS.get(i, 0) + 1
    if not T:
        return
    for v in T:
        a = -v if v < 0 else v
        if a % 1000 == i:
            break
    else:
        return
    T.remove(v)
    if v < 0:
        e = BoomBase(i, "kaboom#%d" % i)
    else:
        e = KIND_CLASSES[a // 1000](i, "kaboom#%d" % i)
    RAISED.append(e)
    raise e


def P(i, T):
    """statement / argument probe: ${P(i, T)}"""
    _fire(i, T)
    return ""


def PI(i, T, n):
    """probe in the iterable expression of a % for: % for v in PI(i, T, n):"""
    _fire(i, T)
    return range(n)


def PF(i, T):
    """probing filter: filter="PF(i, T)"; tags the whole string it receives"""

    def flt(s):
        _fire(i, T)
        return "{" + s + "}"

    return flt


def DEC(i, j):
    """probing decorator: decorator="DEC(i, j)" (evaluated at module level for top-level defs,
    hence the armed list is read from the context at call time)"""

    def deco(fn):
        def wrapper(context, *args, **kw):
            T = context.get("T")
            context.write("<d>")
            _fire(i, T)
            r = fn(*args, **kw)
            context.write("</d>")
            _fire(j, T)
            return r

        return wrapper

    return deco


def CB(caller):
    """observer of `caller`: renders the caller's body, or says that there is none"""
    try:
        body = caller.body
    except AttributeError:
        return "[nocaller]"
    body()
    return ""


def _scf(context, x, i):
    context.write("<p>")
    _fire(i, context.get("T"))
    context["caller"].body()
    context.write("</p>")
    return ""


_scf_wrapped = [None, None]


def SCF(context, x, i):
    """a plain Python function made callable with content by mako.runtime.supports_caller (doc: namespaces, "python modules");
    <%call expr="SCF(context, A, i)">: writes <p>, probe i, caller.body(), </p>"""
    import mako.runtime as rt

    if _scf_wrapped[0] is not rt:
        _scf_wrapped[0] = rt
        _scf_wrapped[1] = rt.supports_caller(_scf)
    return _scf_wrapped[1](context, x, i)


def RR(context):
    """re-entrant render: the Template being rendered is rendered again (fault free) from inside its own render,
    through render(); the inner render does not recurse further"""
    if context.get("NR"):
        return ""
    out = context.lookup.get_template("/main").render(T=[], NR=1)
    if isinstance(out, bytes):
        out = out.decode("utf-8")
    return out


def LO(loop):
    """observer of `loop`: index and number of enclosing loop contexts"""
    d = 0
    p = loop.parent
    while p is not None:
        d += 1
        p = p.parent
    return "[%d.%d]" % (loop.index, d)


def EH(context, error):
    """error_handler returning True; what it writes must land in the outermost buffer"""
    context.write("[EH]")
    return True


def IEH(context, error):
    """include_error_handler returning True"""
    context.write("[IEH]")
    return True


def EHF(context, error):
    """error_handler returning False: the exception is not handled"""
    return False


def IEHF(context, error):
    """include_error_handler returning False: the exception is not handled"""
    return False


class DictCache:
    """dict cache backend (duck-typed CacheImpl); one store per Cache, i.e. per Template"""

    pass_context = False

    def __init__(self, cache):
        self.cache = cache
        self.store = {}

    def get_or_create(self, key, creation_function, **kw):
        if key not in self.store:
            self.store[key] = creation_function()
        return self.store[key]

    def set(self, key, value, **kw):
        self.store[key] = value

    def get(self, key, **kw):
        return self.store.get(key)

    def invalidate(self, key, **kw):
        self.store.pop(key, None)


_registered_for = [None]


def register():
    """make cache_impl='c13dict' known to the mako that is currently imported"""
    import mako.cache as mc

    if _registered_for[0] is not mc:
        mc.register_plugin(CACHE_IMPL, "mc.c13_env", "DictCache")
        _registered_for[0] = mc


def helper(name):
    return globals()[name]
