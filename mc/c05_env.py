"""C05 helper: the names a generated template (and, independently, the reference
interpreter) uses: tagging filters, the decorator, context values.

Nothing here imports mako.  A template gets the module-level names with

    Template(text, imports=IMPORTS, ...)

`deco` follows the decorator protocol documented in doc/build/filtering.rst
("Decorating"): deco(fn) returns wrapper(context, *args, **kw); the wrapper may
write to `context`, calls fn(*args, **kw) (no context) and returns its result.
The reference passes its own object with a write() method as `context`.
"""

IMPORTS = ["from mc.c05_env import f1, f2, bf, ef, deco"]


def f1(s):
    """def/block filter 1: tags the whole string it receives (shows how many times and on what it ran)"""
    return "<1:" + s + ">"


def f2(s):
    """def/block filter 2: does not commute with f1"""
    return "{2:" + s.upper() + "}"


def bf(s):
    """buffer filter (Template(buffer_filters=['bf']))"""
    return "(b:" + s + ")"


def ef(s):
    """expression default filter (Template(default_filters=['str', 'ef']))"""
    return "`" + s + "`"


def deco(fn):
    def wrapper(context, *args, **kw):
        context.write("<d>")
        r = fn(*args, **kw)
        context.write("</d>")
        return r

    return wrapper


# values a render context may hold; "@helper:<name>" in a corpus entry names one of these
V_POOL = ["V", "W", "é", "\U0001d11e"]
FILTERS = {"f1": f1, "f2": f2, "bf": bf, "ef": ef}


def helper(name):
    return globals()[name]
