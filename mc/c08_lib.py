"""C08 helpers: render one corpus item on every construction / rendering path.

Usable in-process and as a child interpreter (`python -m mc.c08_lib spec.json`)
so that PYTHONHASHSEED and "a later process" are real.
"""

import contextlib
import hashlib
import importlib
import io
import json
import os
import re
import sys


def build_ctx(item):
    ctx = {}
    env = None
    for k, v in (item.get("ctx") or {}).items():
        if isinstance(v, str) and v.startswith("@helper:"):
            if env is None:
                env = importlib.import_module(item["env"])
            v = getattr(env, v[len("@helper:"):])
        ctx[k] = v
    return ctx


def build_kwargs(item):
    kw = {}
    env = None
    for k, v in (item.get("template_kwargs") or {}).items():
        if isinstance(v, str) and v.startswith("@helper:"):
            if env is None:
                env = importlib.import_module(item["env"])
            v = getattr(env, v[len("@helper:"):])
        kw[k] = v
    return kw


_MASKS = [
    (re.compile(r"_modified_time = [0-9.e+]+"), "_modified_time = T"),
    (re.compile(r"_template_filename = .*"), "_template_filename = F"),
    (re.compile(r"memory:0x[0-9a-f]+"), "memory:ID"),
    (re.compile(r"__anon_0x[0-9a-f]+"), "__anon_ID"),
    (re.compile(r'"filename": "[^"]*"'), '"filename": F'),
    (re.compile(r"^# -\*- coding:[^\n]*\n"), ""),
]


def mask_code(code):
    if code is None:
        return None
    code = "\n".join(_norm_meta(l) if l.startswith("{") else l for l in code.split("\n"))
    for rx, rep in _MASKS:
        code = rx.sub(rep, code)
    return code


def _norm_meta(line):
    """module metadata: keep uri and source encoding; the file name is path-specific and the line map counts the
    coding-comment line that only module files carry (line maps are C12's subject)"""
    try:
        d = json.loads(line)
    except Exception:
        return line
    if not isinstance(d, dict) or "line_map" not in d:
        return line
    d.pop("filename", None)
    d.pop("line_map", None)
    return json.dumps(d, sort_keys=True)


def code_digest(code, ordered=True):
    """ordered: exact masked text.  unordered: multiset of lines, each line a multiset of its comma/bracket
    separated parts (statement order inside a declaration group and the order of names inside one generated
    list may differ between hash seeds; meaning may not)"""
    code = mask_code(code)
    if code is None:
        return None
    lines = code.splitlines()
    if not ordered:
        lines = sorted("\x00".join(sorted(re.split(r"[,\[\]()]", l))) for l in lines)
    return hashlib.sha1("\n".join(lines).encode("utf-8", "surrogatepass")).hexdigest()[:16]


def _outcome(fn):
    try:
        r = fn()
        if isinstance(r, bytes):
            return "BYTES:" + r.hex()
        return "OUT:" + r
    except BaseException as e:  # noqa
        return "EXC:" + type(e).__name__


def write_files(item, srcdir):
    for uri, text in item["files"].items():
        p = os.path.join(srcdir, uri.lstrip("/"))
        os.makedirs(os.path.dirname(p), exist_ok=True)
        with open(p, "w", encoding=item.get("encoding") or "utf-8", newline="") as f:
            f.write(text)


def _facts(t, ctx):
    """what a Template says about itself"""
    out = {}
    out["render"] = _outcome(lambda: t.render(**ctx))
    if out["render"].startswith("EXC"):
        # the text of the error (compared between hash seeds on the same path only)
        try:
            t.render(**ctx)
        except BaseException as e:  # noqa
            out["render_msg"] = re.sub(r"0x[0-9a-fA-F]+", "0x", str(e))[:200]
    try:
        out["source"] = t.source
    except BaseException as e:  # noqa
        out["source"] = "EXC:" + type(e).__name__
    try:
        code = t.code
    except BaseException as e:  # noqa
        code = None
    out["code"] = code_digest(code)
    out["code_unordered"] = code_digest(code, ordered=False)
    try:
        defs = sorted(t.list_defs())
    except BaseException as e:  # noqa
        defs = ["EXC:" + type(e).__name__]
    out["defs"] = defs
    out["has_def"] = {d: t.has_def(d) for d in defs if not d.startswith("EXC")}
    out["has_def"]["no_such_def_"] = t.has_def("no_such_def_")
    return out


def run_item(item, workdir, paths):
    """-> {path: facts}"""
    from mako import lookup as mlookup
    from mako.runtime import Context
    from mako.template import ModuleTemplate, Template

    ctx = build_ctx(item)
    kw = build_kwargs(item)
    main = item["main"]
    src = os.path.join(workdir, "src")
    mods = os.path.join(workdir, "mods")
    res = {}

    def lk(**extra):
        return mlookup.TemplateLookup(**dict(kw, **extra))

    if "string" in paths or "render_unicode" in paths or "render_context" in paths or "get_def" in paths:
        L = lk()
        for uri, text in item["files"].items():
            L.put_string(uri, text)
        t = L.get_template(main)
        if "string" in paths:
            res["string"] = _facts(t, ctx)
        if "render_unicode" in paths:
            res["render_unicode"] = {"render": _outcome(lambda: t.render_unicode(**ctx))}
        if "render_context" in paths:
            def rc():
                buf = io.StringIO()
                c = Context(buf, **ctx)
                t.render_context(c)
                return buf.getvalue()

            res["render_context"] = {"render": _outcome(rc)}
        if "get_def" in paths:
            gd = {}
            try:
                names = sorted(t.list_defs())
            except BaseException:  # noqa
                names = []
            for n in names:
                gd[n] = _outcome(lambda: t.get_def(n).render(**ctx))
            res["get_def"] = {"defs": gd}
    need_files = [p for p in paths if p in ("file", "moddir", "moddir2", "moddir3", "moduletemplate", "cmd", "uri-spellings", "modulename_callable", "get_def_file")]
    if need_files and not os.path.isdir(src):
        write_files(item, src)
    if "file" in paths:
        L = lk(directories=[src])
        try:
            res["file"] = _facts(L.get_template(main), ctx)
        except BaseException as e:  # noqa
            res["file"] = {"render": "EXC:%s at construction" % type(e).__name__}
        if "get_def" in paths:
            t2 = L.get_template(main)
            gd = {}
            for n in sorted(t2.list_defs()):
                gd[n] = _outcome(lambda: t2.get_def(n).render(**ctx))
            res["get_def_file"] = {"defs": gd}
    if "moddir" in paths:
        L = lk(directories=[src], module_directory=mods)
        try:
            t = L.get_template(main)
            res["moddir"] = _facts(t, ctx)
        except BaseException as e:  # noqa
            t = None
            res["moddir"] = {"render": "EXC:%s at construction" % type(e).__name__}
        if "moduletemplate" in paths and t is not None:
            try:
                mt = ModuleTemplate(t.module, lookup=L, template_filename=t.filename, module_filename=getattr(t.module, "__file__", None))
                res["moduletemplate"] = {"render": _outcome(lambda: mt.render(**ctx)), "defs": sorted(mt.list_defs())}
            except BaseException as e:  # noqa
                res["moduletemplate"] = {"render": "EXC:" + type(e).__name__}
    if "moddir2" in paths:
        stamp = _mtimes(mods)
        L = lk(directories=[src], module_directory=mods)
        try:
            t = L.get_template(main)
            res["moddir2"] = _facts(t, ctx)
        except BaseException as e:  # noqa
            res["moddir2"] = {"render": "EXC:%s at construction" % type(e).__name__}
        res["moddir2"]["regenerated"] = _mtimes(mods) != stamp
    if "moddir3" in paths:
        # the module files now claim to come from another generation of the library (a larger and a smaller magic number,
        # alternating per file) and would print a marker if they were executed as they are: they have to be regenerated
        n_ = 0
        for p_ in sorted(_mtimes(mods)):
            with open(p_) as f_:
                code_ = f_.read()
            m_ = re.search(r"^_magic_number = (\d+)$", code_, re.M)
            if not m_ or "def render_body(" not in code_:
                continue
            other_ = int(m_.group(1)) + (1 if n_ % 2 == 0 else -1)
            n_ += 1
            code_ = code_[: m_.start()] + "_magic_number = %d" % other_ + code_[m_.end():]
            code_ += "\n_foreign_render_body = render_body\n\n\ndef render_body(context, *a, **k):\n    context.write('FOREIGN-MODULE')\n    return _foreign_render_body(context, *a, **k)\n"
            st_ = os.stat(p_)
            with open(p_, "w") as f_:
                f_.write(code_)
            os.utime(p_, ns=(st_.st_atime_ns, st_.st_mtime_ns))
        L = lk(directories=[src], module_directory=mods)
        try:
            t = L.get_template(main)
            res["moddir3"] = _facts(t, ctx)
        except BaseException as e:  # noqa
            res["moddir3"] = {"render": "EXC:%s at construction" % type(e).__name__}
        res["moddir3"]["rewritten"] = n_
    if "uri-spellings" in paths and not any(
        re.search(r"\.uri\b|\bU\(|\.filename\b|_template_uri|\bdescribe\(", str(text)) for text in item["files"].values()
    ):
        # (a program that prints a template's URI legitimately prints the spelling it was asked for)
        out = {}
        m = main.lstrip("/")
        for sp in (m, "/" + m, "//" + m, m.replace("/", "//")):
            L = lk(directories=[src])
            out[sp] = _outcome(lambda: L.get_template(sp).render(**ctx))
        res["uri-spellings"] = {"renders": out}
    if "modulename_callable" in paths:
        alt = os.path.join(workdir, "altmods")

        def mc_(filename, uri):
            return os.path.join(alt, re.sub(r"\W", "_", uri) + "_x.py")

        L = lk(directories=[src], modulename_callable=mc_)
        try:
            res["modulename_callable"] = _facts(L.get_template(main), ctx)
        except BaseException as e:  # noqa
            res["modulename_callable"] = {"render": "EXC:" + type(e).__name__}

        # the same with module paths spelled relatively (to the current directory): the module is registered
        # under the spelling it was given, whatever the import system calls the file
        def mcrel(filename, uri):
            return os.path.relpath(os.path.join(alt, "rel", re.sub(r"\W", "_", uri) + "_r.py"))

        L = lk(directories=[src], modulename_callable=mcrel)
        try:
            res["modulename_relative"] = _facts(L.get_template(main), ctx)
        except BaseException as e:  # noqa
            res["modulename_relative"] = {"render": "EXC:" + type(e).__name__}
        try:
            from mako.template import Template

            L = lk(directories=[src])
            relmod = os.path.relpath(os.path.join(alt, "mf", "main_mf.py"))
            os.makedirs(os.path.dirname(os.path.abspath(relmod)), exist_ok=True)
            tkw = {k: v for k, v in kw.items() if k not in ("directories", "module_directory", "modulename_callable", "collection_size", "filesystem_checks")}
            tmf = Template(filename=os.path.join(src, main.lstrip("/")), uri=main, lookup=L, module_filename=relmod, **tkw)
            res["module_filename_relative"] = _facts(tmf, ctx)
        except BaseException as e:  # noqa
            res["module_filename_relative"] = {"render": "EXC:" + type(e).__name__}
        # the documented ModuleTemplate recipe: the generated module written out, imported as an ordinary
        # Python module from its file, wrapped with its sources
        try:
            import importlib.util

            from mako.template import ModuleTemplate

            L = lk(directories=[src])
            t0 = L.get_template(main)
            mpath = os.path.join(alt, "recipe", "mymodule_%s.py" % re.sub(r"\W", "_", main))
            os.makedirs(os.path.dirname(mpath), exist_ok=True)
            with open(mpath, "w", encoding="utf-8") as f:
                f.write(t0.code)
            spec = importlib.util.spec_from_file_location("mymodule_" + re.sub(r"\W", "_", main), mpath)
            mod = importlib.util.module_from_spec(spec)
            spec.loader.exec_module(mod)
            mt2 = ModuleTemplate(mod, module_source=t0.code, template_source=t0.source, lookup=L, template_filename=t0.filename)
            res["moduletemplate_file"] = _facts(mt2, ctx)
        except BaseException as e:  # noqa
            res["moduletemplate_file"] = {"render": "EXC:" + type(e).__name__}
    if "out-enc" in paths:
        # bytes-producing paths with stateful codecs: render() must be render_unicode() encoded once
        out = {}
        for enc in ("utf-16", "utf-8-sig", "utf-32"):
            L = lk(output_encoding=enc)
            for uri, text in item["files"].items():
                L.put_string(uri, text)
            t = L.get_template(main)

            def both():
                u = t.render_unicode(**ctx)
                b = t.render(**ctx)
                return "same" if b == u.encode(enc) else "DIFF %r vs %r" % (b[:40], u.encode(enc)[:40])

            out[enc] = _outcome(both)
        # a narrow charset with a non-strict error policy: the whole page and every def rendered on its own
        # (get_def(name).render()) are render_unicode() encoded with the template's output_encoding and encoding_errors
        for enc, err in (("ascii", "xmlcharrefreplace"), ("ascii", "replace"), ("latin-1", "htmlentityreplace")):
            L = lk(output_encoding=enc, encoding_errors=err)
            for uri, text in item["files"].items():
                L.put_string(uri, text)
            t = L.get_template(main)

            def both2():
                u = t.render_unicode(**ctx)
                b = t.render(**ctx)
                if b != u.encode(enc, err):
                    return "DIFF %r vs %r" % (b[:40], u.encode(enc, err)[:40])
                for n in sorted(t.list_defs()):
                    d = t.get_def(n)
                    try:
                        du = d.render_unicode(**ctx)
                    except Exception:  # noqa
                        continue  # a def that cannot be rendered on its own (it needs arguments / a caller)
                    db = d.render(**ctx)
                    if db != du.encode(enc, err):
                        return "DIFF def %s %r vs %r" % (n, db[:40], du.encode(enc, err)[:40])
                return "same"

            out[enc + "/" + err] = _outcome(both2)
        res["out-enc"] = {"renders": out}
    if "cmd" in paths:
        from mako import cmd

        argv = []
        for k, v in ctx.items():
            argv += ["--var", "%s=%s" % (k, v)]
        # an earlier template directory holds a different file of the same relative name: the file given on
        # the command line must be the one rendered
        decoy = os.path.join(workdir, "decoy")
        dp = os.path.join(decoy, main.lstrip("/"))
        os.makedirs(os.path.dirname(dp), exist_ok=True)
        with open(dp, "w") as f:
            f.write("DECOY")
        argv += ["--template-dir", decoy, "--template-dir", src, os.path.join(src, main.lstrip("/"))]
        out, err = io.StringIO(), io.StringIO()

        def run():
            with contextlib.redirect_stdout(out), contextlib.redirect_stderr(err):
                try:
                    cmd.cmdline(argv)
                except SystemExit as e:
                    if e.code:
                        raise RuntimeError("mako-render exit %s" % e.code)
            return out.getvalue()

        res["cmd"] = {"render": _outcome(run)}

        # --output-encoding: the bytes written to stdout / to --output-file
        encs = {}
        for enc in ("utf-8", "utf-16", "latin-1"):
            for where in ("stdout", "file"):
                raw = io.BytesIO()
                wrapped = io.TextIOWrapper(raw, encoding="utf-8", write_through=True)
                ofile = os.path.join(workdir, "cmd-out.bin")
                if os.path.exists(ofile):
                    os.unlink(ofile)
                argv2 = ["--output-encoding", enc] + (["--output-file", ofile] if where == "file" else []) + argv

                def run2():
                    with contextlib.redirect_stdout(wrapped), contextlib.redirect_stderr(io.StringIO()):
                        try:
                            cmd.cmdline(argv2)
                        except SystemExit as e:
                            if e.code:
                                raise RuntimeError("mako-render exit %s" % e.code)
                    wrapped.flush()
                    if where == "file":
                        with open(ofile, "rb") as f:
                            return f.read().hex()
                    return raw.getvalue().hex()

                encs["%s:%s" % (enc, where)] = _outcome(run2)
        res["cmd"]["encoded"] = encs
    return res


def _mtimes(d):
    out = {}
    for base, _, files in os.walk(d):
        for f in files:
            if f.endswith(".py"):
                p = os.path.join(base, f)
                out[p] = os.stat(p).st_mtime_ns
    return out


def main(argv):
    spec = json.load(open(argv[1]))
    sys.path.insert(0, spec["verif"])
    sys.path.insert(0, spec["repo"])
    out = {}
    for it in spec["items"]:
        wd = os.path.join(spec["workroot"], it["id"].replace(":", "_"))
        try:
            out[it["id"]] = run_item(it, wd, spec["paths"])
        except BaseException as e:  # noqa
            out[it["id"]] = {"_error": "%s: %s" % (type(e).__name__, e)}
    json.dump(out, open(spec["out"], "w"))


if __name__ == "__main__":
    main(sys.argv)
