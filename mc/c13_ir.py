"""C13 helper: the program IR over the stateful constructs, its enumerator
(skeletons by weight), the finaliser (names, probes at every position,
observers, explicit line breaks) and the printer into Mako syntax.

Nothing here imports mako or the reference interpreter.

Skeleton (nested tuples; weight = number of nodes)
    ("text",)
    ("try", body, hbody)                     % try / % except Boom as e / % endtry
    ("for", body)                            % for v in PI(i, T, 2):  with `loop` (its body starts with ${LO(loop)})
    ("forp", body)                           % for v in PI(i, T, 2):  without `loop` anywhere in its body (no loop context)
                                             PI is the probe in the iterable expression: raises when armed, else range(2)
    ("call", form, flags, where, dbody, content)
                                             a def declared for this call and called here
        form   "expr"  ${d(A)}     "cap"  ${capture(d, A)}     "tag"  <%call expr="d(A)">content</%call>
        flags  string over b(uffered) f(ilter) c(ached) d(ecorator)
        where  "top" (top-level def of the file the call is written in) | "nested" (def nested in the enclosing def)
    ("textf",)                               <%text filter="PF(i, T)">..</%text>
    ("inc", body)                            <%include file="/iN"/>  (body = body of the included file)
    ("inh", body)                            ${next.body()} in the base template; body = body of the inheriting template
    ("cb",)                                  ${CB(caller)}
    ("rr",)                                  ${RR(context)}: re-entrant fault-free render() of the same Template
    ("py", content)                          <%call expr="SCF(context, A, i)">content</%call>: a Python function under
                                             runtime.supports_caller that writes <p>, probes, calls caller.body(), writes </p>

Final program (JSON-able)
    {"files": {uri: {"inherit": uri|None, "decls": [def..], "body": [stmt..]}}, "main": uri, "root": uri, "nprobes": n,
     "weight": w, "kinds": [...]}
    def  = {"name", "b": bool, "f": probe|None, "c": bool, "d": [probe, probe]|None, "top": bool, "decls": [def..], "body": [stmt..]}
    stmt = ["text", s] | ["nl"] | ["probe", i] | ["try", body, hbody] | ["for", n, body, iterprobe] | ["forp", n, body, iterprobe]
         | ["lo"] | ["cb"]
         | ["call", form, defname, argprobe, content|None] | ["textf", probe, s] | ["inc", uri] | ["inh", uri]
         | ["py", argprobe, probe, content] | ["ob"]        (ob: ${ob()}, a def of the file whose body is ${CB(caller)})
"""

import functools

FORMS = ("expr", "tag", "cap")
ALL_FLAGS = ("", "b", "f", "c", "d", "bf", "bc", "bd", "fc", "fd", "bfc", "bfd")  # every subset without c+d (see ASSUMPTIONS)
SINGLE_FLAGS = ("", "b", "f", "c", "d")


# ---------------------------------------------------------------------------
# enumerator
#
# ctx = (for_ok, nested_ok, inc_ok, inh_ok)
#   for_ok     the enclosing callable is a file body or a top-level def (loop stack of its own: A4);
#              "plain" = inside a % for that must not mention `loop`: only further plain loops are allowed
#   nested_ok  the enclosing callable is a def body (a def can be nested in it)
#   inc_ok     <%include> allowed here (not inside an included file: depth 1)
#   inh_ok     the inherit point may be placed here (root body, under control lines only, at most once)


def has_inh(x):
    if isinstance(x, tuple):
        if x and x[0] == "inh":
            return True
        return any(has_inh(y) for y in x)
    return False


class Grammar:
    def __init__(self, flagset, forms=FORMS, wheres=("top", "nested"), kinds=None, modcost=False):
        self.modcost = modcost
        self.flagset = tuple(flagset)
        self.forms = tuple(forms)
        self.wheres = tuple(wheres)
        self.kinds = kinds  # None = all
        self._blk = {}
        self._st = {}

    def on(self, k):
        return self.kinds is None or k in self.kinds

    def blocks(self, w, ctx):
        """all statement lists of total weight exactly w"""
        key = (w, ctx)
        r = self._blk.get(key)
        if r is not None:
            return r
        out = []
        if w == 0:
            out.append(())
        else:
            for w1 in range(1, w + 1):
                for s in self.stmts(w1, ctx):
                    c2 = ctx
                    if ctx[3] and has_inh(s):
                        c2 = (ctx[0], ctx[1], ctx[2], False)
                    for rest in self.blocks(w - w1, c2):
                        out.append((s,) + rest)
        self._blk[key] = out
        return out

    def stmts(self, w, ctx):
        key = (w, ctx)
        r = self._st.get(key)
        if r is not None:
            return r
        for_ok, nested_ok, inc_ok, inh_ok = ctx
        out = []
        if w == 1:
            out.append(("text",))
            if self.on("cb"):
                out.append(("cb",))
            if self.on("textf"):
                out.append(("textf",))
            if self.on("rr"):
                out.append(("rr",))
        # try: body non-empty
        if self.on("try"):
            for wb in range(1, w):
                for wh in range(0, w - wb):
                    if 1 + wb + wh != w:
                        continue
                    for b in self.blocks(wb, ctx):
                        c2 = ctx
                        if inh_ok and has_inh(b):
                            c2 = (for_ok, nested_ok, inc_ok, False)
                        for h in self.blocks(wh, c2):
                            out.append(("try", b, h))
        if for_ok is True and self.on("for"):
            for b in self.blocks(w - 1, ctx):
                out.append(("for", b))
        if for_ok and self.on("forp"):
            for b in self.blocks(w - 1, ("plain", nested_ok, inc_ok, inh_ok)):
                out.append(("forp", b))
        if self.on("call"):
            for form in self.forms:
                for where in self.wheres:
                    if where == "nested" and not nested_ok:
                        continue
                    dctx = (where == "top", True, inc_ok, False)
                    for fl in self.flagset:
                        if form == "cap" and "b" in fl:
                            continue  # capture() of a def that returns its text instead of writing it: not documented
                        base = 1 + (len(fl) + (where == "nested") + (form == "cap") if self.modcost else 0)
                        for wd in range(0, w - base + 1):
                            wc = w - base - wd
                            if form != "tag" and wc:
                                continue
                            for d in self.blocks(wd, dctx):
                                if form == "tag":
                                    for c in self.blocks(wc, (False, False, inc_ok, False)):
                                        out.append(("call", form, fl, where, d, c))
                                else:
                                    out.append(("call", form, fl, where, d, None))
        if self.on("py"):
            for c in self.blocks(w - 1, (False, False, inc_ok, False)):
                out.append(("py", c))
        if inc_ok and self.on("inc"):
            for b in self.blocks(w - 1, (True, False, False, False)):
                out.append(("inc", b))
        if inh_ok and self.on("inh"):
            for b in self.blocks(w - 1, (True, False, inc_ok, False)):
                out.append(("inh", b))
        self._st[key] = out
        return out

    def programs(self, w):
        """root bodies of weight exactly w, simplest first in the order of construction"""
        return self.blocks(w, (True, False, True, True))


NODE_KINDS = ("text", "try", "for", "forp", "call", "textf", "inc", "inh", "cb", "py", "rr")


def kinds_of(x, acc=None):
    acc = set() if acc is None else acc
    if isinstance(x, tuple):
        if x and isinstance(x[0], str) and x[0] in NODE_KINDS:
            acc.add(x[0])
            if x[0] == "call":
                acc.add("call:" + x[1])
                for ch in x[2] or "-":
                    acc.add("flag:" + ch)
                acc.add("where:" + x[3])
            for y in x[1:]:
                kinds_of(y, acc)
        else:
            for y in x:
                kinds_of(y, acc)
    return acc


def weight(x):
    if isinstance(x, tuple):
        if x and isinstance(x[0], str) and x[0] in NODE_KINDS:
            return 1 + sum(weight(y) for y in x[1:])
        return sum(weight(y) for y in x)
    return 0


# ---------------------------------------------------------------------------
# finaliser


class _Fin:
    def __init__(self, letters):
        self.letters = letters
        self.nt = 0
        self.np = 0
        self.nd = 0
        self.ni = 0
        self.files = {}

    def text(self):
        s = self.letters[self.nt % len(self.letters)]
        if self.nt >= len(self.letters):
            s += str(self.nt // len(self.letters))
        self.nt += 1
        return s

    def probe(self):
        self.np += 1
        return self.np

    # scope = {"decls": list (where top-level defs of the current file go), "ndecls": list or None (nested defs of the
    #          enclosing def), "infor": inside a % for of the same callable}
    def block(self, stmts, scope):
        out = [["probe", self.probe()]]
        for s in stmts:
            out.extend(self.stmt(s, scope))
            out.append(["probe", self.probe()])
        return out

    def stmt(self, s, scope):
        k = s[0]
        if k == "text":
            return [["text", self.text()]]
        if k == "cb":
            return [["cb"]]
        if k == "rr":
            return [["rr"]]
        if k == "textf":
            return [["textf", self.probe(), self.text()]]
        if k == "try":
            body = self.block(s[1], scope)
            hbody = self.block(s[2], scope)
            out = [["try", body, hbody]]
            # observers after the handler: `loop` and `caller` must have their outer values
            if scope["infor"]:
                out.append(["lo"])
            out.append(["cb"])
            out.append(["ob"])  # a def called without content right after the handler has no caller
            scope["file"]["ob"] = True
            return out
        if k == "py":
            ap = self.probe()
            ip = self.probe()
            c = self.block(s[1], {"decls": scope["decls"], "ndecls": None, "infor": False, "file": scope["file"]})
            return [["py", ap, ip, c]]
        if k == "for":
            ip = self.probe()
            sc = dict(scope, infor=True)
            body = [["lo"]] + self.block(s[1], sc)
            return [["for", 2, body, ip]]
        if k == "forp":
            ip = self.probe()
            sc = dict(scope, infor=False)  # no `loop` observer may be written inside: the loop would get a context
            return [["forp", 2, self.block(s[1], sc), ip]]
        if k == "call":
            _, form, fl, where, dbody, content = s
            self.nd += 1
            name = "d%d" % self.nd
            d = {
                "name": name,
                "b": "b" in fl,
                "f": None,
                "c": "c" in fl,
                "d": None,
                "top": where == "top",
                "decls": [],
                "body": None,
            }
            if "d" in fl:
                d["d"] = [self.probe(), None]
            argprobe = self.probe()
            dscope = {"decls": scope["decls"], "ndecls": d["decls"], "infor": False, "file": scope["file"]}
            d["body"] = self.block(dbody, dscope)
            if "f" in fl:
                d["f"] = self.probe()
            if d["d"]:
                d["d"][1] = self.probe()
            if where == "top":
                scope["decls"].append(d)
            else:
                scope["ndecls"].append(d)
            c = None
            if form == "tag":
                cscope = {"decls": scope["decls"], "ndecls": None, "infor": False, "file": scope["file"]}
                c = self.block(content, cscope)
            return [["call", form, name, argprobe, c]]
        if k == "inc":
            self.ni += 1
            uri = "/i%d" % self.ni
            f = {"inherit": None, "decls": [], "body": None}
            self.files[uri] = f
            f["body"] = self.block(s[1], {"decls": f["decls"], "ndecls": None, "infor": False, "file": f})
            return [["inc", uri]]
        if k == "inh":
            f = {"inherit": "/base", "decls": [], "body": None}
            self.files["/main"] = f
            f["body"] = self.block(s[1], {"decls": f["decls"], "ndecls": None, "infor": False, "file": f})
            return [["inh", "/main"]]
        raise ValueError(k)


def _layout_file(f):
    """insert explicit ["nl"] statements (a literal line break, which is output) so that every control line starts a line"""
    st = {"bol": f["inherit"] is None and not f.get("ob")}

    def lay_def(d):
        st["bol"] = False  # after the opening tag
        for n in d["decls"]:
            lay_def(n)
        d["body"] = lay_block(d["body"])
        st["bol"] = False  # after the closing tag

    def lay_block(stmts):
        out = []
        for s in stmts:
            k = s[0]
            if k in ("try", "for", "forp"):
                if not st["bol"]:
                    out.append(["nl"])
                st["bol"] = True  # after the control line
                if k == "try":
                    b = lay_block(s[1])
                    if not st["bol"]:
                        b.append(["nl"])
                    st["bol"] = False  # after the marker written by the handler
                    h = lay_block(s[2])
                    h.append(["nl"])
                    out.append(["try", b, h])
                else:
                    b = lay_block(s[2])
                    if not st["bol"]:
                        b.append(["nl"])
                    out.append([k, s[1], b, s[3]])
                st["bol"] = True  # after % endtry / % endfor
            elif k == "call" and s[4] is not None:
                st["bol"] = False
                c = lay_block(s[4])
                out.append(["call", s[1], s[2], s[3], c])
                st["bol"] = False
            elif k == "py":
                st["bol"] = False
                c = lay_block(s[3])
                out.append(["py", s[1], s[2], c])
                st["bol"] = False
            else:
                out.append(s)
                st["bol"] = False
        return out

    for d in f["decls"]:
        lay_def(d)
    f["body"] = lay_block(f["body"])


def finalise(skel, letters="abcdefghijklmnopqrstuvwxyz"):
    fin = _Fin(letters)
    inh = has_inh(skel)
    rooturi = "/base" if inh else "/main"
    root = {"inherit": None, "decls": [], "body": None}
    fin.files[rooturi] = root
    root["body"] = fin.block(skel, {"decls": root["decls"], "ndecls": None, "infor": False, "file": root})
    for uri in sorted(fin.files):
        _layout_file(fin.files[uri])
    return {
        "files": fin.files,
        "main": "/main",
        "root": rooturi,
        "nprobes": fin.np,
        "weight": weight(skel),
        "kinds": sorted(kinds_of(skel)),
    }


# ---------------------------------------------------------------------------
# printer


def p_def(d):
    attrs = ' name="%s(x=\'\')"' % d["name"]
    if d["b"]:
        attrs += ' buffered="True"'
    if d["f"] is not None:
        attrs += ' filter="PF(%d, T)"' % d["f"]
    if d["c"]:
        attrs += ' cached="True"'
    if d["d"]:
        attrs += ' decorator="DEC(%d, %d)"' % tuple(d["d"])
    return "<%def" + attrs + ">" + "".join(p_def(n) for n in d["decls"]) + p_block(d["body"]) + "</%def>"


def p_block(stmts):
    return "".join(p_stmt(s) for s in stmts)


def p_stmt(s):
    k = s[0]
    if k == "text":
        return s[1]
    if k == "nl":
        return "\n"
    if k == "probe":
        return "${P(%d, T)}" % s[1]
    if k == "lo":
        return "${LO(loop)}"
    if k == "cb":
        return "${CB(caller)}"
    if k == "try":
        return "% try:\n" + p_block(s[1]) + "% except Boom as e:\n[x${e.args[0]}]" + p_block(s[2]) + "% endtry\n"
    if k in ("for", "forp"):
        return "%% for v in PI(%d, T, %d):\n" % (s[3], s[1]) + p_block(s[2]) + "% endfor\n"
    if k == "call":
        _, form, name, ap, c = s
        arg = "P(%d, T)" % ap
        if form == "expr":
            return "${%s(%s)}" % (name, arg)
        if form == "cap":
            return "${capture(%s, %s)}" % (name, arg)
        return '<%%call expr="%s(%s)">' % (name, arg) + p_block(c) + "</%call>"
    if k == "textf":
        return '<%%text filter="PF(%d, T)">%s</%%text>' % (s[1], s[2])
    if k == "inc":
        return '<%%include file="%s"/>' % s[1]
    if k == "inh":
        return "${next.body()}"
    if k == "ob":
        return "${ob()}"
    if k == "rr":
        return "${RR(context)}"
    if k == "py":
        return '<%%call expr="SCF(context, P(%d, T), %d)">' % (s[1], s[2]) + p_block(s[3]) + "</%call>"
    raise ValueError(k)


def p_file(f):
    head = '<%%inherit file="%s"/>' % f["inherit"] if f["inherit"] else ""
    ob = '<%def name="ob()">${CB(caller)}</%def>' if f.get("ob") else ""
    return head + ob + "".join(p_def(d) for d in f["decls"]) + p_block(f["body"])


def print_program(prog):
    return {uri: p_file(f) for uri, f in prog["files"].items()}


def all_defs(prog):
    out = {}

    def walk(d, uri):
        out[d["name"]] = (d, uri)
        for n in d["decls"]:
            walk(n, uri)

    for uri, f in prog["files"].items():
        for d in f["decls"]:
            walk(d, uri)
    return out
