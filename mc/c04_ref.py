"""C04 helper: reference interpreter for the template IR of mc/c04_ir.py.

Independent of mako (nothing here imports it).  A normalized program is
translated into plain Python by an own printer and executed; *CPython* decides
everything that is Python semantics (what is local, closure, unbound, what a
statement binds): every render callable (body, def, block, call body) becomes a
Python function nested exactly as it is nested in the template, user code is
copied verbatim into it.  What the reference adds is only the documented
resolution of names that Python leaves free (DESIGN.md Appendix A2):

    free name of a callable, fetched once on entry of that callable:
      top-level def of the file (by bare name; from the body: with the body's
      <%page> arguments and the current values of the names bound in its <% %>
      blocks laid over the context) -> <%namespace import> of the file ->
      render context -> builtin -> UNDEFINED | NameError("'x' is not defined") when strict

    module-level <%! %> names are real globals of the translated module (Python
    looks them up after locals and closures, before the reference is asked).

Which names are free is asked of the standard library's `symtable` on the
translated program (first pass without prologues), not worked out here.
"""

import builtins
import symtable
import textwrap


class RefUndefined:
    def __str__(self):
        raise NameError("Undefined")

    def __bool__(self):
        return False

    def __repr__(self):
        return "<ref UNDEFINED>"


class RefContext:
    """what template code may use of `context`: get, [], kwargs, keys"""

    def __init__(self, data, kwargs):
        self._d = data
        self._kw = kwargs

    def get(self, key, default=None):
        if key in self._d:
            return self._d[key]
        return builtins.__dict__.get(key, default)

    def __getitem__(self, key):
        if key in self._d:
            return self._d[key]
        return builtins.__dict__[key]

    @property
    def kwargs(self):
        return dict(self._kw)

    def keys(self):
        return list(self._d)

    def overlay(self, d):
        n = dict(self._d)
        n.update(d)
        return RefContext(n, self._kw)


class _Namespace:
    def __init__(self, rt, mod, ctx):
        self.__dict__["_a"] = (rt, mod, ctx)

    def __getattr__(self, key):
        rt, mod, ctx = self._a
        fn = mod.get("__def_" + key) or mod.get("__blk_" + key)
        if fn is None:
            raise AttributeError("Namespace has no member %r" % key)
        return lambda *a, **k: fn(ctx, *a, **k)


class _Caller:
    def __init__(self, rt):
        self.__dict__["_rt"] = rt

    def __getattr__(self, key):
        top = self._rt.frames[-1] if self._rt.frames else None
        if top is None:
            raise AttributeError("no caller")
        return top[key]

    def __bool__(self):
        return bool(self._rt.frames and self._rt.frames[-1])


class Runtime:
    def __init__(self, strict):
        self.strict = strict
        self.buf = []
        self.frames = []
        self.next_caller = None
        self.mods = {}  # uri -> globals dict of the translated file
        self.info = {}  # uri -> {"imports": {name: uri}, "defs": set}
        self.UNDEFINED = RefUndefined()
        self.plain = None
        self.missing = None

    # output
    def write(self, s):
        self.buf.append(s)

    # caller frames (a def entered while a call-with-content is pending gets its caller)
    def push_frame(self):
        self.frames.append(self.next_caller)
        self.next_caller = None

    def pop_frame(self):
        self.next_caller = self.frames.pop()

    def set_next_caller(self, d):
        self.next_caller = d

    def clear_next_caller(self):
        self.next_caller = None

    # names
    def stub(self, uri, name, ctx):
        fn = self.mods[uri]["__def_" + name]
        return lambda *a, **k: fn(ctx, *a, **k)

    def stub_overlay(self, uri, name, view):
        fn = self.mods[uri]["__def_" + name]
        return lambda *a, **k: fn(view(), *a, **k)

    def resolve_all(self, uri, names, ctx):
        imp = self.info[uri]["imports"]
        out = []
        missing = []
        for name in names:
            if name in imp:
                fn = self.mods[imp[name]]["__def_" + name]
                plain = self.plain
                out.append(lambda *a, __fn=fn, __p=plain, **k: __fn(__p, *a, **k))
            elif name in ctx._d:
                out.append(ctx._d[name])
            elif name in builtins.__dict__:
                out.append(builtins.__dict__[name])
            else:
                missing.append(name)
                out.append(self.UNDEFINED)
        if missing and self.strict:
            # which of several missing names is reported is not fixed: all are recorded
            self.missing = missing
            raise NameError("'%s' is not defined" % missing[0])
        return out


# --------------------------------------------------------------------------
# translation


class _Emit:
    def __init__(self):
        self.lines = []
        self.ind = 0

    def w(self, s):
        self.lines.append("    " * self.ind + s)

    def block(self, src):
        for ln in textwrap.dedent(src).strip("\n").split("\n"):
            self.lines.append("    " * self.ind + ln)


def _param_names(params):
    """names bound by a parameter list, asked of symtable"""
    if not params or not params.strip():
        return []
    t = symtable.symtable("def __p(%s): pass" % params, "<params>", "exec")
    fn = [c for c in t.get_children() if c.get_name() == "__p"][0]
    return [s.get_name() for s in fn.get_symbols() if s.is_parameter()]


def _bound_by_code(src):
    """names a <% %> block binds in its callable, by Python's rules (symtable)"""
    t = symtable.symtable(textwrap.dedent(src).strip("\n") + "\n", "<code>", "exec")
    return [
        s.get_name()
        for s in t.get_symbols()
        if (s.is_assigned() or s.is_imported()) and not s.is_declared_global()
    ]


class _FileGen:
    def __init__(self, uri, f, prologues):
        self.uri = uri
        self.f = f
        self.pro = prologues  # function name -> [names] (None in the first pass)
        self.e = _Emit()
        self.k = 0
        self.generated = set()
        self.topdefs = [st[1] for st in f["body"] if st[0] == "def"]
        self.module_level = []  # module-level functions to emit after the body (source chunks)
        self.inside_body = False  # generating code lexically inside the body callable

    def fresh(self, prefix):
        self.k += 1
        return "%s%d" % (prefix, self.k)

    def prologue(self, fname, is_body=False):
        e = self.e
        names = (self.pro or {}).get(fname, [])
        plain = [n for n in names if n not in self.topdefs]
        for n in names:
            if n in self.topdefs:
                # the body and the closures written in it (anonymous blocks, call bodies, the defs inside them)
                # call a top-level def "from the body": page arguments and current <% %> values are laid over
                if is_body or self.inside_body:
                    e.w("%s = __rt.stub_overlay(%r, %r, __view)" % (n, self.uri, n))
                else:
                    e.w("%s = __rt.stub(%r, %r, context)" % (n, self.uri, n))
        if plain:
            # all free names of the callable are fetched together, on entry
            e.w("[%s] = __rt.resolve_all(%r, %r, context)" % (", ".join(plain), self.uri, plain))

    def stmts(self, stmts, scope):
        """scope: {"top": bool (statements directly in the file body: defs are top-level defs)}"""
        e = self.e
        if not stmts:
            e.w("pass")
        # nested defs are closures defined when the enclosing callable is entered
        if not scope["top"]:
            for st in stmts:
                if st[0] == "def":
                    self.nested_def(st)
        for st in stmts:
            k = st[0]
            if k == "text":
                e.w("__rt.write(%r)" % st[1])
            elif k == "expr":
                s = "__str(%s)" % st[1]
                for flt in st[2]:
                    s = "%s(%s)" % (flt, s)
                e.w("__rt.write(%s)" % s)
            elif k == "code":
                e.block(st[1])
            elif k == "ctl":
                for header, body in st[1]:
                    e.w(header)
                    e.ind += 1
                    self.stmts(body, {"top": False}) if body else e.w("pass")
                    e.ind -= 1
            elif k == "def":
                if scope["top"]:
                    self.module_level.append(st)
                # nested: already defined above
            elif k == "block":
                if st[1] is None:
                    fn = self.fresh("__anon_")
                    self.generated.add(fn)
                    e.w("def %s():" % fn)
                    e.ind += 1
                    self.callable_body(fn, st[2])
                    e.ind -= 1
                    e.w("%s()" % fn)
                else:
                    assert scope["top"], "named block only in the file body"
                    self.module_level.append(st)
                    e.w("context['self'].%s(**pageargs)" % st[1])
            elif k in ("call", "nscall"):
                fn = self.fresh("__cbody_")
                self.generated.add(fn)
                if k == "call":
                    expr, args, body = st[1], st[2], st[3]
                else:
                    expr = "%s.%s(%s)" % (st[1], st[2], ", ".join("%s=(%s)" % (a, py) for a, py in st[3]))
                    args, body = None, st[4]
                inner = [d for d in body if d[0] == "def"]
                body = [x for x in body if x[0] != "def"]
                for d in inner:
                    self.nested_def(d)
                e.w("def %s(%s):" % (fn, args or ""))
                e.ind += 1
                self.prologue(fn)
                self.stmts(body, {"top": False})
                e.w("return ''")
                e.ind -= 1
                exports = "".join(", %r: %s" % (d[1], d[1]) for d in inner)
                e.w("__rt.set_next_caller({'body': %s%s})" % (fn, exports))
                e.w("try:")
                e.w("    __rt.write(__str(%s))" % expr)
                e.w("finally:")
                e.w("    __rt.clear_next_caller()")
            else:
                raise ValueError(k)

    def callable_body(self, fname, body, is_body=False):
        e = self.e
        e.w("__rt.push_frame()")
        e.w("try:")
        e.ind += 1
        self.prologue(fname, is_body)
        self.stmts(body, {"top": is_body})
        e.w("return ''")
        e.ind -= 1
        e.w("finally:")
        e.w("    __rt.pop_frame()")

    def nested_def(self, st):
        e = self.e
        name = st[1]
        assert name not in self.generated, "def names are unique in a program"
        self.generated.add(name)
        e.w("def %s(%s):" % (name, st[2]))
        e.ind += 1
        self.callable_body(name, st[3])
        e.ind -= 1

    def gen(self):
        e = self.e
        f = self.f
        for src in f.get("module") or []:
            e.block(src)
        # the body
        page = f.get("page")
        self.generated.add("__body")
        e.w("def __body(context%s, **pageargs):" % (", " + page if page else ""))
        e.ind += 1
        # names a def called by its bare name from the body sees on top of the context
        over = list(_param_names(page))
        for st in f["body"]:
            if st[0] == "code":
                for n in _bound_by_code(st[1]):
                    if n not in over:
                        over.append(n)
        e.w("def __view():")
        e.w("    __d = {}")
        for n in over:
            e.w("    try: __d[%r] = %s" % (n, n))
            e.w("    except __NameError: pass")
        e.w("    return context.overlay(__d) if __d else context")
        self.inside_body = True
        self.callable_body("__body", f["body"], is_body=True)
        self.inside_body = False
        e.ind -= 1
        # top-level defs and named blocks
        done = 0
        while done < len(self.module_level):
            st = self.module_level[done]
            done += 1
            if st[0] == "def":
                fn = "__def_" + st[1]
                self.generated.add(fn)
                e.w("def %s(context%s):" % (fn, ", " + st[2] if st[2].strip() else ""))
                e.ind += 1
                self.callable_body(fn, st[3])
                e.ind -= 1
            else:
                fn = "__blk_" + st[1]
                self.generated.add(fn)
                e.w("def %s(context, **pageargs):" % fn)
                e.ind += 1
                self.callable_body(fn, st[2])
                e.ind -= 1
        return "\n".join(e.lines) + "\n"


_FIXED = {"UNDEFINED", "STOP_RENDERING", "context"}


def _free_names(src, generated, module_names):
    """function name -> names Python leaves global in that generated callable (and in the lambdas,
    comprehensions, classes and plain Python functions written inside it)"""
    top = symtable.symtable(src, "<ref>", "exec")
    res = {}

    def collect(t, acc):
        for s in t.get_symbols():
            n = s.get_name()
            if s.is_global() and not s.is_declared_global() and s.is_referenced():
                if not n.startswith("__") and n not in _FIXED and n not in module_names and n not in acc:
                    acc.append(n)
        for c in t.get_children():
            if c.get_name() not in generated and c.get_name() != "__view":
                collect(c, acc)

    def walk(t):
        for c in t.get_children():
            if c.get_name() in generated:
                acc = []
                collect(c, acc)
                res[c.get_name()] = sorted(acc)
            walk(c)

    walk(top)
    return res


def translate_file(uri, f):
    module_names = set()
    for src in f.get("module") or []:
        module_names.update(_bound_by_code(src))
    g0 = _FileGen(uri, f, None)
    src0 = g0.gen()
    pro = _free_names(src0, g0.generated, module_names)
    g1 = _FileGen(uri, f, pro)
    return g1.gen()


def run(prog, ctx, strict=False):
    """normalized program, render arguments -> ("out", text) | ("exc", class name, message)"""
    rt = Runtime(strict)
    try:
        for uri, f in prog["files"].items():
            rt.info[uri] = {"imports": {}}
            for ent in f.get("nsimport") or []:
                nsuri, names = ent[0], ent[1]
                owner = ent[2] if len(ent) > 2 else nsuri
                for n in [x.strip() for x in names.split(",")]:
                    if n != "*":
                        rt.info[uri]["imports"][n] = owner
        for uri, f in prog["files"].items():
            src = translate_file(uri, f)
            g = {"__rt": rt, "__str": str, "__NameError": NameError, "UNDEFINED": rt.UNDEFINED, "STOP_RENDERING": "", "__name__": "ref_" + uri}
            exec(compile(src, "<ref:%s>" % uri, "exec"), g)
            rt.mods[uri] = g
        main = prog["main"]
        data = dict(ctx)
        plain = RefContext(data, dict(ctx))
        rt.plain = plain
        data["caller"] = _Caller(rt)
        data["self"] = data["local"] = _Namespace(rt, rt.mods[main], plain)
        rt.mods[main]["__body"](plain, **ctx)
    except Exception as e:  # noqa
        if rt.missing is not None and type(e) is NameError and str(e) == "'%s' is not defined" % rt.missing[0]:
            return ("exc", "NameError", str(e), list(rt.missing))
        return ("exc", type(e).__name__, str(e))
    return ("out", "".join(rt.buf))


def source(prog):
    """the translated Python (for reports)"""
    return {uri: translate_file(uri, f) for uri, f in prog["files"].items()}
