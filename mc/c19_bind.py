"""C19 helper: binding-analysis cases (binder form x reader placement x position).

Every case is a pair (Mako template, native Python program).  The native program
is the "same code inside a Python function whose free names are supplied by the
template's namespace":

    module code  (what <%! %> / a top-level def's default does at import), run in
                 a namespace holding `mod` names;
    body code    wrapped in  def __body(): ...  and run with globals = the names
                 the module code bound + the context names.

Observations are written  [[${N19(v)}]]  in the template and  __o(v)  natively.
CPython decides what is free and what is bound; nothing here analyses scopes.
"""

# ---------------------------------------------------------------- expression binder forms
# (label, expression, free names, privately bound names)
EXPRS = [
    # free names whose supplied VALUE is None / false: present is present (strict_undefined reads them by subscript)
    ("free.none-valued-name", "(NN19, z)", ["NN19", "z"], []),
    ("free.none-valued-name-called-like-a-builtin", "(format, z)", ["format", "z"], []),
    ("free.false-valued-names", "(F19, E19, z)", ["F19", "E19", "z"], []),
    ("comp.list", "[i for i in R]", ["R"], ["i"]),
    ("comp.set", "sorted({i for i in R})", ["R"], ["i"]),
    ("comp.dict", "{i: z for i in R}", ["R", "z"], ["i"]),
    ("comp.gen", "list(i for i in R)", ["R"], ["i"]),
    ("comp.if", "[i for i in R if i != z]", ["R", "z"], ["i"]),
    ("comp.two-for", "[j for i in RR for j in i]", ["RR"], ["i", "j"]),
    ("comp.nested", "[[j for j in i] for i in RR]", ["RR"], ["i", "j"]),
    ("comp.tuple-target", "[a + b for a, b in PP]", ["PP"], ["a", "b"]),
    ("comp.starred-target", "[(a, b) for a, *b in P3]", ["P3"], ["a", "b"]),
    ("comp-in-lambda.elt-free", "(lambda p: [z for i in R])(1)", ["R", "z"], ["p", "i"]),
    ("comp-in-lambda.if-free", "(lambda p: [i for i in R if i != z])(1)", ["R", "z"], ["p", "i"]),
    ("comp-in-lambda.reads-param", "(lambda p: [p for i in R])(z)", ["R", "z"], ["p", "i"]),
    ("comp-in-lambda.dict-value-free", "(lambda p: {i: z for i in R})(1)", ["R", "z"], ["p", "i"]),
    ("comp-in-lambda.second-iter-free", "(lambda p: [j for i in R for j in RR])(1)", ["R", "RR"], ["p", "i", "j"]),
    # the iterable of a comprehension is evaluated in the ENCLOSING scope: a name read there is free even when the clause's own
    # target is spelled the same
    ("comp-in-lambda.iter-reads-the-target-name", "(lambda p: [R for R in R])(1)", ["R"], ["p"]),
    ("comp-in-lambda.iter-reads-the-target-name-gen", "(lambda p: list(R + 0 for R in R if R))(1)", ["R"], ["p"]),
    ("comp-in-lambda.second-clause-reads-first-target", "(lambda p: [j for i in RR for j in i])(1)", ["RR"], ["p", "i", "j"]),
    ("lambda.pos", "(lambda p: (p, z))(1)", ["z"], ["p"]),
    ("lambda.posonly", "(lambda p, /: (p, z))(1)", ["z"], ["p"]),
    ("lambda.default", "(lambda p=z: p)()", ["z"], ["p"]),
    ("lambda.vararg", "(lambda *a: (a, z))(1)", ["z"], ["a"]),
    ("lambda.kwonly", "(lambda *, k: (k, z))(k=1)", ["z"], ["k"]),
    ("lambda.kwonly-default", "(lambda *, k=z: k)()", ["z"], ["k"]),
    ("lambda.kwarg", "(lambda **kw: (kw, z))(q=1)", ["z"], ["kw"]),
    ("lambda.nested", "(lambda p: (lambda q: (p, q, z))(2))(1)", ["z"], ["p", "q"]),
    ("lambda.in-comp", "[(lambda p: p + z)(i) for i in R]", ["R", "z"], ["p", "i"]),
    ("lambda.vararg-in-comp", "[(lambda *a: a)(i) for i in R]", ["R"], ["a", "i"]),
    ("walrus.same-expression", "[(w := z), w]", ["z"], []),
    ("walrus.in-comp", "[(w := i) + w for i in R]", ["R"], ["i"]),
    ("fstring", "f'{z!r:>{R[0] + 3}}'", ["R", "z"], []),
    ("fstring.comp", "f'{[i for i in R]}'", ["R"], ["i"]),
    ("genexp-sole-argument", "sum(i for i in R)", ["R"], ["i"]),
    # a name bound inside a lambda body (comprehension variable, := target, parameter) and read as a FREE name later in the
    # same piece of code: the inner binding is private to the lambda, the later read comes from the namespace
    ("after-lambda.listcomp-variable", "((lambda s: [i for i in s])(R), i)", ["R", "i"], ["s"]),
    ("after-lambda.genexp-variable", "((lambda s: sorted(i for i in s))(R), i)", ["R", "i"], ["s"]),
    ("after-lambda.setcomp-variable", "((lambda s: sorted({i for i in s}))(R), i)", ["R", "i"], ["s"]),
    ("after-lambda.dictcomp-variable", "((lambda s: {i: 1 for i in s})(R), i)", ["R", "i"], ["s"]),
    ("after-lambda.comp-condition-variable", "((lambda s: [1 for i in s if i])(R), i)", ["R", "i"], ["s"]),
    ("after-lambda.walrus-target", "((lambda s: (w := s))(R), w)", ["R", "w"], ["s"]),
    ("after-lambda.nested-lambda-comp-variable", "((lambda s: (lambda t: [i for i in t])(s))(R), i)", ["R", "i"], ["s"]),
    ("after-lambda.parameter", "((lambda p: p)(z), p)", ["z", "p"], []),
    ("after-lambda.vararg-parameter", "((lambda *a: a)(z), a)", ["z", "a"], []),
    ("after-lambda.kwonly-parameter", "((lambda *, k=1: k)(), k)", ["k"], []),
    ("after-lambda.two-lambdas", "((lambda s: [i for i in s])(R), (lambda s: [j for j in s])(R), i, j)", ["R", "i", "j"], ["s"]),
    ("after-comp.lambda-in-element", "([(lambda: [i for i in R])() for q in R], i)", ["R", "i"], ["q"]),
    ("attribute-name", "z.real", ["z"], []),
    ("keyword-argument-name", "dict(k=z)", ["z"], []),
]

# ---------------------------------------------------------------- statement binder forms
# (label, code, free names, privately bound names (readable outside only as free names), leaking names)
STMTS = [
    ("def.pos", "def g(p):\n    return (p, z)\nr19 = g(1)", ["z"], ["p"]),
    ("def.posonly", "def g(p, /):\n    return (p, z)\nr19 = g(1)", ["z"], ["p"]),
    ("def.default", "def g(p=z):\n    return p\nr19 = g()", ["z"], ["p"]),
    ("def.vararg", "def g(*a):\n    return (a, z)\nr19 = g(1)", ["z"], ["a"]),
    ("def.kwonly", "def g(*, k):\n    return (k, z)\nr19 = g(k=1)", ["z"], ["k"]),
    ("def.kwonly-default", "def g(*, k=z):\n    return k\nr19 = g()", ["z"], ["k"]),
    ("def.kwarg", "def g(**kw):\n    return (kw, z)\nr19 = g(q=1)", ["z"], ["kw"]),
    ("def.all-parameter-kinds",
     "def g(a, /, b, c=z, *e, k, k2=z, **kw):\n    t = (a, b, c, e, k, k2, kw)\n    return t\nr19 = g(1, 2, k=3, m=4)",
     ["z"], ["a", "b", "c", "e", "k", "k2", "kw", "t"]),
    ("def.annotation", "def g(p: A19 = 1) -> A19:\n    return p\nr19 = g()", ["A19"], ["p"]),
    ("def.decorator", "@D19\ndef g():\n    return z\nr19 = g()", ["D19", "z"], []),
    ("def.nested-local", "def g():\n    t = z\n    def h():\n        u = t\n        return u\n    return h()\nr19 = g()",
     ["z"], ["t", "u", "h"]),
    ("def.nonlocal",
     "def g():\n    t = z\n    def h():\n        nonlocal t\n        t = t + 1\n    h()\n    return t\nr19 = g()", ["z"], ["t", "h"]),
    ("def.local-comp-elt-free", "def g():\n    return [z for i in R]\nr19 = g()", ["R", "z"], ["i"]),
    ("def.local-comp-if-free", "def g():\n    return [i for i in R if i != z]\nr19 = g()", ["R", "z"], ["i"]),
    ("def.inner-lambda-vararg", "def g():\n    return (lambda *a: a)(z)\nr19 = g()", ["z"], ["a"]),
    ("def.local-for-target", "def g():\n    for a, *b in P3:\n        pass\n    return (a, b)\nr19 = g()", ["P3"], ["a", "b"]),
    ("after-lambda.assigned-comp-variable", "g = lambda s: [i * i for i in s]\nr19 = (i, g(R))", ["R", "i"], []),
    ("after-lambda.assigned-walrus-target", "g = lambda s: (w := s)\nr19 = (g(R), w)", ["R", "w"], []),
    ("after-lambda.inside-def-body",
     "def g(rows):\n    width = lambda row: max(c for c in row)\n    return [width(r) for r in rows], c\nr19 = g(RR)", ["RR", "c"], ["rows", "row", "r"]),
    ("after-lambda.inside-def-body-walrus",
     "def g(rows):\n    first = lambda row: (h := row[0])\n    return first(rows), h\nr19 = g(RR)", ["RR", "h"], ["rows", "row"]),
    ("after-def.comp-variable", "def g(s):\n    return [i for i in s]\nr19 = (g(R), i)", ["R", "i"], ["s"]),
    ("after-def.local-variable", "def g(s):\n    t = s\n    return t\nr19 = (g(R), t)", ["R", "t"], ["s"]),
    ("after-def.parameter", "def g(p):\n    return p\nr19 = (g(z), p)", ["z", "p"], []),
    ("after-def.nested-def-comp-variable",
     "def g(s):\n    def h(u):\n        return [i for i in u]\n    return h(s), i\nr19 = g(R)", ["R", "i"], ["s", "u", "h"]),
    ("lambda-assigned.vararg-kwonly", "g = lambda *a, k=z: (a, k)\nr19 = g(1)", ["z"], ["a", "k"]),
    ("except-as", "try:\n    raise ValueError(z)\nexcept ValueError as e:\n    r19 = e.args", ["z"], []),
    ("with-as", "with cm19(z) as w:\n    r19 = w", ["z"], []),
    ("with-as-tuple", "with cm19((z, 1)) as (a, b):\n    r19 = (a, b)", ["z"], []),
    ("for.tuple-target", "for a, b in PP:\n    r19 = (a, b)", ["PP"], []),
    ("for.starred-target", "for a, *b in P3:\n    r19 = (a, b)", ["P3"], []),
    ("for.else", "for a in R:\n    pass\nelse:\n    r19 = (a, z)", ["R", "z"], []),
    # a local name bound for the first time inside a compound statement of a function, read after it
    ("def.first-bound-in-except-as-handler", "def g():\n    try:\n        raise ValueError(z)\n    except ValueError as e:\n        fb = e.args\n    return fb\nr19 = g()", ["z"], ["e", "fb"]),
    ("def.first-bound-in-except-handler", "def g():\n    try:\n        raise ValueError(z)\n    except ValueError:\n        fb = z\n    return fb\nr19 = g()", ["z"], ["fb"]),
    ("def.first-bound-in-except-star-handler", "def g():\n    try:\n        raise ExceptionGroup('g', [ValueError(z)])\n    except* ValueError as eg:\n        fb = eg.exceptions[0].args\n    return fb\nr19 = g()", ["z"], ["eg", "fb"]),
    ("def.first-bound-in-try-else", "def g():\n    try:\n        pass\n    except ValueError:\n        pass\n    else:\n        fb = z\n    return fb\nr19 = g()", ["z"], ["fb"]),
    ("def.first-bound-in-finally", "def g():\n    try:\n        pass\n    finally:\n        fb = z\n    return fb\nr19 = g()", ["z"], ["fb"]),
    ("def.first-bound-in-with-body", "def g():\n    with cm19(z) as w:\n        fb = w\n    return fb\nr19 = g()", ["z"], ["w", "fb"]),
    ("def.first-bound-in-for-body", "def g():\n    for a in R:\n        fb = (a, z)\n    return fb\nr19 = g()", ["R", "z"], ["a", "fb"]),
    ("def.first-bound-in-for-else", "def g():\n    for a in R:\n        pass\n    else:\n        fb = z\n    return fb\nr19 = g()", ["R", "z"], ["a", "fb"]),
    ("def.first-bound-in-while-body", "def g():\n    while True:\n        fb = z\n        break\n    return fb\nr19 = g()", ["z"], ["fb"]),
    ("def.first-bound-in-if-else", "def g():\n    if z is None:\n        fb = 0\n    else:\n        fb = z\n    return fb\nr19 = g()", ["z"], ["fb"]),
    ("def.first-bound-in-match-case", "def g():\n    match z:\n        case _:\n            fb = z\n    return fb\nr19 = g()", ["z"], ["fb"]),
    ("def.first-bound-in-nested-handler-of-inner-def", "def g():\n    def h():\n        try:\n            raise KeyError(z)\n        except KeyError as e:\n            fb = e.args\n        return fb\n    return h()\nr19 = g()", ["z"], ["e", "fb", "h"]),
    ("lambda-after-handler", "def g():\n    try:\n        raise ValueError(z)\n    except ValueError as e:\n        fb = e.args\n    k = lambda: fb\n    return k()\nr19 = g()", ["z"], ["e", "fb", "k"]),
    ("def.comp-iter-reads-the-target-name", "def g():\n    return [R for R in R]\nr19 = g()", ["R"], []),
    ("import.dotted3", "import xml.sax.saxutils\nr19 = xml.sax.saxutils.escape('<')", [], []),
    ("import.dotted3-two", "import os, xml.sax.saxutils\nr19 = (os.sep, xml.sax.saxutils.escape('<'))", [], []),
    ("import.as", "import os.path as q\nr19 = q.sep", [], []),
    ("import.dotted", "import os.path\nr19 = os.sep", [], []),
    ("from-import", "from os import path as q, sep\nr19 = (q.sep, sep)", [], []),
    ("walrus.if", "if (w := z) is not None:\n    r19 = w", ["z"], []),
    ("class.body", "class C:\n    m = z\n    u = m\nr19 = C.u", ["z"], ["m", "u"]),
    ("class.base", "class C(B19):\n    pass\nr19 = C.__mro__[1].__name__", ["B19"], []),
    ("class.method-vararg", "class C:\n    def m(self, *a):\n        return (a, z)\nr19 = C().m(1)", ["z"], ["a", "self"]),
    ("match.sequence", "match P3:\n    case [(p, *q)]:\n        r19 = (p, q)", ["P3"], []),
    ("match.mapping", "match {'k': z}:\n    case {'k': v, **rest}:\n        r19 = (v, rest)", ["z"], []),
    ("match.as", "match z:\n    case int() as n:\n        r19 = n", ["z"], []),
    ("match.guard", "match z:\n    case p if p == z:\n        r19 = p", ["z"], []),
    ("comp.assigned", "r19 = [i for i in R]", ["R"], ["i"]),
    ("augassign", "r19 = 1\nr19 += z", ["z"], []),
    ("annassign", "r19: int = z", ["z"], []),
    ("del", "t = z\nr19 = t\ndel t", ["z"], []),
    ("try-finally", "try:\n    r19 = z\nfinally:\n    t = R", ["R", "z"], []),
    ("while-else", "while False:\n    pass\nelse:\n    r19 = z", ["z"], []),
]

# ---------------------------------------------------------------- control-line binder forms
# (label, template lines, native body, free names)
CTLS = [
    ("ctl.for.tuple-target", "% for a, b in PP:\n[[${N19((a, b))}]]\n% endfor\n", "for a, b in PP:\n    __o((a, b))", ["PP"]),
    ("ctl.for.starred-target", "% for a, *b in P3:\n[[${N19((a, b))}]]\n% endfor\n", "for a, *b in P3:\n    __o((a, b))", ["P3"]),
    ("ctl.for.comp-iter", "% for q in [i for i in R]:\n[[${N19(q)}]]\n% endfor\n", "for q in [i for i in R]:\n    __o(q)", ["R"]),
    ("ctl.for.lambda-vararg-iter", "% for q in (lambda *a: a)(z):\n[[${N19(q)}]]\n% endfor\n",
     "for q in (lambda *a: a)(z):\n    __o(q)", ["z"]),
    ("ctl.with-as", "% with cm19(z) as w:\n[[${N19(w)}]]\n% endwith\n", "with cm19(z) as w:\n    __o(w)", ["z"]),
    ("ctl.except-as", "% try:\n<% raise ValueError(z) %>\n% except ValueError as e:\n[[${N19(e.args)}]]\n% endtry\n",
     "try:\n    raise ValueError(z)\nexcept ValueError as e:\n    __o(e.args)", ["z"]),
    ("ctl.if-walrus", "% if (w := z) is not None:\n[[${N19(w)}]]\n% endif\n", "if (w := z) is not None:\n    __o(w)", ["z"]),
    ("ctl.if-comp", "% if [i for i in R if i != z]:\n[[${N19(z)}]]\n% endif\n", "if [i for i in R if i != z]:\n    __o(z)", ["R", "z"]),
    ("ctl.while-lambda-kwonly", "% while (lambda *, k=z: k)() is None:\n% endwhile\n[[${N19(z)}]]\n",
     "while (lambda *, k=z: k)() is None:\n    pass\n__o(z)", ["z"]),
    ("ctl.elif-comp", "% if not z:\n% elif [i for i in R]:\n[[${N19(R)}]]\n% endif\n", "if not z:\n    pass\nelif [i for i in R]:\n    __o(R)", ["R", "z"]),
]

NESTED_DEF_NAMES = ["n19a", "n19b", "n19c", "n19d", "n19e", "n19f", "n19g", "n19h"]

EXPR_POSITIONS = [
    "expr", "ctl-if", "ctl-for", "code", "code-in-def", "module", "def-body", "def-default-top",
    "call-expr", "nscall-attr", "filter-arg", "block-filter", "def-kwdefault-nested", "filter-pair-then", "filter-pair-before", "def-filter-pair",
] + ["def-default-nested:" + n for n in NESTED_DEF_NAMES]
STMT_POSITIONS = ["code", "code-in-def", "code-in-ctl", "module"]


def free_values(env):
    """values of the free names, derived from the seeded environment"""
    x, y, z = env["x"], env["y"], env["z"]

    class B19:
        pass

    return {
        "R": [1, y],
        "RR": [[1], [y]],
        "PP": [(1, y)],
        "P3": [(1, y, x)],
        "z": z,
        "A19": int,
        "B19": B19,
        "D19": (lambda fn: fn),
        "NN19": None,
        "format": None,
        "F19": 0,
        "E19": "",
    }


def _ind(code, n=1):
    pad = "    " * n
    return "\n".join(pad + l if l else l for l in code.split("\n"))


def expr_case(label, E, free, bound, pos, outside):
    """-> dict(template, mod, body, mod_names, ctx_names) or None when the position cannot spell E"""
    obs_t = ("[[${N19(%s)}]]" % outside) if outside else ""
    obs_n = ("\n__o(%s)" % outside) if outside else ""
    mod = ""
    mod_names, ctx_names = [], list(free)
    if pos == "expr":
        t = "[[${N19(%s)}]]%s" % (E, obs_t)
        body = "__o(%s)%s" % (E, obs_n)
    elif pos == "ctl-if":
        t = "%% if N19(%s):\n[[${N19(1)}]]\n%% endif\n%s" % (E, obs_t)
        body = "if N19(%s):\n    __o(1)%s" % (E, obs_n)
    elif pos == "ctl-for":
        t = "%% for q19 in [%s]:\n[[${N19(q19)}]]\n%% endfor\n%s" % (E, obs_t)
        body = "for q19 in [%s]:\n    __o(q19)%s" % (E, obs_n)
    elif pos == "code":
        t = "<%% r19 = %s %%>[[${N19(r19)}]]%s" % (E, obs_t)
        body = "r19 = %s\n__o(r19)%s" % (E, obs_n)
    elif pos == "code-in-def":
        t = '<%%def name="d19()"><%% r19 = %s %%>[[${N19(r19)}]]%s</%%def>${d19()}' % (E, obs_t)
        body = "r19 = %s\n__o(r19)%s" % (E, obs_n)
    elif pos == "module":
        t = "<%%! r19 = %s %%>[[${N19(r19)}]]%s" % (E, obs_t)
        mod = "r19 = %s" % E
        body = "__o(r19)%s" % obs_n
        mod_names, ctx_names = list(free), []
    elif pos == "def-body":
        t = '<%%def name="d19()">[[${N19(%s)}]]%s</%%def>${d19()}' % (E, obs_t)
        body = "__o(%s)%s" % (E, obs_n)
    elif pos == "def-default-top":
        if '"' in E:
            return None
        t = '<%%def name="t19(a19=%s)">[[${N19(a19)}]]%s</%%def>${t19()}' % (E, obs_t)
        # the default is evaluated when the module is imported and again where the def is made callable in the body:
        # its free names have to be module-level names
        mod = "__d19 = %s" % E
        body = "def t19(a19=%s):\n    __o(a19)%s\nt19()" % (E, _ind(obs_n))
        mod_names, ctx_names = list(free), []
    elif pos.startswith("def-default-nested:"):
        if '"' in E:
            return None
        nme = pos.split(":")[1]
        t = '<%%def name="o19()"><%%def name="%s(a19=%s)">[[${N19(a19)}]]</%%def>${%s()}%s</%%def>${o19()}' % (nme, E, nme, obs_t)
        body = "def %s(a19=%s):\n    __o(a19)\n%s()%s" % (nme, E, nme, obs_n)
    elif pos == "def-kwdefault-nested":
        if '"' in E:
            return None
        t = '<%%def name="o19()"><%%def name="k19(*, a19=%s)">[[${N19(a19)}]]</%%def>${k19()}%s</%%def>${o19()}' % (E, obs_t)
        body = "def k19(*, a19=%s):\n    __o(a19)\nk19()%s" % (E, obs_n)
    elif pos == "call-expr":
        if '"' in E:
            return None
        t = '<%%def name="c19(a19)">[[${N19(a19)}]]</%%def><%%call expr="c19(%s)"></%%call>%s' % (E, obs_t)
        body = "__o(%s)%s" % (E, obs_n)
    elif pos == "nscall-attr":
        if '"' in E or "}" in E:
            return None
        t = '<%%def name="c19(a19)">[[${N19(a19)}]]</%%def><%%self:c19 a19="${%s}"/>%s' % (E, obs_t)
        body = "__o(%s)%s" % (E, obs_n)
    elif pos == "filter-arg":
        t = "[[${0 | G19(%s)}]]%s" % (E, obs_t)
        body = "__o(((%s,), []))%s" % (E, obs_n)
    elif pos in ("filter-pair-then", "filter-pair-before", "def-filter-pair"):
        # a filter list of two items: one holds E (which may bind names inside itself), the other reads the same name freely
        if not outside or (pos == "def-filter-pair" and '"' in E):
            return None
        a, b = ("G19(%s)" % E, "G19(%s)" % outside) if pos != "filter-pair-before" else ("G19(%s)" % outside, "G19(%s)" % E)
        last = outside if pos != "filter-pair-before" else E
        if pos == "def-filter-pair":
            t = '<%%def name="f19()" filter="%s, %s">t</%%def>[[${f19()}]]' % (a, b)
        else:
            t = "[[${0 | %s, %s}]]" % (a, b)
        body = "__o(((%s,), []))" % last
        return {"template": t, "mod": mod, "body": body, "mod_names": mod_names, "ctx_names": ctx_names + [outside]}
    elif pos == "block-filter":
        if '"' in E:
            return None
        t = '[[<%%block filter="G19(%s)">t</%%block>]]%s' % (E, obs_t)
        body = "__o(((%s,), []))%s" % (E, obs_n)
    else:
        raise AssertionError(pos)
    if outside:
        ctx_names = ctx_names + [outside]
    return {"template": t, "mod": mod, "body": body, "mod_names": mod_names, "ctx_names": ctx_names}


def stmt_case(label, code, free, bound, pos, outside):
    obs_t = "[[${N19(r19)}]]" + (("[[${N19(%s)}]]" % outside) if outside else "")
    obs_n = "__o(r19)" + (("\n__o(%s)" % outside) if outside else "")
    mod = ""
    mod_names, ctx_names = [], list(free)
    block = "<%%%s\n%s\n%%>" % ("!" if pos == "module" else "", code)
    if pos == "code":
        t = block + obs_t
        body = code + "\n" + obs_n
    elif pos == "code-in-def":
        t = '<%def name="d19()">' + block + obs_t + "</%def>${d19()}"
        body = code + "\n" + obs_n
    elif pos == "code-in-ctl":
        t = "% if True:\n" + block + obs_t + "\n% endif\n"
        body = "if True:\n" + _ind(code + "\n" + obs_n)
    elif pos == "module":
        t = block + obs_t
        mod = code
        body = obs_n
        mod_names, ctx_names = list(free), []
        if "cm19" in code:
            mod_names.append("cm19")
    else:
        raise AssertionError(pos)
    if outside:
        ctx_names = ctx_names + [outside]
    return {"template": t, "mod": mod, "body": body, "mod_names": mod_names, "ctx_names": ctx_names}


def ctl_case(label, tmpl, native, free):
    return {"template": tmpl, "mod": "", "body": native, "mod_names": [], "ctx_names": list(free)}
