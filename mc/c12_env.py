"""C12 helper objects that templates of the C12 corpus may find in their render context.

A context value written "@helper:<name>" in a corpus entry (see mc.props.c12.corpus) stands
for the module-level object <name> of this module, so that another process can rebuild
the context with `resolve_ctx`.
This module never imports mako: frames of its functions are "ordinary Python module"
frames in the sense of the property statement.
"""


class Boom(Exception):
    """The planted failure raised from ordinary Python code."""


def boom(*args):
    raise Boom("planted")


def badfilter(text):
    raise Boom("planted filter")


class BaseBoom(BaseException):
    """A planted failure that is not an Exception subclass."""


def bexit_custom(*args):
    raise BaseBoom("planted base exception")


def bexit_system(*args):
    raise SystemExit(3)


def bexit_keyboard(*args):
    raise KeyboardInterrupt()


def bexit_generator(*args):
    raise GeneratorExit()


# interchangeable ways to fail with a BaseException that is not an Exception (picked by the seed)
POOL_BEXIT = ["bexit_custom", "bexit_system", "bexit_keyboard", "bexit_generator"]


def ident(*args):
    """Return the first argument (used by multi-line expressions)."""
    return args[0]


def resolve_ctx(ctx):
    out = {}
    for k, v in ctx.items():
        if isinstance(v, str) and v.startswith("@helper:"):
            out[k] = globals()[v[len("@helper:"):]]
        else:
            out[k] = v
    return out


# filler words of template text.  Each carries one character that str.splitlines() treats as a line boundary but
# that is not a line end of a template (only "\n" is): form feed, LINE SEPARATOR, NEL, FILE SEPARATOR.
POOL_WORD = ["a\x0cb", "x\u2028é", "Q\x85ж", "z\x1c中"]
PLAIN_WORD = "ab"  # used by corpus(): plain text for the cross-path property
POOL_VAL = ["val", "Väl", "vф", "中v"]


def base_ctx(seed=0):
    """JSON-able context of every corpus program."""
    return {
        "v": POOL_VAL[seed % len(POOL_VAL)],
        "seq": [1, 2],
        "cT": True,
        "cF": False,
        "boom": "@helper:boom",
        "badfilter": "@helper:badfilter",
        "ident": "@helper:ident",
        "bexit": "@helper:" + POOL_BEXIT[seed % len(POOL_BEXIT)],
    }
