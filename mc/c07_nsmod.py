"""C07 helper: the Python module that `<%namespace module="mc.c07_nsmod">` names.

The public callables follow the protocol documented in
doc/build/namespaces.rst ("Namespaces from Regular Python Modules"): first
argument is the context, the function writes to it and returns '' (or returns
the text).  `wrap` is decorated with the real `mako.runtime.supports_caller`
(that decorator is part of what is checked); the reference interpreter calls
the undecorated `_wrap` with its own context object and does the caller-frame
handling itself.

Imported only from inside a template / a worker (after mc.core.bind_repo()).
Public callables are exactly: plain, ret, wrap  (import="*" exposes these).
"""

from mako.runtime import supports_caller as _supports_caller


def plain(context, x="p"):
    context.write("P(%s)" % (x,))
    return ""


def ret(context, x="r"):
    return "R(%s|%s)" % (x, context.get("x", "nox"))


def _wrap(context, tag="w"):
    context.write("<%s>" % tag)
    context["caller"].body()
    context.write("</%s>" % tag)
    return ""


wrap = _supports_caller(_wrap)

# for the reference interpreter: name -> (undecorated function, needs a caller frame)
REF = {"plain": (plain, False), "ret": (ret, False), "wrap": (_wrap, True)}
