"""C09 family "relroots": template directories and the module directory spelled relatively to the current
directory (with './', '..' and trailing separators), two roots, and histories in which a URI moves from one root to
the other (its file is removed from / restored in a root between two fetches) on ONE lookup.

Oracles after every history (the process has its own current directory: every history runs in a forked child):
  * every Template returned has its source file inside one of the two configured directories (real paths);
  * the only files that exist afterwards, besides the tree the history itself set up / changed, lie beneath the
    configured module directory;
  * a fetch raises nothing but the documented lookup exceptions.

Nothing here imports mako at import time.
"""

import itertools
import os
import shutil

ROOT1 = ["tmpl", "./tmpl/", "{ABS}/app/tmpl"]
ROOT2 = ["../shared", "../shared/", "./../shared", "../app/../shared/.", "{ABS}/shared"]
MODS = ["mods", "./mods/", "../app/mods", "{ABS}/app/mods"]
OPS = ["get", "rm1", "add1", "rm2", "add2"]
URIS = ["page.html", "sub/page.html"]


def configs(tier):
    if tier == "quick":
        r1, r2, ms = ROOT1[:2], ROOT2[:4], MODS[:3]
    else:
        r1, r2, ms = ROOT1, ROOT2, MODS
    for a in r1:
        for b in r2:
            for m in ms:
                yield {"root1": a, "root2": b, "mods": m}


def histories(tier):
    n = 4 if tier == "quick" else 5
    for k in range(1, n + 1):
        for seq in itertools.product(OPS, repeat=k):
            if seq[-1] != "get":
                continue  # a history is judged after a fetch
            yield list(seq)


def cases(tier):
    for cfg in configs(tier):
        for uri in URIS:
            for h in histories(tier):
                yield {"kind": "relroots", "cfg": cfg, "uri": uri, "ops": h}


def _tree(T):
    out = set()
    for root, _dirs, files in os.walk(T):
        for f in files:
            out.add(os.path.relpath(os.path.join(root, f), T))
    return out


def run_case(case, T):
    """-> None or (sig, oracle, expected, observed); runs with the current directory changed: call in a child process"""
    from mako import exceptions
    from mako.lookup import TemplateLookup

    cfg, uri, ops = case["cfg"], case["uri"], case["ops"]
    T = os.path.realpath(T)
    for d in ("app/tmpl/sub", "shared/sub", "app/mods", "elsewhere"):
        os.makedirs(os.path.join(T, d), exist_ok=True)
    p1 = os.path.join(T, "app", "tmpl", uri)
    p2 = os.path.join(T, "shared", uri)
    stamp = [1000]

    def put(p, text):
        with open(p, "w") as f:
            f.write(text)
        stamp[0] += 10
        os.utime(p, (stamp[0], stamp[0]))

    put(p1, "ROOT1 ${1+1}")
    put(p2, "ROOT2 ${1+1}")
    put(os.path.join(T, "elsewhere", "secret.txt"), "SECRET")
    os.chdir(os.path.join(T, "app"))
    sub = lambda s: s.replace("{ABS}", T)  # noqa
    lk = TemplateLookup(directories=[sub(cfg["root1"]), sub(cfg["root2"])], module_directory=sub(cfg["mods"]))
    roots = [os.path.join(T, "app", "tmpl") + os.sep, os.path.join(T, "shared") + os.sep]
    expected_files = {os.path.relpath(os.path.join(T, "elsewhere", "secret.txt"), T)}
    have = {p1: True, p2: True}
    for i, op in enumerate(ops):
        if op == "get":
            try:
                t = lk.get_template(uri)
            except exceptions.TemplateLookupException:
                continue
            except Exception as e:  # noqa
                return ("relroots:raises %s" % type(e).__name__, "a fetch raises only the documented lookup exceptions", "template or TemplateLookupException", "%s: %s (step %d)" % (type(e).__name__, str(e)[:120], i))
            fn = os.path.realpath(t.filename or "")
            if not any(fn.startswith(r) for r in roots):
                return ("relroots:template outside the roots", "the source file of every returned Template lies inside a configured directory", roots, fn)
            try:
                out = t.render_unicode()
            except Exception as e:  # noqa
                return ("relroots:render raises %s" % type(e).__name__, "a served template renders", "ROOTn 2", "%s: %s" % (type(e).__name__, str(e)[:120]))
            if out not in ("ROOT1 2", "ROOT2 2"):
                return ("relroots:foreign content", "only content of files inside the configured directories is served", ["ROOT1 2", "ROOT2 2"], out)
        else:
            p = p1 if op.endswith("1") else p2
            if op.startswith("rm"):
                if have[p]:
                    os.unlink(p)
                    have[p] = False
            else:
                put(p, ("ROOT1" if p == p1 else "ROOT2") + " ${1+1}")
                have[p] = True
    for p, h in have.items():
        if h:
            expected_files.add(os.path.relpath(p, T))
    after = _tree(T)
    moddir = os.path.relpath(os.path.join(T, "app", "mods"), T) + os.sep
    stray = sorted(f for f in after - expected_files if not f.startswith(moddir))
    if stray:
        return ("relroots:file created outside module_directory", "generated module files are created only beneath module_directory", "nothing outside " + moddir, stray[:4])
    missing = sorted(expected_files - after)
    if missing:
        return ("relroots:file removed", "the lookup removes no file of the tree", "present", missing[:4])
    return None


def run_in_scratch(case, scratch):
    T = os.path.join(scratch, "w")
    if os.path.isdir(T):
        shutil.rmtree(T)
    os.makedirs(T)
    try:
        return run_case(case, T)
    finally:
        os.chdir("/")
        shutil.rmtree(T, ignore_errors=True)
