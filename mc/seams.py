"""Environment seams installed from outside the repository (DESIGN 2.2)."""

import os
import types


class SimClock:
    """Replacement for the `time` module inside mako.codegen: the moment a
    template is compiled (`_modified_time`) is the simulated clock."""

    def __init__(self, now=1000.0):
        self.now = float(now)

    def time(self):
        return self.now


class LogicalTimer:
    """Replacement for `timeit` inside mako.util: strictly increasing recency stamps."""

    def __init__(self):
        self.n = 0

    def default_timer(self):
        self.n += 1
        return self.n


class Seams:
    """Installs / removes the rebinding of mako module globals."""

    def __init__(self):
        self.saved = []

    def set(self, module, name, value):
        self.saved.append((module, name, getattr(module, name)))
        setattr(module, name, value)

    def restore(self):
        for module, name, old in reversed(self.saved):
            setattr(module, name, old)
        self.saved = []


class Forward:
    """Forwarding proxy for a module: attribute access falls through to the real
    module unless overridden; nested `path` is proxied the same way."""

    def __init__(self, real, overrides=None, path_overrides=None):
        self.__dict__["_real"] = real
        self.__dict__["_ov"] = dict(overrides or {})
        if path_overrides is not None:
            self.__dict__["_ov"]["path"] = Forward(real.path, path_overrides)

    def __getattr__(self, name):
        ov = self.__dict__["_ov"]
        if name in ov:
            return ov[name]
        return getattr(self.__dict__["_real"], name)
