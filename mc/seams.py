"""Environment seams installed from outside the repository (DESIGN 2.2)."""

import os
import types


class SimClock:
    """Replacement for the `time` module inside mako.codegen: the moment a
    template is compiled (`_modified_time`) is the simulated clock."""

    def __init__(self, now=1000.0):
        self.now = float(now)

    def time(self):
        return self.now


class LogicalTimer:
    """Replacement for `timeit` inside mako.util: strictly increasing recency stamps."""

    def __init__(self):
        self.n = 0

    def default_timer(self):
        self.n += 1
        return self.n


class Seams:
    """Installs / removes the rebinding of mako module globals."""

    def __init__(self):
        self.saved = []

    def set(self, module, name, value):
        self.saved.append((module, name, getattr(module, name)))
        setattr(module, name, value)

    def restore(self):
        for module, name, old in reversed(self.saved):
            setattr(module, name, old)
        self.saved = []


def own_clocks(sm, clock, timer=None):
    """Every wall-clock and timer reference any loaded mako module holds is put behind the harness: a module
    global `time` that is the time module answers time() from the simulated whole-second clock, a module global
    `timeit` answers default_timer() from the logical timer.  (Clocks the tree does not use today are owned as
    well, so that a change of clock source is still observed on the simulated clock.)"""
    import sys
    import time as _time
    import timeit as _timeit

    for name, mod in sorted(sys.modules.items()):
        if mod is None or not (name == "mako" or name.startswith("mako.")):
            continue
        if mod.__dict__.get("time") is _time:
            sm.set(mod, "time", Forward(_time, {"time": clock.time}))
        if timer is not None and mod.__dict__.get("timeit") is _timeit:
            sm.set(mod, "timeit", Forward(_timeit, {"default_timer": timer.default_timer}))


class Forward:
    """Forwarding proxy for a module: attribute access falls through to the real
    module unless overridden; nested `path` is proxied the same way."""

    def __init__(self, real, overrides=None, path_overrides=None):
        self.__dict__["_real"] = real
        self.__dict__["_ov"] = dict(overrides or {})
        if path_overrides is not None:
            self.__dict__["_ov"]["path"] = Forward(real.path, path_overrides)

    def __getattr__(self, name):
        ov = self.__dict__["_ov"]
        if name in ov:
            return ov[name]
        return getattr(self.__dict__["_real"], name)


_MEMO = {}


def install_compile_memo(sm, clock):
    """Harness-side speed-up for history explorers that rebuild their world by replay: identical
    (text, uri, filename, simulated clock) compile to identical module source, so lexing / code generation /
    compile() results are memoised per worker process.  Only for checks whose subject is not the compiler."""
    import os

    from mako import template as mtemplate

    if _MEMO.get("pid") != os.getpid():
        _MEMO.clear()
        _MEMO["pid"] = os.getpid()
    memo = _MEMO.setdefault("src", {})
    cmemo = _MEMO.setdefault("code", {})
    real_compile = mtemplate._compile

    def _compile(template, text, filename, generate_magic_comment):
        opts = tuple(
            repr(getattr(template, a, None))
            for a in ("strict_undefined", "enable_loop", "default_filters", "buffer_filters", "imports", "future_imports", "input_encoding", "preprocessor", "lexer_cls", "disable_unicode")
        )
        k = (text, filename, template.uri, template.module_id, generate_magic_comment, clock.now, opts)
        r = memo.get(k)
        if r is None:
            r = memo[k] = real_compile(template, text, filename, generate_magic_comment)
        return r

    def compile_(source, name, mode, *a, **kw):
        k = (source, name, mode)
        r = cmemo.get(k)
        if r is None:
            r = cmemo[k] = compile(source, name, mode, *a, **kw)
        return r

    if "compile" not in mtemplate.__dict__:
        mtemplate.compile = compile  # so that the module global can be rebound and restored
    sm.set(mtemplate, "_compile", _compile)
    sm.set(mtemplate, "compile", compile_)
