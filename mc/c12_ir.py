"""C12: a small template IR, its printer (IR -> Mako source + line positions) and a
reference interpreter (IR -> expected output, or expected chain of template frames
at the planted failure).  Nothing here imports mako or reads Mako syntax: the
reference works on the semantic operations the printer emits next to the source
text, and Python itself (eval/exec/compile with line offsets) is the oracle for
Python semantics and for "which line of a code block raised".

IR (JSON-able nested lists/tuples):
    item  = [kind]                     leaf
          | [kind, [item, ...]]        compound with one body list
    program = {"body": [item...], "nl": "\n" | "\r\n"}

Leaf kinds      t1 t2 e ei em ef c1 c3 c3s cm doc tt bs mod pg
Compound kinds  if ifelse for forl try defb defa defself defbuf block ablock
                calltag nstag include ns inh inhs nsbody
A *position* is an insertion point in any body list (before each item and at the
end); positions are numbered in printing order.  One plant (a raising leaf or a
warning-triggering literal) may be inserted at one position.
"""

import re

from mc import c12_env

LEAF = ["t1", "t2", "e", "ei", "em", "ef", "c1", "c3", "c3s", "cm", "doc", "tt", "bs", "mod", "pg"]
COMPOUND = [
    "if", "ifelse", "for", "forl", "try", "defb", "defa", "defself", "defbuf", "block", "ablock",
    "calltag", "nstag", "include", "ns", "inh", "inhs", "nsbody",
]
ALL_KINDS = LEAF + COMPOUND

RAISE_KINDS = [
    "r_expr", "r_code2", "r_inline", "r_mexpr", "r_call", "r_filter", "r_code1", "r_code3", "r_codei",
    "r_modtop", "r_modend", "r_ctl", "r_forloop", "r_base",
]
WARN_KINDS = ["w_expr", "w_is", "w_mexpr", "w_code2", "w_ctl", "w_mod", "w_modwarn", "w_defdefault"]
TOP_ONLY_PLANTS = {"w_mod", "w_modwarn"}

MAIN = "/main.html"


# --------------------------------------------------------------------------
# generation


class Ctx:
    """where in a file an item is printed"""

    __slots__ = ("tagdepth", "depth0", "mainfile", "ctl", "calls")

    def __init__(self, tagdepth=0, depth0=True, mainfile=True, ctl=0, calls=0):
        self.tagdepth = tagdepth  # number of enclosing tags (def/block/call) in this file
        self.depth0 = depth0  # directly in the body list of the main file
        self.mainfile = mainfile
        self.ctl = ctl  # number of enclosing control structures (% if / % for / % try) in this file
        self.calls = calls  # number of enclosing <%call> bodies in this file

    def key(self):
        return (self.tagdepth > 0, self.depth0, self.mainfile)


def allowed(kind, ctx):
    if kind in ("mod", "ns", "nsbody"):
        return ctx.tagdepth == 0
    if kind in ("pg", "inh", "inhs"):
        return ctx.depth0 and ctx.mainfile
    if kind == "block":
        return ctx.tagdepth == 0
    if kind in ("defself", "nstag"):
        return ctx.tagdepth == 0
    return True


def body_ctx(kind, ctx):
    if kind in ("if", "ifelse", "for", "forl", "try"):
        return Ctx(ctx.tagdepth, False, ctx.mainfile, ctx.ctl + 1, ctx.calls)
    if kind == "include":
        return Ctx(0, False, False)
    if kind == "ns":
        return Ctx(1, False, False)
    if kind in ("inh", "inhs"):
        return Ctx(0, False, False)
    return Ctx(ctx.tagdepth + 1, False, ctx.mainfile, ctx.ctl, ctx.calls + (1 if kind in ("calltag", "nstag", "nsbody") else 0))


def gen_seqs(w, ctx, kinds, memo):
    """all item sequences of total weight exactly w printable in ctx (simplest first)"""
    k = (w, ctx.key())
    if k in memo:
        return memo[k]
    if w == 0:
        memo[k] = [()]
        return memo[k]
    out = []
    for fw in range(1, w + 1):
        firsts = gen_items(fw, ctx, kinds, memo)
        if not firsts:
            continue
        rests = gen_seqs(w - fw, ctx, kinds, memo)
        for f in firsts:
            for r in rests:
                out.append((f,) + r)
    memo[k] = out
    return out


def gen_items(w, ctx, kinds, memo):
    k = ("item", w, ctx.key())
    if k in memo:
        return memo[k]
    out = []
    if w == 1:
        for kind in LEAF:
            if kind in kinds and allowed(kind, ctx):
                out.append((kind,))
    for kind in COMPOUND:
        if kind in kinds and allowed(kind, ctx):
            for body in gen_seqs(w - 1, body_ctx(kind, ctx), kinds, memo):
                out.append((kind, body))
    memo[k] = out
    return out


def count_kind(items, names):
    n = 0
    for it in items:
        if it[0] in names:
            n += 1
        if len(it) > 1:
            n += count_kind(it[1], names)
    return n


def programs(weight, kinds):
    """all programs of total weight exactly `weight` over `kinds` (deterministic order)"""
    memo = {}
    for body in gen_seqs(weight, Ctx(), set(kinds), memo):
        if count_kind(body, ("inh", "inhs")) > 1 or count_kind(body, ("pg",)) > 1:
            continue
        yield body


def to_tuple(x):
    if isinstance(x, (list, tuple)):
        return tuple(to_tuple(y) for y in x)
    return x


def kinds_of(items, acc=None):
    acc = set() if acc is None else acc
    for it in items:
        acc.add(it[0])
        if len(it) > 1:
            kinds_of(it[1], acc)
    return acc


# --------------------------------------------------------------------------
# printer: IR -> files + semantic operations


class FileB:
    def __init__(self, uri, nl):
        self.uri = uri
        self.nl = nl
        self.parts = []
        self.line = 1
        self.body_ops = []
        self.modcode = []  # (first_stmt_line, [stmts])
        self.defs = {}  # name -> dict(tagline, ops, toplevel)
        self.pagelines = []
        self.inherits = None  # (uri of base)

    def w(self, s):
        self.parts.append(s)
        self.line += s.count("\n")

    def text(self):
        return "".join(self.parts)


class Lowered:
    pass


class Lowerer:
    def __init__(self, body, nl="\n", plant=None, site=None, seed=0, prefix=0, word=None):
        self.prefix = prefix  # number of comment lines put at the top of every file ("edited" version)
        self.body = to_tuple(body)
        self.nl = nl
        self.plant = plant
        self.site = site
        self.word = word if word is not None else c12_env.POOL_WORD[seed % len(c12_env.POOL_WORD)]
        self.files = {}
        self.order = []
        self.n = 0
        self.npos = 0
        self.positions = []  # attributes of every position
        self.plant_info = None
        self.base_uri = None
        self.base_how = None

    # ---- files
    def newfile(self, uri):
        f = FileB(uri, self.nl)
        self.files[uri] = f
        self.order.append(uri)
        for i in range(self.prefix):
            f.w("## edit %d" % i + self.nl)
        if self.plant == "r_modtop":
            self.mh_block(f)
        return f

    def endfile(self, f):
        if self.plant == "r_modend":
            self.mh_block(f)

    def mh_block(self, f):
        nl = self.nl
        ln = f.line
        f.w("<%!" + nl + "    def mh(x):" + nl + "        return 1/x" + nl + "%>" + nl)
        f.modcode.append((ln + 1, ["def mh(x):", "    return 1/x"]))
        f.body_ops.append(("lit", nl))

    def fresh(self):
        self.n += 1
        return self.n

    # ---- entry
    def lower(self):
        main = self.newfile(MAIN)
        self.emit_list(self.body, main, main.body_ops, Ctx(), ())
        self.endfile(main)
        low = Lowered()
        low.files = {u: self.files[u].text() for u in self.order}
        low.fb = self.files
        low.main = MAIN
        low.positions = self.positions
        low.plant = self.plant
        low.plant_info = self.plant_info
        low.base_uri = self.base_uri
        low.nl = self.nl
        return low

    # ---- lists and positions
    def emit_list(self, items, f, ops, ctx, encl):
        for it in items:
            self.position(f, ops, ctx, encl)
            self.emit(it, f, ops, ctx, encl)
        self.position(f, ops, ctx, encl)

    def position(self, f, ops, ctx, encl):
        idx = self.npos
        self.npos += 1
        self.positions.append({"top": ctx.tagdepth == 0, "uri": f.uri, "ctl": ctx.ctl, "anc": list(encl)})
        if self.site is not None and idx == self.site and self.plant:
            self.emit_plant(f, ops, ctx)

    # ---- items
    def emit(self, it, f, ops, ctx, encl):
        kind = it[0]
        nl = self.nl
        a = self.word
        L = f.line
        bctx = body_ctx(kind, ctx) if len(it) > 1 else None
        if kind == "t1":
            s = a + "1" + nl
            f.w(s)
            ops.append(("lit", s))
        elif kind == "t2":
            s = a + "2" + nl + " " + a + nl
            f.w(s)
            ops.append(("lit", s))
        elif kind == "e":
            f.w("${v}" + nl)
            ops += [("expr", L, "v", None), ("lit", nl)]
        elif kind == "ei":
            f.w(a + " ${v} " + a + nl)
            ops += [("lit", a + " "), ("expr", L, "v", None), ("lit", " " + a + nl)]
        elif kind == "em":
            f.w("${ident(v," + nl + "    v," + nl + "    v)}" + nl)
            ops += [("expr", L, "ident(v,\n    v,\n    v)", None), ("lit", nl)]
        elif kind == "ef":
            f.w("${v | trim}" + nl)
            ops += [("expr", L, "v", "trim"), ("lit", nl)]
        elif kind == "c1":
            k = self.fresh()
            f.w("<%% p%d = 1 %%>" % k + nl)
            ops += [("code", L, L, ["p%d = 1" % k]), ("lit", nl)]
        elif kind == "c3":
            k = self.fresh()
            f.w("<%" + nl + "    p%d = 1" % k + nl + "    q%d = 2" % k + nl + "%>" + nl)
            ops += [("code", L, L + 1, ["p%d = 1" % k, "q%d = 2" % k]), ("lit", nl)]
        elif kind == "c3s":
            k = self.fresh()
            f.w("<%" + nl + "    s%d = '''x" % k + nl + "y'''" + nl + "    q%d = 2" % k + nl + "%>" + nl)
            ops += [("code", L, L + 1, ["s%d = '''x\ny'''" % k, "q%d = 2" % k]), ("lit", nl)]
        elif kind == "cm":
            f.w("## " + a + " ${x} <%" + nl)
        elif kind == "doc":
            f.w("<%doc>" + nl + "${x}" + nl + "</%doc>" + nl)
            ops.append(("lit", nl))
        elif kind == "tt":
            f.w("<%text>" + nl + "${v}" + nl + "</%text>" + nl)
            ops += [("lit", nl + "${v}" + nl), ("lit", nl)]
        elif kind == "bs":
            f.w(a + " \\" + nl + a + nl)
            ops.append(("lit", a + " " + a + nl))
        elif kind == "mod":
            k = self.fresh()
            f.w("<%!" + nl + "    m%d = 1" % k + nl + "%>" + nl)
            f.modcode.append((L + 1, ["m%d = 1" % k]))
            ops.append(("lit", nl))
        elif kind == "pg":
            f.w('<%page args="pa=1"/>' + nl)
            f.pagelines.append(L)
            ops.append(("lit", nl))
        elif kind == "if":
            f.w("% if cT:" + nl)
            b = []
            self.emit_list(it[1], f, b, bctx, encl + (kind,))
            f.w("% endif" + nl)
            ops.append(("if", L, "cT", b, []))
        elif kind == "ifelse":
            f.w("% if cF:" + nl + a + nl + "% else:" + nl)
            b = []
            self.emit_list(it[1], f, b, bctx, encl + (kind,))
            f.w("% endif" + nl)
            ops.append(("if", L, "cF", [("lit", a + nl)], b))
        elif kind in ("for", "forl"):
            f.w("% for i in seq:" + nl)
            b = []
            if kind == "forl":
                b += [("loopidx", f.line), ("lit", nl)]
                f.w("${loop.index}" + nl)
            self.emit_list(it[1], f, b, bctx, encl + (kind,))
            f.w("% endfor" + nl)
            ops.append(("for", L, "seq", b))
        elif kind == "try":
            f.w("% try:" + nl)
            b = []
            self.emit_list(it[1], f, b, bctx, encl + (kind,))
            f.w("% except KeyError:" + nl + a + nl + "% endtry" + nl)
            ops.append(("try", L, b, [("lit", a + nl)]))
        elif kind in ("defb", "defa", "defself", "defbuf"):
            k = self.fresh()
            name = "d%d" % k
            via = "self" if kind == "defself" else "bare"
            callsrc = ("${self.%s()}" if via == "self" else "${%s()}") % name

            def call():
                cl = f.line
                f.w(callsrc + nl)
                ops.extend([("calldef", cl, name, via), ("lit", nl)])

            if kind == "defa":
                call()
            tagline = f.line
            attrs = ' buffered="True"' if kind == "defbuf" else ""
            f.w('<%%def name="%s()"%s>' % (name, attrs) + nl)
            b = [("lit", nl)]
            f.defs[name] = {"tagline": tagline, "ops": b, "toplevel": ctx.tagdepth == 0}
            self.emit_list(it[1], f, b, bctx, encl + (kind,))
            f.w("</%def>" + nl)
            ops.append(("lit", nl))
            if kind != "defa":
                call()
        elif kind in ("block", "ablock"):
            k = self.fresh()
            name = "b%d" % k if kind == "block" else None
            f.w(('<%%block name="%s">' % name if name else "<%block>") + nl)
            b = [("lit", nl)]
            self.emit_list(it[1], f, b, bctx, encl + (kind,))
            f.w("</%block>" + nl)
            ops += [("block", L, name, b), ("lit", nl)]
        elif kind in ("calltag", "nstag"):
            k = self.fresh()
            name = "w%d" % k
            f.w('<%%def name="%s()">' % name + nl)
            cb_line = f.line
            f.w("[${caller.body()}]" + nl + "</%def>" + nl)
            f.defs[name] = {
                "tagline": L,
                "ops": [("lit", nl), ("lit", "["), ("callerbody", cb_line), ("lit", "]" + nl)],
                "toplevel": ctx.tagdepth == 0,
            }
            ops.append(("lit", nl))
            cl = f.line
            if kind == "calltag":
                f.w('<%%call expr="%s()">' % name + nl)
            else:
                f.w("<%%self:%s>" % name + nl)
            b = [("lit", nl)]
            self.emit_list(it[1], f, b, bctx, encl + (kind,))
            f.w(("</%call>" if kind == "calltag" else "</%%self:%s>" % name) + nl)
            ops += [("calltag", cl, name, "bare" if kind == "calltag" else "self", b), ("lit", nl)]
        elif kind == "include":
            k = self.fresh()
            uri = "/inc%d.html" % k
            f.w('<%%include file="inc%d.html"/>' % k + nl)
            ops += [("include", L, uri), ("lit", nl)]
            g = self.newfile(uri)
            self.emit_list(it[1], g, g.body_ops, bctx, ())
            self.endfile(g)
        elif kind == "ns":
            k = self.fresh()
            uri = "/ns%d.html" % k
            f.w('<%%namespace name="ns%d" file="ns%d.html"/>' % (k, k) + nl)
            ops.append(("lit", nl))
            cl = f.line
            f.w("${ns%d.g()}" % k + nl)
            ops += [("nscall", cl, uri, "g"), ("lit", nl)]
            g = self.newfile(uri)
            tagline = g.line
            g.w('<%def name="g()">' + nl)
            b = [("lit", nl)]
            g.defs["g"] = {"tagline": tagline, "ops": b, "toplevel": True}
            self.emit_list(it[1], g, b, bctx, ("nsdef",))
            g.w("</%def>" + nl)
            g.body_ops.append(("lit", nl))
            self.endfile(g)
        elif kind == "nsbody":
            # a call with content to a def of another file: main -> other file -> main again in one traceback
            k = self.fresh()
            uri = "/nb%d.html" % k
            f.w('<%%namespace name="nb%d" file="nb%d.html"/>' % (k, k) + nl)
            ops.append(("lit", nl))
            g = self.newfile(uri)
            tagline = g.line
            g.w('<%def name="g()">' + nl)
            cb_line = g.line
            g.w("[${caller.body()}]" + nl + "</%def>" + nl)
            g.defs["g"] = {
                "tagline": tagline,
                "ops": [("lit", nl), ("lit", "["), ("callerbody", cb_line), ("lit", "]" + nl)],
                "toplevel": True,
            }
            g.body_ops.append(("lit", nl))
            self.endfile(g)
            cl = f.line
            f.w("<%%nb%d:g>" % k + nl)
            b = [("lit", nl)]
            self.emit_list(it[1], f, b, bctx, encl + (kind,))
            f.w("</%%nb%d:g>" % k + nl)
            ops += [("nscalltag", cl, uri, "g", b), ("lit", nl)]
        elif kind in ("inh", "inhs"):
            uri = "/base.html"
            f.w('<%inherit file="base.html"/>' + nl)
            ops.append(("lit", nl))
            f.inherits = uri
            self.base_uri = uri
            g = self.newfile(uri)
            self.emit_list(it[1], g, g.body_ops, bctx, ())
            cl = g.line
            g.w(("${next.body()}" if kind == "inh" else "${self.body()}") + nl + a + nl)
            g.body_ops += [("nextbody", cl), ("lit", nl + a + nl)]
            self.endfile(g)
        else:
            raise ValueError(kind)

    # ---- plants
    def emit_plant(self, f, ops, ctx):
        p = self.plant
        nl = self.nl
        a = self.word
        L = f.line
        info = {"uri": f.uri, "line": L, "kind": p}
        if p == "r_expr":
            f.w("${1/0}" + nl)
            ops += [("expr", L, "1/0", None), ("lit", nl)]
        elif p == "r_inline":
            f.w(a + " ${1/0} " + a + nl)
            ops += [("lit", a + " "), ("expr", L, "1/0", None), ("lit", " " + a + nl)]
        elif p == "r_mexpr":
            f.w("${ident(v," + nl + "    1/0," + nl + "    v)}" + nl)
            ops += [("expr", L, "ident(v,\n    1/0,\n    v)", None), ("lit", nl)]
        elif p == "r_call":
            f.w("${boom()}" + nl)
            ops += [("expr", L, "boom()", None), ("lit", nl)]
        elif p == "r_base":
            # a failure that is a BaseException but not an Exception (class picked by the seed)
            f.w("${bexit()}" + nl)
            ops += [("expr", L, "bexit()", None), ("lit", nl)]
        elif p == "r_filter":
            f.w("${v | badfilter}" + nl)
            ops += [("expr", L, "v", "badfilter"), ("lit", nl)]
        elif p in ("r_code1", "r_code2", "r_code3"):
            i = int(p[-1])
            stmts = ["pp = 1", "qq = 2", "rr = 3"]
            stmts[i - 1] = "1/0"
            f.w("<%" + nl + "".join("    " + s + nl for s in stmts) + "%>" + nl)
            ops += [("code", L, L + 1, stmts), ("lit", nl)]
            info["line"] = L + i
        elif p == "r_codei":
            f.w("<% 1/0 %>" + nl)
            ops += [("code", L, L, ["1/0"]), ("lit", nl)]
        elif p in ("r_modtop", "r_modend"):
            f.w("${mh(0)}" + nl)
            ops += [("expr", L, "mh(0)", None), ("lit", nl)]
        elif p == "r_ctl":
            f.w("% if 1/0:" + nl + "% endif" + nl)
            ops.append(("if", L, "1/0", [], []))
        elif p == "r_forloop":
            # the iterable expression of a '% for' whose body uses the loop context fails while it is evaluated
            f.w("% for j in 1/0:" + nl + "${loop.index}" + nl + "% endfor" + nl)
            ops.append(("for", L, "1/0", [("loopidx", L + 1), ("lit", nl)]))
        # ---- warnings
        elif p == "w_expr":
            f.w("${'\\d'}" + nl)
            ops += [("expr", L, "'\\\\d'", None), ("lit", nl)]
            info["warn"] = [(f.uri, [L], "SyntaxWarning", "invalid escape sequence")]
        elif p == "w_is":
            f.w("${1 is 1}" + nl)
            ops += [("expr", L, "True", None), ("lit", nl)]
            info["warn"] = [(f.uri, [L], "SyntaxWarning", '"is" with')]
        elif p == "w_mexpr":
            f.w("${ident(v," + nl + "    '\\d'," + nl + "    v)}" + nl)
            ops += [("expr", L, "v", None), ("lit", nl)]
            info["warn"] = [(f.uri, [L, L + 1], "SyntaxWarning", "invalid escape sequence")]
        elif p == "w_code2":
            f.w("<%" + nl + "    pp = 1" + nl + "    qq = '\\d'" + nl + "%>" + nl)
            ops += [("code", L, L + 1, ["pp = 1", "qq = 2"]), ("lit", nl)]
            info["warn"] = [(f.uri, [L + 2], "SyntaxWarning", "invalid escape sequence")]
        elif p == "w_ctl":
            f.w("% if '\\d':" + nl + "% endif" + nl)
            ops.append(("if", L, "True", [], []))
            info["warn"] = [(f.uri, [L], "SyntaxWarning", "invalid escape sequence")]
        elif p == "w_mod":
            f.w("<%!" + nl + "    mw = 1" + nl + "    mx = '\\d'" + nl + "%>" + nl)
            ops.append(("lit", nl))
            info["warn"] = [(f.uri, [L + 2], "SyntaxWarning", "invalid escape sequence")]
        elif p == "w_modwarn":
            f.w("<%!" + nl + "    import warnings" + nl + "    warnings.warn('planted')" + nl + "%>" + nl)
            ops.append(("lit", nl))
            info["warn"] = [(f.uri, [L + 2], "UserWarning", "planted")]
        elif p == "w_defdefault":
            f.w("<%def name=\"wd(x='\\d')\">" + nl + "</%def>" + nl)
            ops.append(("lit", nl))
            info["warn"] = [(f.uri, [L], "SyntaxWarning", "invalid escape sequence")]
        else:
            raise ValueError(p)
        self.plant_info = info


def lower(body, nl="\n", plant=None, site=None, seed=0, prefix=0, word=None):
    return Lowerer(body, nl, plant, site, seed, prefix, word).lower()


# --------------------------------------------------------------------------
# reference interpreter


class Frame:
    __slots__ = ("uri", "lines", "kind", "optional", "begin")

    def __init__(self, uri, kind, begin=()):
        self.uri = uri
        self.lines = set()
        self.kind = kind
        self.optional = False
        self.begin = set(begin)  # lines on which the enclosing callable's construct begins

    def snap(self):
        return {"uri": self.uri, "lines": sorted(self.lines), "kind": self.kind, "optional": self.optional}


class RefRaise(Exception):
    def __init__(self, exc, chain):
        Exception.__init__(self, repr(exc))
        self.exc = exc
        self.chain = chain


REF_PREFIX = "<c12ref:"


class Interp:
    def __init__(self, low, ctx):
        self.low = low
        self.ctx = dict(ctx)
        self.out = []
        self.frames = []
        self.fglobals = {}
        self.callers = []

    # -- python evaluation
    def globals_of(self, uri):
        g = self.fglobals.get(uri)
        if g is None:
            g = dict(self.ctx)
            self.fglobals[uri] = g
            fb = self.low.fb[uri]
            for first, stmts in fb.modcode:
                code = compile("\n" * (first - 1) + "\n".join(stmts) + "\n", REF_PREFIX + uri + ">", "exec")
                exec(code, g)
        return g

    def fail(self, exc, frame, exact_first):
        """record the chain at the innermost point; frames of functions defined in template
        code blocks (compiled by this reference with template line numbers) are appended"""
        tb = exc.__traceback__
        extra = []
        first = True
        while tb is not None:
            fn = tb.tb_frame.f_code.co_filename
            if fn.startswith(REF_PREFIX):
                uri = fn[len(REF_PREFIX):-1]
                if first and exact_first and tb.tb_frame.f_code.co_name == "<module>":
                    frame.lines = {tb.tb_lineno}
                else:
                    fr = Frame(uri, "pyfn")
                    fr.lines = {tb.tb_lineno}
                    extra.append(fr)
                first = False
            tb = tb.tb_next
        chain = [f.snap() for f in self.frames] + [f.snap() for f in extra]
        raise RefRaise(exc, chain)

    def ev(self, src, frame, loc):
        g = self.globals_of(frame.uri)
        try:
            code = compile(src, "<c12ref-expr>", "eval")
            return eval(code, g, loc)
        except RefRaise:
            raise
        except BaseException as e:  # noqa
            self.fail(e, frame, False)

    # -- callables
    def call(self, uri, ops, kind, begin, loc=None):
        fr = Frame(uri, kind, begin)
        self.frames.append(fr)
        try:
            self.run(ops, fr, {} if loc is None else loc)
        finally:
            self.frames.pop()

    def run(self, ops, fr, loc):
        for op in ops:
            o = op[0]
            if o == "lit":
                self.out.append(op[1])
                continue
            fr.lines = {op[1]}
            fr.kind = o
            if o == "expr":
                val = self.ev(op[2], fr, loc)
                s = str(val)
                if op[3] == "trim":
                    s = s.strip()
                elif op[3] is not None:
                    fn = self.globals_of(fr.uri)[op[3]]
                    try:
                        s = fn(s)
                    except Exception as e:
                        self.fail(e, fr, False)
                self.out.append(s)
            elif o == "code":
                g = self.globals_of(fr.uri)
                src = "\n" * (op[2] - 1) + "\n".join(op[3]) + "\n"
                code = compile(src, REF_PREFIX + fr.uri + ">", "exec")
                try:
                    exec(code, g, loc)
                except Exception as e:
                    self.fail(e, fr, True)
            elif o == "if":
                if self.ev(op[2], fr, loc):
                    self.run(op[3], fr, loc)
                else:
                    self.run(op[4], fr, loc)
            elif o == "for":
                for idx, item in enumerate(self.ev(op[2], fr, loc)):
                    loc["i"] = item
                    loc["__loopidx"] = idx
                    self.run(op[3], fr, loc)
            elif o == "loopidx":
                self.out.append(str(loc["__loopidx"]))
            elif o == "try":
                # the handler (except KeyError) never matches a planted failure
                self.run(op[2], fr, loc)
            elif o == "calldef":
                self.calldef(fr, op[2], op[3], None)
            elif o == "calltag":
                self.calldef(fr, op[2], op[3], (op[4], fr.uri, loc, op[1]))
            elif o == "callerbody":
                body_ops, buri, bloc, cl = self.callers[-1]
                saved = self.callers.pop()
                try:
                    self.call(buri, body_ops, "callbody", [cl], bloc)
                finally:
                    self.callers.append(saved)
            elif o == "block":
                self.call(fr.uri, op[3], "blockbody", [op[1]], loc if op[2] is None else None)
            elif o == "include":
                self.call(op[2], self.low.fb[op[2]].body_ops, "body", self.low.fb[op[2]].pagelines)
            elif o == "nextbody":
                m = self.low.fb[self.low.main]
                self.call(m.uri, m.body_ops, "body", m.pagelines)
            elif o == "nscall":
                d = self.low.fb[op[2]].defs[op[3]]
                self.call(op[2], d["ops"], "def", [d["tagline"]])
            elif o == "nscalltag":
                d = self.low.fb[op[2]].defs[op[3]]
                self.callers.append((op[4], fr.uri, loc, op[1]))
                try:
                    self.call(op[2], d["ops"], "def", [d["tagline"]])
                finally:
                    self.callers.pop()
            else:
                raise ValueError(o)

    def calldef(self, fr, name, via, caller):
        d = self.low.fb[fr.uri].defs[name]
        stub = None
        if via == "bare" and d["toplevel"]:
            # forwarding stub of a top-level def called by its bare name: belongs to the
            # template; accepted lines = calling construct, the def's tag, or the start of the
            # callable that holds the stub (DESIGN C12 soundness note)
            stub = Frame(fr.uri, "stub")
            stub.optional = True
            stub.lines = set(fr.lines) | {d["tagline"]} | set(fr.begin)
            self.frames.append(stub)
        self.callers.append(caller)
        try:
            self.call(fr.uri, d["ops"], "def", [d["tagline"]])
        finally:
            self.callers.pop()
            if stub is not None:
                self.frames.pop()

    # -- entry
    def render(self):
        low = self.low
        start = low.base_uri if low.base_uri else low.main
        fb = low.fb[start]
        # module-level code of the main file runs when the template is built
        self.globals_of(low.main)
        self.call(start, fb.body_ops, "body", fb.pagelines)
        return "".join(self.out)


def reference(low, ctx):
    """-> ("ok", output) | ("raise", exc, chain)"""
    import warnings

    it = Interp(low, c12_env.resolve_ctx(ctx))
    with warnings.catch_warnings():
        warnings.simplefilter("ignore")
        try:
            return ("ok", it.render())
        except RefRaise as r:
            return ("raise", r.exc, r.chain)
