"""C02 helper: the callables and values that C02 programs see.

Nothing here imports mako.  A context value written "@helper:<name>" in a
corpus entry / replay case denotes the module-level object <name> of this
module (see resolve()).  Generated template modules get the module-level
filters with   imports=["from mc.c02_env import f3, f4, f5"]   or a
<%! from mc.c02_env import ... %> block.

User filters are *tagging* functions  fi(s) = "i[" + T + str(s) + "]"  where T
is empty for a str argument and "<typename>:" otherwise: every permutation,
omission or duplication of a pipeline changes the output, and whether `str`
(or another converting stage) ran before a user filter is visible.  The
argument is converted with str() first, so that Markup.__add__/__radd__
escaping (a markupsafe rule, not Mako's) never enters a comparison.
"""

import decimal

import markupsafe


def _tagger(label):
    def f(s):
        t = "" if isinstance(s, str) else type(s).__name__ + ":"
        return "%s[%s%s]" % (label, t, str(s))

    f.__name__ = "tag_%s" % label
    return f


f1 = _tagger("1")
f2 = _tagger("2")
f3 = _tagger("3")  # default_filters
f4 = _tagger("4")  # <%page expression_filter>
f5 = _tagger("5")  # buffer_filters


def g(*labels, **kw):
    """filter factory: g("x") is a tagging filter labelled x; g("a", "b") -> a+b; g(tag="k") -> k"""
    return _tagger("".join(str(x) for x in labels) + "".join(str(x) for x in kw.values()))


def boom(s):
    """a user filter that fails: the failure must reach the caller of render()"""
    raise ValueError("boom")


class _NS:
    """an object whose attributes are filters (`ns.f1`, `ns.g("x")`)"""

    f1 = staticmethod(_tagger("N"))
    g = staticmethod(g)

    def __repr__(self):
        return "ns"


ns = _NS()


# decoys: context variables that merely share their name with a built-in flag; the flag must win
def _decoy(label):
    def f(s):
        return "DECOY-%s!%s" % (label, s)

    return f


DECOYS = {k: _decoy(k) for k in ("h", "x", "u", "trim", "entity", "n", "unicode", "decode")}
decoy_h = DECOYS["h"]
decoy_x = DECOYS["x"]
decoy_u = DECOYS["u"]
decoy_trim = DECOYS["trim"]
decoy_entity = DECOYS["entity"]
decoy_n = DECOYS["n"]
decoy_unicode = DECOYS["unicode"]
decoy_decode = DECOYS["decode"]

# values that are not JSON
VB0 = b"\xc3\xa9"
VB1 = b"\xc3\x9f"
VB2 = b"\xd0\xb6"
VB3 = b"\xe4\xb8\xad"
VM0 = markupsafe.Markup("<i>&amp;</i>")
VM1 = markupsafe.Markup("<b>&lt;</b>")
VM2 = markupsafe.Markup("<u>&gt;</u>")
VM3 = markupsafe.Markup("<s>&#233;</s>")


class _Box:
    """box.put(a, b) -> b, remembering a; box.pop() -> the remembered a (then forgets it).
    Lets an expression run something (a def, a capture, a second template) while it is being
    evaluated and still show both results in the output."""

    slot = ""

    def put(self, a, b):
        self.slot = a
        return b

    def pop(self):
        s, self.slot = self.slot, ""
        return s

    def __repr__(self):
        return "box"


box = _Box()

# byte strings whose text differs under the three decodings (nested-pipeline family)
_WU = ["café €", "naïve ¥", "Ωmega ж", "日本 é"]
_WL = ["crème", "señor", "Grüße", "façade"]
_WA = ["cafe E", "plain Y", "omega Z", "nihon e"]
NU0, NU1, NU2, NU3 = [w.encode("utf-8") for w in _WU]
NL0, NL1, NL2, NL3 = [w.encode("latin-1") for w in _WL]
NA0, NA1, NA2, NA3 = [w.encode("ascii") for w in _WA]


# values that are equal (and hash alike) but read differently, a value whose text changes, for filters that can
# receive a non-string
DEC1 = decimal.Decimal("1")
DEC10 = decimal.Decimal("1.0")


class _Eq:
    """all instances are equal and hash alike; their text differs"""

    def __init__(self, text):
        self.text = text

    def __eq__(self, other):
        return isinstance(other, _Eq)

    def __hash__(self):
        return 7

    def __str__(self):
        return self.text


EQA = _Eq("obj-A<&")
EQB = _Eq("obj-B<&")


class _Mut:
    """one object whose text is set just before each render: "@helper:MUT=<text>" """

    text = "?"

    def __str__(self):
        return self.text


MUT = _Mut()


def resolve(ctx):
    """rebuild a render context from its JSON form ("@helper:<name>" -> object of this module)"""
    out = {}
    for k, v in ctx.items():
        if isinstance(v, str) and v.startswith("@helper:MUT="):
            MUT.text = v[len("@helper:MUT=") :]
            out[k] = MUT
        elif isinstance(v, str) and v.startswith("@helper:"):
            out[k] = globals()[v[len("@helper:") :]]
        else:
            out[k] = v
    return out
