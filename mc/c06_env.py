"""C06 helper: the two probe functions that C06 programs receive in their render context.

Nothing here imports mako.  A context value written "@helper:<name>" in a corpus entry or a replay case
denotes the module-level object <name> of this module (see resolve()).

P(ns, name)  calls member `name` of the namespace-like object `ns` and returns what it returns (a Mako def
             writes in place and returns ''); when the member cannot be resolved - by `ns` itself or by a
             `parent.`/`next.` call made further down - the AttributeError is caught and '<none>' is returned.
             Text already written stays written: the probe is a plain Python try/except.
A(ns, name)  returns module attribute `name` through `ns.attr`, or '<none>'.
U(context, name)  uri of context[name] when that is a namespace, else '<undefined>'.

The same functions are used by the reference interpreter on its own view objects, so nothing about Mako is
assumed beyond "an unresolvable member is an AttributeError" (what Namespace documents).
"""

NONE = "<none>"


def P(ns, name):
    try:
        return getattr(ns, name)()
    except AttributeError:
        return NONE


def A(ns, name):
    try:
        return getattr(ns.attr, name)
    except AttributeError:
        return NONE


def U(context, name):
    """uri of the namespace the context holds under `name` (self / local / parent / next), '<undefined>' when the
    context holds no namespace of that name (Context.get then answers None or a Python builtin)"""
    return getattr(context.get(name), "uri", "<undefined>")


def resolve(value):
    """'@helper:P' -> P ; anything else unchanged"""
    if isinstance(value, str) and value.startswith("@helper:"):
        return globals()[value[len("@helper:"):]]
    return value


def resolve_ctx(ctx):
    return {k: resolve(v) for k, v in ctx.items()}
