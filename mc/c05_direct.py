"""C05 family "direct": hand-built template shapes with closed-form expectations, for features the IR does not carry.

  armed    a Python function (plain, or decorated with runtime.supports_caller) evaluated inside the expression or an
           attribute of a call with content, i.e. after the call's `caller` has been prepared and before the callee runs;
           the callee must still receive its caller, whatever runs in between
  empty    a def / block with filter= whose run writes nothing: "passes its whole content once through those filters"
           holds for the empty content too (the filter is called once, with '')
  nscall   an inline callable (def nested in a def, def written inside a call) that is itself called
           with content (or sits in a def that is) and makes a call with content whose body uses `caller`:
           the <%self:f> / <%local:f> spelling and the <%call expr> spelling of the same program agree, and equal the
           closed form.  (`caller` inside an anonymous block is not fixed by the statement: not generated.)

Every case: {"name", "group", "src", "exp"}; the context is built by ctx().  Nothing here imports mako at import time.
"""

import itertools


def ctx(seed, log):
    from mako import runtime

    def label(context, x):
        return "L" + x

    def label_body(context, x):
        # a supports_caller function that really uses its caller when it has one
        c = context.get("caller", None)
        return "L" + x

    def pyframe(context, t="t"):
        context.write("{" + t + ":")
        context["caller"].body()
        context.write("}")
        return ""

    def wrapf(s):
        log.append(("wrapf", s))
        return "<" + s + ">"

    def dflt(s):
        log.append(("dflt", s))
        return s or "n/a"

    counter = []

    def nxt():
        counter.append(1)
        return len(counter)

    return {
        "nxt": nxt,
        "label_sc": runtime.supports_caller(label),
        "label_plain": label,
        "label_sc2": runtime.supports_caller(label_body),
        "pyframe": runtime.supports_caller(pyframe),
        "wrapf": wrapf,
        "dflt": dflt,
    }


def _j(*lines):
    return "".join(lines)


def cases(seed=0):
    out = []
    tx = ["body", "Bö", "b1", "β"][seed % 4]
    # ---- armed
    FR = '<%def name="frame(title=\'-\')">{${title}:${caller.body()}}</%def>'
    FR2 = '<%def name="frame2(title=\'-\')">{${title}:${caller.body()}:${caller.body()}}</%def>'
    for lab in ("label_sc", "label_plain", "label_sc2"):
        L = lab + "(context, 'x')"
        shapes = {
            "ns-attribute": (FR + '[<%self:frame title="${' + L + '}">' + tx + "</%self:frame>]", "[{Lx:" + tx + "}]"),
            "ns-attribute-mixed": (FR + '[<%self:frame title="a${' + L + '}b">' + tx + "</%self:frame>]", "[{aLxb:" + tx + "}]"),
            "call-positional": (FR + '[<%call expr="frame(' + L + ')">' + tx + "</%call>]", "[{Lx:" + tx + "}]"),
            "call-keyword": (FR + '[<%call expr="frame(title=' + L + ')">' + tx + "</%call>]", "[{Lx:" + tx + "}]"),
            "call-self": (FR + '[<%call expr="self.frame(' + L + ')">' + tx + "</%call>]", "[{Lx:" + tx + "}]"),
            "two-arguments": (
                '<%def name="fr3(a, b)">{${a}${b}:${caller.body()}}</%def>[<%call expr="fr3(' + L + ", " + L + ')">' + tx + "</%call>]",
                "[{LxLx:" + tx + "}]",
            ),
            "in-body-too": (FR + '[<%self:frame title="${' + L + '}">${' + L + "}" + tx + "</%self:frame>]", "[{Lx:Lx" + tx + "}]"),
            "nested-calls": (
                FR + '[<%self:frame title="${' + L + '}">(<%self:frame title="${' + L + '}">' + tx + "</%self:frame>)</%self:frame>]",
                "[{Lx:({Lx:" + tx + "})}]",
            ),
            "in-loop": (FR + "[\\\n% for i in range(2):\n<%self:frame title=\"${" + L + '}">' + tx + "${i}</%self:frame>\\\n% endfor\n]", "[{Lx:" + tx + "0}{Lx:" + tx + "1}]"),
            "body-twice": (FR2 + '[<%self:frame2 title="${' + L + '}">' + tx + "</%self:frame2>]", "[{Lx:" + tx + ":" + tx + "}]"),
            "python-callee": ('[<%call expr="pyframe(context, ' + L + ')">' + tx + "</%call>]", "[{Lx:" + tx + "}]"),
            "caller-restored": (
                FR + '<%def name="outer()">(${caller.body()}|<%self:frame title="${' + L + '}">in</%self:frame>|${caller.body()})</%def>'
                '[<%call expr="outer()">' + tx + "</%call>]",
                "[(" + tx + "|{Lx:in}|" + tx + ")]",
            ),
        }
        for k, (src, exp) in shapes.items():
            out.append({"group": "armed", "name": "armed:%s:%s" % (k, lab), "src": src, "exp": exp})
    # ---- empty
    bodies = {
        "nothing": ("", ""),
        "python-block-only": ("<% zz = 1 %>", ""),
        "loop-over-nothing": ("\\\n% for i in []:\nx\\\n% endfor\n", ""),
        "false-condition": ("\\\n% if False:\nx\\\n% endif\n", ""),
        "empty-expression": ("${''}", ""),
        "comment-only": ("\\\n## c\n", ""),
        "text": ("x", "x"),
        "sometimes": ("\\\n% for i in range(n):\nx\\\n% endfor\n", None),
    }
    for flt, ff in (("wrapf", lambda s: "<" + s + ">"), ("dflt", lambda s: s or "n/a"), ("wrapf, dflt", lambda s: ("<" + s + ">") or "n/a"), ("dflt, wrapf", lambda s: "<" + (s or "n/a") + ">")):
        for bname, (b, content) in bodies.items():
            if content is None:
                calls, exps = "${e(0)}|${e(2)}|${e(0)}", [ff(""), ff("xx"), ff("")]
                sig = "e(n)"
            else:
                calls, exps = "${e()}|${e()}", [ff(content), ff(content)]
                sig = "e()"
            places = {
                "top-def": ('<%def name="' + sig + '" filter="' + flt + '">' + b + "</%def>[" + calls + "]", "[" + "|".join(exps) + "]"),
                "nested-def": (
                    '<%def name="o()"><%def name="' + sig + '" filter="' + flt + '">' + b + "</%def>[" + calls + "]</%def>${o()}",
                    "[" + "|".join(exps) + "]",
                ),
                "def-in-call": (
                    '<%def name="w()">(${caller.e(' + ("0" if content is None else "") + ')})</%def><%call expr="w()"><%def name="' + sig + '" filter="' + flt + '">' + b + "</%def></%call>",
                    "(" + exps[0] + ")",
                ),
                "buffered-def": ('<%def name="' + sig + '" filter="' + flt + '" buffered="True">' + b + "</%def>[" + calls + "]", "[" + "|".join(exps) + "]"),
            }
            if content is not None:
                places["anonymous-block"] = ('[<%block filter="' + flt + '">' + b + "</%block>]", "[" + exps[0] + "]")
                places["named-block"] = ('[<%block name="nb" filter="' + flt + '">' + b + "</%block>]", "[" + exps[0] + "]")
                places["block-in-def"] = ('<%def name="o()">[<%block filter="' + flt + '">' + b + "</%block>]</%def>${o()}", "[" + exps[0] + "]")
                places["call-content"] = (
                    '<%def name="w()" filter="' + flt + '">${caller.body()}</%def>[<%call expr="w()">' + b + "</%call>]",
                    "[" + exps[0] + "]",
                )
            for pname, (src, exp) in places.items():
                out.append({"group": "empty", "name": "empty:%s:%s:%s" % (pname, bname, flt.replace(", ", "+")), "src": src, "exp": exp})
    # ---- attribute order of a <%ns:def> call: keyword arguments are passed, and their values evaluated, in the order written
    KW = '<%def name="kw(**kw)">{${"|".join("%s=%s" % (k, v) for k, v in kw.items())}}</%def>'
    TWO = '<%def name="two(a, b, c=\'-\')">{a=${a},b=${b},c=${c}}</%def>'
    for form in ("tself", "tlocal"):
        ns = "self" if form == "tself" else "local"
        shapes = {
            "kwargs-order": (KW + "[<%" + ns + ':kw zeta="1" alpha="2" mid="3"/>]', "[{zeta=1|alpha=2|mid=3}]"),
            "kwargs-order-with-content": (KW + "[<%" + ns + ':kw zeta="1" alpha="2">x</%' + ns + ":kw>]", "[{zeta=1|alpha=2}]"),
            "evaluation-order": (TWO + "[<%" + ns + ':two b="${nxt()}" a="${nxt()}"/>]', "[{a=2,b=1,c=-}]"),
            "evaluation-order-3": (TWO + "[<%" + ns + ':two c="${nxt()}" b="${nxt()}" a="${nxt()}"/>]', "[{a=3,b=2,c=1}]"),
            "evaluation-order-mixed": (TWO + "[<%" + ns + ':two b="x${str(nxt())}" a="${str(nxt())}y"/>]', "[{a=2y,b=x1,c=-}]"),
        }
        for k, (src, exp) in shapes.items():
            out.append({"group": "attr-order", "name": "attr-order:%s:%s" % (k, form), "src": src, "exp": exp})
    # ---- nscall
    W = '<%def name="w()">(${caller.body()})</%def>'
    W2 = '<%def name="w2()">(${caller.body()}${caller.body()})</%def>'

    def callw(form, body, name="w"):
        if form == "tself":
            return "<%%self:%s>%s</%%self:%s>" % (name, body, name)
        if form == "tlocal":
            return "<%%local:%s>%s</%%local:%s>" % (name, body, name)
        if form == "tcallself":
            return '<%%call expr="self.%s()">%s</%%call>' % (name, body)
        return '<%%call expr="%s()">%s</%%call>' % (name, body)

    for form in ("tself", "tlocal", "tcall", "tcallself"):
        for pass_on in ("${caller.body()}", "i:${caller.body()}", "${caller.body()}${caller.body()}"):
            po = pass_on.replace("${caller.body()}", "IB")
            shapes = {
                # a def nested in a def, itself called with content; its body makes the call under test
                "nested-def": (
                    W + '<%def name="outer()"><%def name="inner()">' + callw(form, pass_on) + '</%def>[<%call expr="inner()">IB</%call>]</%def>${outer()}',
                    "[(" + po + ")]",
                ),
                # the same, the enclosing def is called with content of its own
                "nested-def-outer-has-caller": (
                    W + '<%def name="outer()"><%def name="inner()">' + callw(form, pass_on) + '</%def>[<%call expr="inner()">IB</%call>|${caller.body()}]</%def>'
                    '<%call expr="outer()">OB</%call>',
                    "[(" + po + ")|OB]",
                ),
                # a def written inside a call; the callee calls it with content
                "def-in-call": (
                    W + '<%def name="host()">[<%call expr="caller.item()">IB</%call>]</%def>'
                    '<%call expr="host()"><%def name="item()">' + callw(form, pass_on) + "</%def></%call>",
                    "[(" + po + ")]",
                ),
                # top-level def (control)
                "top-def": (W + '<%def name="outer()">[' + callw(form, pass_on) + ']</%def><%call expr="outer()">IB</%call>', "[(" + po + ")]"),
                # nested def, callee runs the body twice
                "nested-def-twice": (
                    W2 + '<%def name="outer()"><%def name="inner()">' + callw(form, pass_on, "w2") + '</%def>[<%call expr="inner()">IB</%call>]</%def>${outer()}',
                    "[(" + po + po + ")]",
                ),
                # nested def in a loop, two different contents
                "nested-def-in-loop": (
                    W + '<%def name="outer()"><%def name="inner()">' + callw(form, pass_on) + "</%def>[\\\n% for k in range(2):\n<%call expr=\"inner()\">IB</%call>\\\n% endfor\n]</%def>${outer()}",
                    "[(" + po + ")(" + po + ")]",
                ),
            }
            for k, (src, exp) in shapes.items():
                out.append({"group": "nscall", "name": "nscall:%s:%s:%s" % (k, form, pass_on.count("caller")), "src": src, "exp": exp, "form": form})
    # ---- getdef: a def rendered on its own through Template.get_def(name).render*(), under rarely set Template options
    # (no error occurs anywhere: the options must not change what the def gives)
    HEAD = "<%!\ndef tagf(s):\n    return 'f[' + s + ']'\n\ndef deco(fn):\n    def w(context, *a, **k):\n        context.write('<')\n        r = fn(*a, **k)\n        if r:\n            context.write(r)\n        context.write('>')\n        return ''\n    return w\n%>"
    flav = {
        "plain": ("", "[A|" + tx + "]"),
        "buffered": (' buffered="True"', "[A|" + tx + "]"),
        "filtered": (' filter="tagf"', "f[[A|" + tx + "]]"),
        "buffered-filtered": (' buffered="True" filter="tagf"', "f[[A|" + tx + "]]"),
        "decorated": (' decorator="deco"', "<[A|" + tx + "]>"),
        "buffered-decorated": (' buffered="True" decorator="deco"', "<[A|" + tx + "]>"),
        "calls-buffered": ("", "[A|" + tx + "]"),
    }
    for fk, (attr, exp) in flav.items():
        if fk == "calls-buffered":
            src = HEAD + '<%def name="inner(a)" buffered="True">[${a}|' + tx + ']</%def><%def name="d(a=\'A\')">${inner(a)}</%def>page'
        else:
            src = HEAD + '<%def name="d(a=\'A\')"' + attr + ">[${a}|" + tx + "]</%def>page"
        for tkw in ("none", "format_exceptions", "error_handler", "strict_undefined", "enable_loop_off", "output_encoding", "buffer_filters"):
            for route in ("render_unicode", "render", "render_context"):
                for arg in ("default", "kw"):
                    e = exp if arg == "default" else exp.replace("[A|", "[B|")
                    if tkw == "buffer_filters" and ("buffered" in attr or fk == "calls-buffered"):
                        # (the decorator wraps the call from outside: the buffer filter sees the def's own content)
                        e = "<f[" + e[1:-1] + "]>" if fk == "buffered-decorated" else "f[" + e + "]"
                    out.append({"group": "getdef", "name": "getdef:%s:%s:%s:%s" % (fk, tkw, route, arg), "src": src, "exp": e, "getdef": "d", "tkw": tkw, "route": route, "arg": arg})
    return out


def _tkw(name):
    if name == "none":
        return {}
    if name == "format_exceptions":
        return {"format_exceptions": True}
    if name == "error_handler":
        return {"error_handler": lambda context, error: True}
    if name == "strict_undefined":
        return {"strict_undefined": True}
    if name == "enable_loop_off":
        return {"enable_loop": False}
    if name == "output_encoding":
        return {"output_encoding": "utf-16", "encoding_errors": "replace"}
    if name == "buffer_filters":
        return {"buffer_filters": ["tagf"]}
    raise AssertionError(name)


def _run_getdef(case, seed, log):
    from mako.runtime import Context
    from mako.template import Template
    from mako.util import FastEncodingBuffer

    t = Template(case["src"], **_tkw(case["tkw"]))
    outs = []
    for _ in range(2):
        d = t.get_def(case["getdef"])
        kw = dict(ctx(seed, log))
        if case["arg"] == "kw":
            kw["a"] = "B"
        if case["route"] == "render_unicode":
            outs.append(d.render_unicode(**kw))
        elif case["route"] == "render":
            r = d.render(**kw)
            outs.append(r.decode(t.output_encoding) if isinstance(r, bytes) else r)
        else:
            buf = FastEncodingBuffer()
            a = {"a": kw.pop("a")} if "a" in kw else {}
            d.render_context(Context(buf, **kw), **a)
            outs.append(buf.getvalue())
    if outs[0] != outs[1]:
        return ("ok", "first render %r, second render %r" % (outs[0], outs[1]))
    return ("ok", outs[0])


def run(case, seed=0):
    """-> (obs, log): obs = ("ok", text) | ("exc", class, message)"""
    from mako.template import Template

    log = []
    if case.get("getdef"):
        try:
            return _run_getdef(case, seed, log), log
        except Exception as e:  # noqa
            return ("exc", type(e).__name__, str(e)[:200]), log
    try:
        t = Template(case["src"])
        o1 = t.render_unicode(**ctx(seed, log))
        n1 = len(log)
        o2 = t.render_unicode(**ctx(seed, log))
        if o1 != o2:
            return ("ok", "first render %r, second render %r" % (o1, o2)), log
        log[:] = log[:n1]
        return ("ok", o1), log
    except Exception as e:  # noqa
        return ("exc", type(e).__name__, str(e)[:200]), log
