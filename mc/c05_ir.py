"""C05 helper: the program IR, its enumerator (skeletons by weight), the finaliser
(names, markers, probes) and the printer into Mako syntax.

Nothing here imports mako or the reference interpreter.

IR (JSON-able)
    program = {"defs": [def...], "body": [stmt...], "cfg": cfg_id, "ctx": {name: value}}
    def     = {"name", "sig", "buffered": bool, "filters": [names], "deco": bool, "defs": [nested def...], "body": [stmt...]}
              optional "bspell": the text of buffered="..." (its truth value is "buffered"), "cspell": text of cached="..."
    stmt    = ["text", s]
            | ["expr", python_source]                       ${...}
            | ["call", form, name, args, content]           args: python source of the argument list, or for the
                                                            namespace-tag forms a list of [key, [["lit", s] | ["expr", src], ...]]
            | ["for", var, n, body]                         % for var in range(n):
            | ["block", [filter names], body]               <%block filter="...">
            | ["nblock", name, sig, body]                   <%block name="..." args="sig">  (top level of the body only)
    program may also have "page": parameter-list source (<%page args="..."/>) and "render_args": python source of the
    argument list given to Template.render_unicode() besides the context values
    content = {"args": python parameter-list source, "named": [def...], "body": [stmt...]}

call forms
    bare   ${f(A)}            self  ${self.f(A)}        local ${local.f(A)}
    cap    ${capture(f, A)}   cat   ${"<" + f(A) + ">"}   stmt <% f(A) %>  (products only)
    tcall  <%call expr="f(A)">        tcallself <%call expr="self.f(A)">
    tself  <%self:f k="v" ...>        tlocal    <%local:f k="v" ...>
"""

import functools

EXPR_FORMS = ("bare", "self", "local", "cap", "cat")
TAG_FORMS = ("tcall", "tcallself", "tself", "tlocal")
BARE_FORMS = ("bare", "cap", "cat", "tcall")  # reach the def by its bare name: usable for nested defs
NS_FORMS = ("tself", "tlocal")

CFGS = {
    0: {},
    1: {"buffer_filters": ["bf"]},
    2: {"default_filters": ["str", "ef"]},
    3: {"buffer_filters": ["bf"], "default_filters": ["str", "ef"]},
    # buffer filters that are also used as def / block filters (a filter named in both lists is applied in both places)
    4: {"buffer_filters": ["bf", "f1"]},
    5: {"buffer_filters": ["f1"]},
}

BODYARGS = ("", "x", "x, y=1")

# ---------------------------------------------------------------------------
# printer


def p_args_attrs(attrs):
    out = []
    for key, parts in attrs:
        v = "".join(p[1] if p[0] == "lit" else "${%s}" % p[1] for p in parts)
        assert '"' not in v
        out.append(' %s="%s"' % (key, v))
    return "".join(out)


def p_content(c):
    return "".join(p_def(d) for d in c["named"]) + p_block(c["body"])


def p_stmt(s):
    k = s[0]
    if k == "text":
        return s[1]
    if k == "expr":
        return "${%s}" % s[1]
    if k == "for":
        # the finaliser guarantees a preceding "\n" text and a trailing "\n" text inside the body
        return "%% for %s in range(%d):\n%s%% endfor\n" % (s[1], s[2], p_block(s[3]))
    if k == "block":
        return '<%%block filter="%s">%s</%%block>' % (",".join(s[1]), p_block(s[2]))
    if k == "nblock":
        assert '"' not in s[2]
        return '<%%block name="%s" args="%s">%s</%%block>' % (s[1], s[2], p_block(s[3]))
    if k == "call":
        _, form, name, args, content = s
        if form == "bare":
            return "${%s(%s)}" % (name, args)
        if form == "self":
            return "${self.%s(%s)}" % (name, args)
        if form == "local":
            return "${local.%s(%s)}" % (name, args)
        if form == "cap":
            return "${capture(%s%s)}" % (name, ", " + args if args else "")
        if form == "cat":
            return '${"<" + %s(%s) + ">"}' % (name, args)
        if form == "stmt":
            return "<%% %s(%s) %%>" % (name, args)  # statement call: the return value is dropped
        bargs = ' args="%s"' % content["args"] if content["args"] else ""
        if form in ("tcall", "tcallself"):
            assert '"' not in args
            tgt = name if form == "tcall" else "self." + name
            return '<%%call expr="%s(%s)"%s>%s</%%call>' % (tgt, args, bargs, p_content(content))
        ns = "self" if form == "tself" else "local"
        return "<%%%s:%s%s%s>%s</%%%s:%s>" % (ns, name, p_args_attrs(args), bargs, p_content(content), ns, name)
    raise ValueError(k)


def p_block(stmts):
    return "".join(p_stmt(s) for s in stmts)


def p_def(d):
    attrs = ' name="%s(%s)"' % (d["name"], d["sig"])
    if d.get("bspell") is not None:
        attrs += ' buffered="%s"' % d["bspell"]  # explicit spelling; d["buffered"] is its truth value
    elif d["buffered"]:
        attrs += ' buffered="True"'
    if d.get("cspell") is not None:
        attrs += ' cached="%s"' % d["cspell"]  # only false spellings are generated (caching itself is C17)
    if d["filters"]:
        attrs += ' filter="%s"' % ",".join(d["filters"])
    if d["deco"]:
        attrs += ' decorator="deco"'
    return "<%%def%s>%s%s</%%def>" % (attrs, "".join(p_def(n) for n in d["defs"]), p_block(d["body"]))


def print_program(prog):
    page = ""
    if prog.get("page") is not None:
        assert '"' not in prog["page"]
        page = '<%%page args="%s"/>' % prog["page"]
    return page + "".join(p_def(d) for d in prog["defs"]) + p_block(prog["body"])


def template_kwargs(prog):
    from mc import c05_env

    kw = {"imports": list(c05_env.IMPORTS)}
    kw.update(CFGS[prog["cfg"]])
    return kw


# ---------------------------------------------------------------------------
# skeleton enumerator
#
# skeleton stmt = ("call", form, flags, placement, content, callee_body)
#                    flags = (buffered, nfilt, deco); placement "top" | "nested"
#                    content = None | (bodyargs_id, named_body | None, body)
#               | ("cb", mode)      mode "plain" | "cap"    (explicit use of caller.body)
#               | ("cn",)           caller.named()
#               | ("for", body) | ("block", nfilt, body)
#
# ctx = (depth_left, in_def, caller, in_for, in_block)
#   caller: None = not fixed by the statement (inside an anonymous block) ; "top" ; (has_content, bodyargs_id, has_named)


class Alphabet:
    """which choices exist and what each one weighs (the base weight of every statement is 1)"""

    def __init__(self, name, forms, flags, bodyargs=(0, 1, 2), named=True, cb_modes=("plain", "cap"), loops=True,
                 blocks=True, nested=True, form_cost=None, flag_cost=0, ba_cost=(0, 0, 0), nested_cost=0, maxlen=3):
        self.name = name
        self.forms = tuple(forms)
        self.flags = tuple(flags)
        self.bodyargs = tuple(bodyargs)
        self.named = named
        self.cb_modes = tuple(cb_modes)
        self.loops = loops
        self.blocks = blocks
        self.nested = nested
        self.form_cost = form_cost or {}
        self.flag_cost = flag_cost
        self.ba_cost = tuple(ba_cost)
        self.nested_cost = nested_cost
        self.maxlen = maxlen
        self._memo = {}

    def cost_flags(self, fl):
        return self.flag_cost * (int(fl[0]) + (1 if fl[1] else 0) + int(fl[2]))


ALL_FLAGS = tuple((b, f, d) for b in (False, True) for f in (0, 1, 2) for d in (False, True))


def gen_seq(A, ctx, w, maxlen=None):
    """all statement sequences of total weight exactly w (tuple of tuples), simplest first; memoised list"""
    if maxlen is None:
        maxlen = A.maxlen
    key = ("seq", ctx, w, maxlen)
    r = A._memo.get(key)
    if r is None:
        r = A._memo[key] = list(iter_seq(A, ctx, w, maxlen))
    return r


def iter_seq(A, ctx, w, maxlen=None):
    """lazy version of gen_seq: only parts of weight < w are materialised"""
    if maxlen is None:
        maxlen = A.maxlen
    if w == 0:
        yield ()
        return
    if maxlen <= 0:
        return
    for w1 in range(1, w):
        firsts = gen_stmt(A, ctx, w1)
        if not firsts:
            continue
        rests = gen_seq(A, ctx, w - w1, maxlen - 1)
        for s in firsts:
            for rest in rests:
                yield (s,) + rest
    for s in iter_stmt(A, ctx, w):
        yield (s,)


def gen_stmt(A, ctx, w):
    key = ("stmt", ctx, w)
    r = A._memo.get(key)
    if r is None:
        r = A._memo[key] = list(iter_stmt(A, ctx, w))
    return r


def iter_stmt(A, ctx, w):
    depth, in_def, caller, in_for, in_block = ctx
    if w == 1 and isinstance(caller, tuple) and caller[0]:
        for m in A.cb_modes:
            yield ("cb", m)
        if caller[2]:
            yield ("cn",)
    if depth > 0:
        for form in A.forms:
            fc = A.form_cost.get(form, 0)
            placements = ("top", "nested") if (A.nested and in_def and form in BARE_FORMS) else ("top",)
            for fl in A.flags:
                for pl in placements:
                    left = w - 1 - fc - A.cost_flags(fl) - (A.nested_cost if pl == "nested" else 0)
                    if left < 0:
                        continue
                    if form in EXPR_FORMS:
                        cctx = (depth - 1, True, (False, 0, False), False, False)
                        for cb in gen_seq(A, cctx, left):
                            yield ("call", form, fl, pl, None, cb)
                    else:
                        for ba in A.bodyargs:
                            for named in ((False, True) if A.named else (False,)):
                                l2 = left - (1 if named else 0) - A.ba_cost[ba]
                                if l2 < 0:
                                    continue
                                cctx = (depth - 1, True, (True, ba, named), False, False)
                                bctx = (depth - 1, in_def, caller, in_for, in_block)
                                nctx = (depth - 1, True, None, False, False)  # `caller` inside a def written in a call: not fixed
                                for wc in range(l2 + 1):
                                    callee = gen_seq(A, cctx, wc)
                                    for wb in range(l2 - wc + 1):
                                        wn = l2 - wc - wb
                                        if wn and not named:
                                            continue
                                        bodies = gen_seq(A, bctx, wb)
                                        nbodies = gen_seq(A, nctx, wn) if named else [None]
                                        for c in callee:
                                            for b in bodies:
                                                for nb in nbodies:
                                                    yield ("call", form, fl, pl, (ba, nb, b), c)
    if A.loops and not in_for and w >= 2:
        fctx = (depth, in_def, caller, True, in_block)
        for b in gen_seq(A, fctx, w - 1):
            yield ("for", b)
    if A.blocks and not in_block and w >= 2:
        bctx = (depth, in_def, None, in_for, True)
        for b in gen_seq(A, bctx, w - 1):
            yield ("block", 1, b)


def top_ctx(depth):
    return (depth, False, "top", False, False)


def count_programs(A, depth, w):
    return sum(1 for _ in iter_seq(A, top_ctx(depth), w))


def iter_programs(A, depth, w):
    return iter_seq(A, top_ctx(depth), w)


# ---------------------------------------------------------------------------
# skeleton statistics


def skel_stats(seq):
    """(max nesting of calls with content, number of calls with content, calls, defs with >=2 flags or flag+content)"""
    best = [0, 0, 0, 0]

    def walk(stmts, cdepth):
        for s in stmts:
            if s[0] == "call":
                best[2] += 1
                _, form, fl, pl, content, callee = s
                nfl = int(fl[0]) + (1 if fl[1] else 0) + int(fl[2])
                d = cdepth
                if content is not None:
                    best[1] += 1
                    d = cdepth + 1
                    best[0] = max(best[0], d)
                    if nfl:
                        best[3] += 1
                    if content[1] is not None:
                        walk(content[1], d)
                        if len(content) > 3 and any(content[3]):
                            best[3] += 1
                    walk(content[2], d)
                if nfl >= 2:
                    best[3] += 1
                walk(callee, d)
            elif s[0] == "for":
                walk(s[1], cdepth)
            elif s[0] == "block":
                walk(s[2], cdepth)

    walk(seq, 0)
    return tuple(best)


# ---------------------------------------------------------------------------
# finaliser: skeleton -> program IR

NAME_POOL = ["d", "p", "q", "m"]
TEXT_POOL = ["B", "Z", "é", "ж"]


def filters_of(n):
    return [[], ["f1"], ["f1", "f2"]][n]


def cb_expr(mode, ba, k):
    """expression source that runs the caller's body; k = running index of the use inside its def"""
    kw = ["", "x=a", "x=a" if k % 2 == 0 else "x=a, y=%d" % (k + 1)][ba]
    if mode == "plain":
        return "caller.body(%s)" % kw
    if mode == "cap":
        return "'{' + capture(caller.body%s) + '}'" % (", " + kw if kw else "")
    if mode == "guard":
        return "caller.body(%s) if caller else '~'" % kw
    raise ValueError(mode)


class _Fin:
    def __init__(self, seed, cfg):
        self.n = 0
        self.pre = NAME_POOL[seed % len(NAME_POOL)]
        self.txt = TEXT_POOL[seed % len(TEXT_POOL)]
        self.cfg = cfg
        self.top = []

    def block(self, stmts, scope, caller, encl):
        """scope: names printable here; caller: lexical caller info; encl: the def dict the statements are written in (or None)"""
        out = []
        for s in stmts:
            k = s[0]
            if k == "cb":
                encl_k = scope["cbk"]
                scope["cbk"] = encl_k + 1
                out.append(["expr", cb_expr(s[1], caller[1], encl_k)])
            elif k == "cn":
                out.append(["expr", "caller.named()"])
            elif k == "for":
                out.append(["text", "\n"])
                body = [["expr", "i"]] + self.block(s[1], scope, caller, encl) + [["text", "\n"]]
                out.append(["for", "i", 2, body])
            elif k == "block":
                body = [["text", "|"]] + self.block(s[2], scope, None, encl) + [["text", "|"]]
                out.append(["text", "\n"])  # anonymous blocks are named after their line: one per line
                out.append(["block", filters_of(s[1]), body])
            elif k == "call":
                out.extend(self.call(s, scope, caller, encl))
            else:
                raise ValueError(k)
        return out

    def newdef(self, name, sig, fl, body_skel, callerinfo, opener, closer, outer_a=False):
        d = {"name": name, "sig": sig, "buffered": bool(fl[0]), "filters": filters_of(fl[1]), "deco": bool(fl[2]), "defs": [], "body": None}
        scope = {"cbk": 0, "a": sig == "a" or outer_a}
        body = [["text", name + opener]]
        if sig == "a":
            body.append(["expr", "a"])
            body.append(["text", ":"])
        body += self.block(body_skel, scope, callerinfo, d)
        body.append(["text", closer])
        d["body"] = body
        return d

    def call(self, s, scope, caller, encl):
        _, form, fl, pl, content, callee = s
        self.n += 1
        idx = self.n
        name = "%s%d" % (self.pre, idx)
        if content is None:
            info = (False, 0, False)
        else:
            info = (True, content[0], content[1] is not None)
        d = self.newdef(name, "a", fl, callee, info, "(", ")")
        if pl == "nested" and encl is not None:
            encl["defs"].append(d)
        else:
            self.top.append((idx, d))
        if form in NS_FORMS:
            # literal / expression / mixture, by site index
            if idx % 3 == 0:
                args = [["a", [["lit", str(idx)]]]]
            elif idx % 3 == 1:
                args = [["a", [["expr", str(idx)]]]]
            else:
                args = [["a", [["lit", str(idx)], ["expr", "v"]]]]
        else:
            args = str(idx)
        c = None
        if content is not None:
            ba, nb, b = content[:3]
            nfl = content[3] if len(content) > 3 else (False, 0, False)
            named = []
            if nb is not None:
                nd = self.newdef("named", "", nfl, nb, None, "{", "}", outer_a=scope["a"])
                nd["body"][0] = ["text", "named%d{" % idx]  # which call's def this is must be visible
                named.append(nd)
            body = [["text", "%s%d<" % (self.txt, idx)]]
            if ba >= 1:
                body.append(["expr", "x"])
            if ba == 2:
                body += [["text", ","], ["expr", "y"]]
            if scope["a"]:
                body += [["text", "^"], ["expr", "a"]]  # the calling scope is visible
            body += self.block(b, scope, caller, encl)
            body.append(["text", ">"])
            c = {"args": BODYARGS[ba], "named": named, "body": body}
        out = [["call", form, name, args, c]]
        # caller-identity probe after the call: `caller` must be what it was before
        if caller is not None:
            if caller == "top":
                out.append(["expr", "caller.body() if caller else '~'"])
            else:
                k = scope["cbk"]
                scope["cbk"] = k + 1
                out.append(["expr", cb_expr("guard", caller[1], k)])
        return out


def finalize(skel, seed=0, cfg=0):
    from mc import c05_env

    f = _Fin(seed, cfg)
    body = [["text", "["]] + f.block(skel, {"cbk": 0, "a": False}, "top", None) + [["text", "]"]]
    defs = [d for _, d in sorted(f.top, key=lambda t: t[0])]
    return {"defs": defs, "body": body, "cfg": cfg, "ctx": {"v": c05_env.V_POOL[seed % len(c05_env.V_POOL)]}}
