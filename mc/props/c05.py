"""C05 - defs write at the call site; buffering, capture and calls with content.

Engine E1: exhaustive bounded enumeration of template programs (IR in
mc/c05_ir.py), each printed into Mako syntax, compiled and rendered by the real
Template, and compared with an independent reference interpreter of the IR
(mc/c05_ref.py: explicit buffer stack, lexical `caller`, Python itself binds
arguments and evaluates expression leaves).

Families (each enumerated completely, no sampling)
  bind  signature x argument list x call form x flag set x placement   (argument binding, arity errors)
  flags every flag subset x call form x placement x callee shape x body args x template configuration
        (buffered / filter= / decorator= / buffer_filters / default filters), also from a call body and a loop;
        plus a def written inside a call that is itself invoked with content
  kwonly keyword-only parameters after *args (defaulted before required and the other way round) x every positional
        prefix x every subset of the keywords, wherever a signature is written: <%def name>, <%call/%ns:def args>
        (caller.body(**args)), <%page args> (Template.render(*a, **kw)), <%block name args> (in place and self.blk(..))
  extra three products: buffered=/cached= spelled with true and false literals on top-level, nested and in-call defs
        x call sites where returning and writing differ (concatenation, capture, statement call); <%ns:def a="...">
        values of <= 3 pieces from {${v}, ${w}, x, LF, CRLF, blank-with-LF, blank}; calls with a def whose body holds
        (directly, under % for, in a block, in a further call) another call with a def of the same name
  tree  every program tree of weight <= W over the full alphabet, and of weight W+1 over a smaller alphabet
        (calls with content nested in callee bodies, call bodies, nested defs, defs inside calls, loops,
         anonymous filtered blocks; caller.body() 0..n times, capture(caller.body), caller.named();
         a caller-identity probe after every call)

Oracles: rendered text == reference text; TypeError where Python's binding rules raise it; after a successful
render the Context's buffer stack and caller stack are as before; a second render gives the same text.

Violations of four recorded defects are recognised by a footprint test (an alternative model or a neutralised
program must reproduce mako's outcome exactly) and get the fixed signatures
  bind:bare-star-dropped
  calldef-decorator:not exported on caller
  calldef-caller:sees the call site's caller
  calldef-leak:def of an inner call exported on the outer caller
every other disagreement gets a signature made of the family and the first differing output tokens.
"""

import itertools
import json
import os
import time

from mc import core
from mc.core import Stats
from mc import c05_env, c05_ir as ir, c05_ref as ref

PROPERTY = "C05"
LEVEL = "model_checking"
ENGINE = "E1"
TECHNIQUE = (
    "bounded exhaustive enumeration of template programs (weight-bounded IR trees and feature products), each compiled "
    "and rendered twice by the real Template and compared with an independent reference interpreter (buffer stack, "
    "lexical caller, Python-bound arguments); plus a state-restored check on Context"
)
RULE = (
    "bind: every (signature, argument list | tag attribute list, call form of 9, flag set, top-level | nested placement) "
    "tuple of the pools SIGS x ARGS/ATTRS; flags: every (flag subset of {buffered, filter=f1 | f1,f2, decorator} (12), call "
    "form (9), placement top / nested / def inside the call, callee shape, body args, template configuration "
    "{plain, buffer_filters, default_filters, both}) tuple, each also issued from another call's body and from a loop, plus "
    "the def-inside-a-call invoked with content; kwonly: every (signature with keyword-only parameters after *args, positional "
    "prefix, subset of the keywords given) tuple in a <%def> (9 call forms x placement x flag), in the args= of a call with "
    "content (callee runs caller.body(ARGS)), in <%page args> (render(ARGS)) and in <%block name args> (rendered in place "
    "with the page's values and called as self.blk(ARGS)); extra: every (place, buffered=/cached= literal, filter, call form incl. <% f() %>, "
    "configuration) tuple, every attribute value of <= n pieces over 7 tokens x tag form x call site, every inner-defs shape; "
    "tree: every statement sequence (<= 3 statements per block) of weight <= W "
    "over the full alphabet and of weight W+1 over a smaller alphabet, where a call weighs 1 + 1 per flag + 1 for a form "
    "other than ${f()} / <%call expr> + 1 for body args + 1 for nested placement + 1 for a def inside the call, and "
    "caller.body() / capture(caller.body) / caller.named() / % for / <%block filter> weigh 1 each; call nesting <= depth; "
    "after every call a caller-identity probe ${caller.body(..) if caller else '~'}. Canonical = the program tree "
    "(distinct trees print to distinct sources; states = programs). Non-trivial = >= 2 nested calls with content, or a "
    "def with >= 2 flags, or a flag on a def called with content (tree, flags); a signature with defaults/*/** or an "
    "argument list using keywords/unpacking or a tag attribute list (bind)."
)
ASSUMPTIONS = [
    "the reference interpreter (mc/c05_ref.py, ~200 lines) implements DESIGN Appendix A1/A3 only; CPython eval/exec/str are trusted",
    "`caller` is modelled lexically (the caller of the innermost enclosing def); inside an anonymous <%block> the statement "
    "does not fix `caller`, so no caller use or probe is generated there (DONT_CARE)",
    "a def invoked while the argument expressions of a call with content are evaluated (f(g0()), a=\"${g0()}\") never looks "
    "at `caller` (what it would see is not fixed by the statement)",
    "mixtures in tag attributes contain only string-valued expressions; body arguments are passed by keyword; a CRLF inside "
    "the literal text of an attribute value is read as LF (the lexer normalises line ends of attribute values)",
    "filters, buffer filters, default filters and the decorator are tagging functions of mc/c05_env.py supplied through "
    "Template(imports=...)",
    "exceptions: only the class of arity errors (TypeError) is compared; buffer/caller stack balance is checked after "
    "successful renders only (exception paths belong to C13)",
    "`caller` inside a def written in a call is compared only when that def is itself invoked with content (then the "
    "statement fixes it); anonymous blocks are generated with filter= only (buffered/decorated blocks: not fixed)",
    "transitions = IR statements executed (counted by the reference; equal on the implementation when outputs agree)",
]

N_ = (False, 0, False)
B_ = (True, 0, False)
F_ = (False, 1, False)
D_ = (False, 0, True)

_FC = {f: 1 for f in ("self", "local", "cap", "cat", "tcallself", "tself", "tlocal")}


def alphabets():
    cost = dict(flag_cost=1, ba_cost=(0, 1, 1), nested_cost=1)
    return {
        # everything: 9 call forms, all 12 flag subsets, 3 body-arg shapes, nested placement, def inside the call,
        # caller.body() / capture(caller.body) / caller.named(), % for, <%block filter>
        "full": ir.Alphabet("full", forms=ir.EXPR_FORMS + ir.TAG_FORMS, flags=ir.ALL_FLAGS, form_cost=_FC, **cost),
        # one weight deeper, thorough tier: ${f()}, <%call>, <%self:f>; {none, buffered, filter}; body args {none, x};
        # def inside the call; caller.body(), caller.named(); % for; no blocks, no nested placement
        "core": ir.Alphabet("core", forms=("bare", "tcall", "tself"), flags=(N_, B_, F_), bodyargs=(0, 1), cb_modes=("plain",),
                            nested=False, blocks=False, form_cost={"tself": 1}, **cost),
        # one weight deeper, quick tier: ${f()} and <%call>; {none, buffered}; def inside the call; caller.body(),
        # caller.named() (no loops, <= 2 statements per block: the quick tier has to fit 60 s on a heavily shared machine)
        "mini": ir.Alphabet("mini", forms=("bare", "tcall"), flags=(N_, B_), bodyargs=(0,), cb_modes=("plain",),
                            nested=False, blocks=False, loops=False, maxlen=2, **cost),
    }


BOUNDS = {
    "quick": {
        "tree": [{"alphabet": "full", "W": [1, 2, 3, 4], "depth": 3}, {"alphabet": "mini", "W": [5], "depth": 3}],
        "bind": {"sigs": 8, "flags": [list(N_), list(D_), [True, 1, False]]},
        "flags": {"cfgs": [0, 3, 4, 5]},
        "kwonly": {"sigs": 3, "flags": [list(N_), list(D_)]},
        "extra": {"spell_cfgs": [0, 1], "attr_len": 3},
        "direct": "armed: 12 call shapes x 3 functions evaluated in the expression / an attribute of a call with content (plain, supports_caller, supports_caller reading caller); empty: 8 bodies (6 of them writing nothing) x 4 filter lists x up to 8 places; nscall: 6 shapes of an inline callable called with content x 4 call spellings x 3 bodies using caller; each Template rendered twice",
        "block_len": 3,
    },
    "thorough": {
        "tree": [{"alphabet": "full", "W": [1, 2, 3, 4, 5], "depth": 4}, {"alphabet": "core", "W": [6], "depth": 4}],
        "bind": {"sigs": 10, "flags": [list(N_), list(B_), list(F_), list(D_), [True, 2, True]]},
        "flags": {"cfgs": [0, 1, 2, 3, 4, 5]},
        "kwonly": {"sigs": 5, "flags": [list(N_), list(B_), list(F_), list(D_)]},
        "extra": {"spell_cfgs": [0, 1, 2, 3], "attr_len": 4},
        "direct": "as quick",
        "block_len": 3,
    },
}

# ---------------------------------------------------------------------------
# family "bind"

SIGS = [
    ("", []),
    ("a", ["a"]),
    ("a, b=2", ["a", "b"]),
    ("*args", ["args"]),
    ("a, *, k=3", ["a", "k"]),
    ("**kw", ["kw"]),
    ("a, *rest, k, **kw", ["a", "rest", "k", "kw"]),
    ("a=1, b=2, *r, j=4, k=5", ["a", "b", "r", "j", "k"]),
    ("a, *, k", ["a", "k"]),
    ("a=1, *, k", ["a", "k"]),
]
ARGS = [
    "", "1", "1, 2", "1, 2, 3", "a=1", "1, k=5", "1, b=7", "k=5", "1, 2, k=5, z=9", "*[1, 2]", "**{'a': 1}", "v",
    "1, *[2], **{'k': 3}", "a=1, k=2", "g0()", "1, k=g0()", "7, j=8",
]
ATTRS = [
    [],
    [["a", [["lit", "1"]]]],
    [["a", [["expr", "1"]]]],
    [["a", [["lit", "x"], ["expr", "v"], ["lit", "y"], ["expr", "v + v"]]]],
    [["a", [["expr", "v"]]], ["k", [["lit", "lit"]]]],
    [["z", [["lit", "1"]]]],
    [["a", [["lit", "1"]]], ["b", [["expr", "2"]]]],
    [["k", [["expr", "g0()"]]]],
    [["a", [["expr", "g0()"]]], ["k", [["expr", "v"], ["lit", "-"]]]],
    [["a", [["lit", "1"]]], ["k", [["lit", "2"]]], ["z", [["lit", "3"]]]],
    [["a", [["expr", "[1, 2]"]]], ["k", [["expr", "None"]]]],
]


def bind_program(sig, params, args, form, fl, nested, seed):
    pre = ir.NAME_POOL[seed % len(ir.NAME_POOL)]
    txt = ir.TEXT_POOL[seed % len(ir.TEXT_POOL)]
    name = pre + "1"
    body = [["text", name + "("]]
    for p in params:
        body += [["text", p + "="], ["expr", "repr(%s)" % p], ["text", ";"]]  # repr: '1' and 1 must not look alike
    content = None
    if form in ir.TAG_FORMS:
        body.append(["expr", "caller.body() if caller else '~'"])
        content = {"args": "", "named": [], "body": [["text", txt]]}
    body.append(["text", ")"])
    d = {"name": name, "sig": sig, "buffered": bool(fl[0]), "filters": ir.filters_of(fl[1]), "deco": bool(fl[2]), "defs": [], "body": body}
    call = ["call", form, name, args, content]
    defs = []
    if "g0" in json.dumps(args):
        defs.append({"name": "g0", "sig": "", "buffered": True, "filters": [], "deco": False, "defs": [], "body": [["text", "G"]]})
    if nested:
        w = {"name": "w0", "sig": "", "buffered": False, "filters": [], "deco": False, "defs": [d], "body": [["text", "w0("], call, ["text", ")"]]}
        defs.append(w)
        pbody = [["text", "["], ["call", "bare", "w0", "", None], ["text", "]"]]
    else:
        defs.append(d)
        pbody = [["text", "["], call, ["text", "]"]]
    return {"defs": defs, "body": pbody, "cfg": 0, "ctx": {"v": c05_env.V_POOL[seed % len(c05_env.V_POOL)]}}


def iter_bind(tier, seed):
    b = BOUNDS[tier]["bind"]
    flags = [tuple(f) for f in b["flags"]]
    for (sig, params) in SIGS[: b["sigs"]]:
        for form in ir.EXPR_FORMS + ir.TAG_FORMS:
            pool = ATTRS if form in ir.NS_FORMS else ARGS
            for args in pool:
                for nested in ((False, True) if form in ir.BARE_FORMS else (False,)):
                    for fl in flags:
                        simple = sig in ("", "a") and not any(c in json.dumps(args) for c in "=*") and form not in ir.NS_FORMS
                        yield {"family": "bind", "sig": sig, "nontrivial": not simple,
                               "prog": bind_program(sig, params, args, form, fl, nested, seed)}


# ---------------------------------------------------------------------------
# family "flags"


def iter_flags(tier, seed):
    cfgs = BOUNDS[tier]["flags"]["cfgs"]
    inner_bf = ("call", "bare", (True, 1, False), "top", None, ())  # a buffered+filtered def called from the callee
    for cfg in cfgs:
        for fl in ir.ALL_FLAGS:
            for form in ir.EXPR_FORMS + ir.TAG_FORMS:
                places = ("top", "nested") if form in ir.BARE_FORMS else ("top",)
                for pl in places:
                    if form in ir.EXPR_FORMS:
                        shapes = [(None, ()), (None, (inner_bf,))]
                    else:
                        shapes = []
                        for ba in (0, 1):
                            for callee in ((), (("cb", "plain"),), (("cb", "plain"), ("cb", "cap")), (inner_bf, ("cb", "plain"))):
                                shapes.append(((ba, None, ()), callee))
                        # a def inside the call, itself flagged, invoked through caller.named()
                        shapes.append(((0, (), (), fl), (("cn",), ("cb", "plain"))))
                        shapes.append(((1, (inner_bf,), (), fl), (("cn",), ("cn",))))
                    for content, callee in shapes:
                        call = ("call", form, fl, pl, content, callee)
                        if pl == "nested":
                            skel = (("call", "bare", N_, "top", None, (call,)),)
                        else:
                            skel = (call,)
                        yield {"family": "flags", "skel": skel, "cfg": cfg}
                        if content is not None and content[1] is None:
                            # the same call issued from inside another call's body and from a loop
                            yield {"family": "flags", "cfg": cfg,
                                   "skel": (("call", "tcall", N_, "top", (0, None, (call,)), (("cb", "plain"), ("cb", "plain"))),)}
                            yield {"family": "flags", "cfg": cfg, "skel": (("for", (call,)),)}
    yield from iter_calldef(cfgs[:2], seed)


def calldef_program(form, nfl, in_def, mention, seed, cfg):
    """a def written inside a call, itself invoked WITH content by the callee; it must see its own caller"""
    pre = ir.NAME_POOL[seed % len(ir.NAME_POOL)]
    txt = ir.TEXT_POOL[seed % len(ir.TEXT_POOL)]
    probe = ["expr", "caller.body() if caller else '~'"]

    def mkdef(name, sig, body, fl=N_):
        return {"name": name, "sig": sig, "buffered": bool(fl[0]), "filters": ir.filters_of(fl[1]), "deco": bool(fl[2]), "defs": [], "body": body}

    d2 = mkdef(pre + "2", "a", [["text", pre + "2("], ["call", "tcall", "caller.named", "", {"args": "", "named": [], "body": [["text", "N<>"]]}], ["text", ")"]])
    named = mkdef("named", "", [["text", "named{"], probe, ["text", "}"]], nfl)
    args = "2" if form in ("tcall", "tcallself") else [["a", [["lit", "2"]]]]
    site = [["call", form, pre + "2", args, {"args": "", "named": [named], "body": [["text", txt + "2<>"]]}]]
    if mention:
        site.append(probe)
    if in_def:
        d1 = mkdef(pre + "1", "a", [["text", pre + "1("]] + site + [["text", ")"]])
        body = [["text", "["], ["call", "tcall", pre + "1", "1", {"args": "", "named": [], "body": [["text", txt + "1<>"]]}], ["text", "]"]]
        defs = [d1, d2]
    else:
        body = [["text", "["]] + site + [["text", "]"]]
        defs = [d2]
    return {"defs": defs, "body": body, "cfg": cfg, "ctx": {"v": c05_env.V_POOL[seed % len(c05_env.V_POOL)]}}


def iter_calldef(cfgs, seed):
    for cfg in cfgs:
        for form in ("tcall", "tself"):
            for nfl in (N_, B_, F_, (True, 2, False)):
                for in_def in (False, True):
                    for mention in (False, True):
                        yield {"family": "flags", "calldef": True, "nontrivial": True,
                               "prog": calldef_program(form, nfl, in_def, mention, seed, cfg)}


# ---------------------------------------------------------------------------
# family "kwonly": keyword-only parameters after *args, with and without defaults in every order, in every place a
# signature is written: <%def name>, <%call/%ns:def args> (caller.body(**args)), <%page args>, <%block args>

KW_SIGS = [
    # (signature, parameters in order, positional prefixes, keyword names -> value given)
    ("*a, b='B', c", ["a", "b", "c"], ["", "11", "11, 12"], [[("b", 2), ("c", 3)]]),
    ("x, *a, j=4, k", ["x", "a", "j", "k"], ["", "11", "11, 12", "x=9"], [[("j", 5), ("k", 6)]]),
    ("*a, j=4, k, m=6", ["a", "j", "k", "m"], ["", "11", "11, 12"], [[("j", 5), ("k", 6), ("m", 7)]]),
    ("x, *a, k=1, r, **kw", ["x", "a", "k", "r", "kw"], ["", "11", "11, 12"], [[("k", 5), ("r", 6), ("z", 8)]]),
    ("*a, p, q='Q', r, s='S'", ["a", "p", "q", "r", "s"], ["", "11"], [[("p", 2), ("q", 3), ("r", 4), ("s", 5)]]),
]


def kw_arglists(sigrec):
    """every positional prefix x every subset of the keywords (each keyword given / omitted), as (source, keywords)"""
    sig, params, prefixes, kws = sigrec
    out = []
    for pre in prefixes:
        for n in range(len(kws[0]) + 1):
            for sub in itertools.combinations(kws[0], n):
                parts = ([pre] if pre else []) + ["%s=%d" % kv for kv in sub]
                out.append((", ".join(parts), pre, list(sub)))
    return out


def _params_text(name, params):
    body = [["text", name + "("]]
    for p in params:
        body += [["text", p + "="], ["expr", "repr(%s)" % p], ["text", ";"]]
    return body


def kwonly_def_program(sigrec, args, form, fl, nested, seed):
    return bind_program(sigrec[0], sigrec[1], args, form, fl, nested, seed)


def kwonly_body_program(sigrec, args, form, in_def, seed):
    """the signature is the args= of a call with content; the callee runs caller.body(ARGS)"""
    sig, params = sigrec[0], sigrec[1]
    pre = ir.NAME_POOL[seed % len(ir.NAME_POOL)]
    txt = ir.TEXT_POOL[seed % len(ir.TEXT_POOL)]
    name = pre + "1"
    d = {"name": name, "sig": "a", "buffered": False, "filters": [], "deco": False, "defs": [],
         "body": [["text", name + "("], ["expr", "caller.body(%s)" % args], ["text", ")"]]}
    content = {"args": sig, "named": [], "body": _params_text(txt, params) + [["text", ")"]]}
    cargs = "1" if form == "tcall" else [["a", [["lit", "1"]]]]
    call = ["call", form, name, cargs, content]
    if in_def:
        w = {"name": "w0", "sig": "", "buffered": False, "filters": [], "deco": False, "defs": [], "body": [["text", "w0("], call, ["text", ")"]]}
        defs, body = [d, w], [["text", "["], ["call", "bare", "w0", "", None], ["text", "]"]]
    else:
        defs, body = [d], [["text", "["], call, ["text", "]"]]
    return {"defs": defs, "body": body, "cfg": 0, "ctx": {"v": c05_env.V_POOL[seed % len(c05_env.V_POOL)]}}


def kwonly_page_program(sigrec, render_args, block_call, seed):
    """<%page args=SIG/>; render(ARGS); optionally a named block with the same args=, rendered in place and called
    explicitly as self.blk(block_call)"""
    sig, params = sigrec[0], sigrec[1]
    body = _params_text("body", params) + [["text", ")"]]
    if block_call is not None:
        body.append(["nblock", "blk", sig, _params_text("blk", params) + [["text", ")"]]])
        body += [["text", "|"], ["call", "self", "blk", block_call, None], ["text", "|"]]
    return {"defs": [], "body": body, "cfg": 0, "page": sig, "render_args": render_args,
            "ctx": {"v": c05_env.V_POOL[seed % len(c05_env.V_POOL)]}}


def _attrs_of(kws):
    out = []
    for i, (k, val) in enumerate(kws):
        out.append([k, [["expr", str(val)]] if i % 2 == 0 else [["lit", str(val)]]])
    return out


def iter_kwonly(tier, seed):
    b = BOUNDS[tier]["kwonly"]
    flags = [tuple(f) for f in b["flags"]]
    for rec in KW_SIGS[: b["sigs"]]:
        sig = rec[0]
        lists = kw_arglists(rec)
        full = [a for a in lists if a[1] == rec[2][1] and len(a[2]) == len(rec[3][0])][0][0]  # one positional, every keyword
        for args, pre, kws in lists:
            for form in ir.EXPR_FORMS + ir.TAG_FORMS:
                if form in ir.NS_FORMS:
                    if pre and "=" not in pre:
                        continue  # a tag passes keywords only
                    a = ([["x", [["expr", "9"]]]] if pre else []) + _attrs_of(kws)
                else:
                    a = args
                for nested in ((False, True) if form in ir.BARE_FORMS else (False,)):
                    for fl in flags:
                        yield {"family": "kwonly", "sig": sig, "nontrivial": True, "where": "def",
                               "prog": kwonly_def_program(rec, a, form, fl, nested, seed)}
            for form in ("tcall", "tself"):
                for in_def in (False, True):
                    yield {"family": "kwonly", "sig": sig, "nontrivial": True, "where": "body-args",
                           "prog": kwonly_body_program(rec, args, form, in_def, seed)}
            if "**" not in sig:  # <%page args> always gets **pageargs appended
                yield {"family": "kwonly", "sig": sig, "nontrivial": True, "where": "page",
                       "prog": kwonly_page_program(rec, args, None, seed)}
                yield {"family": "kwonly", "sig": sig, "nontrivial": True, "where": "block",
                       "prog": kwonly_page_program(rec, full, args, seed)}
                yield {"family": "kwonly", "sig": sig, "nontrivial": True, "where": "block",
                       "prog": kwonly_page_program(rec, args, full, seed)}


# ---------------------------------------------------------------------------
# family "extra": three small products
#   spelling     buffered= / cached= written out with true and false literals on top-level, nested and in-call defs,
#                called where "returns its content" and "writes it" differ (concatenation, capture, statement call)
#   attr-values  <%self:f a="..."> values made of <=3 pieces from {${v}, ${w}, x, LF, CRLF, blank-with-LF, blank}
#   inner-defs   a call with content and a def inside it whose body holds (directly, under % for, in a block, inside
#                a further call) another call with a def of the same name

SPELLINGS = [(None, None), ("True", None), ("False", None), ("0", None), ("1", None), (None, "False"), ("False", "False"), ("True", "False")]


def _mkdef(name, sig, body, buffered=False, filters=(), deco=False, defs=(), bspell=None, cspell=None):
    d = {"name": name, "sig": sig, "buffered": bool(buffered), "filters": list(filters), "deco": bool(deco), "defs": list(defs), "body": body}
    if bspell is not None:
        d["bspell"] = bspell
    if cspell is not None:
        d["cspell"] = cspell
    return d


def _ctx(seed):
    return {"v": c05_env.V_POOL[seed % len(c05_env.V_POOL)], "w": c05_env.V_POOL[(seed + 1) % len(c05_env.V_POOL)]}


def spelling_program(place, bspell, cspell, nfilt, form, cfg, seed):
    pre = ir.NAME_POOL[seed % len(ir.NAME_POOL)]
    txt = ir.TEXT_POOL[seed % len(ir.TEXT_POOL)]
    buffered = bool(eval(bspell)) if bspell is not None else False  # Python decides what the literal means
    incall = place.startswith("calldef")
    tname = "named" if incall else pre + "1"
    t = _mkdef(tname, "", [["text", tname + "(IN)"]], buffered=buffered, filters=ir.filters_of(nfilt), bspell=bspell, cspell=cspell)
    if not incall:
        call = ["call", form, tname, "", None]
        if place == "top":
            defs, body = [t], [["text", "["], call, ["text", "]"]]
        else:
            w = _mkdef("w0", "", [["text", "w0("], call, ["text", ")"]], defs=[t])
            defs, body = [w], [["text", "["], ["call", "bare", "w0", "", None], ["text", "]"]]
    else:
        d2 = _mkdef(pre + "2", "", [["text", pre + "2("], ["call", form, "caller.named", "", None], ["text", ")"]])
        site = ["call", "tcall", pre + "2", "", {"args": "", "named": [t], "body": [["text", txt]]}]
        if place == "calldef":
            defs, body = [d2], [["text", "["], site, ["text", "]"]]
        else:
            w = _mkdef("w0", "", [["text", "w0("], site, ["text", ")"]])
            defs, body = [d2, w], [["text", "["], ["call", "bare", "w0", "", None], ["text", "]"]]
    return {"defs": defs, "body": body, "cfg": cfg, "ctx": _ctx(seed)}


ATTR_TOKENS = [["expr", "v"], ["expr", "w"], ["lit", "x"], ["lit", "\n"], ["lit", "\r\n"], ["lit", " \n\t"], ["lit", " "]]


def attr_values(maxlen):
    """all sequences of <= maxlen tokens, adjacent literals merged, distinct as written text"""
    seen = set()
    out = []
    for n in range(0, maxlen + 1):
        for seq in itertools.product(ATTR_TOKENS, repeat=n):
            parts = []
            for p in seq:
                if p[0] == "lit" and parts and parts[-1][0] == "lit":
                    parts[-1] = ["lit", parts[-1][1] + p[1]]
                else:
                    parts.append(list(p))
            key = ir.p_args_attrs([["a", parts]])
            if key not in seen:
                seen.add(key)
                out.append(parts)
    return out


def attr_program(parts, sig, params, form, place, seed):
    pre = ir.NAME_POOL[seed % len(ir.NAME_POOL)]
    txt = ir.TEXT_POOL[seed % len(ir.TEXT_POOL)]
    t = _mkdef(pre + "1", sig, _params_text(pre + "1", params) + [["text", ")"]])
    call = ["call", form, pre + "1", [["a", parts]], {"args": "", "named": [], "body": [["text", txt]]}]
    if place == "top":
        defs, body = [t], [["text", "["], call, ["text", "]"]]
    elif place == "def":
        w = _mkdef("w0", "", [["text", "w0("], call, ["text", ")"]])
        defs, body = [t, w], [["text", "["], ["call", "bare", "w0", "", None], ["text", "]"]]
    else:  # inside the body of another call
        d2 = _mkdef(pre + "2", "", [["text", pre + "2("], ["expr", "caller.body()"], ["text", ")"]])
        outer = ["call", "tcall", pre + "2", "", {"args": "", "named": [], "body": [["text", "<"], call, ["text", ">"]]}]
        defs, body = [t, d2], [["text", "["], outer, ["text", "]"]]
    return {"defs": defs, "body": body, "cfg": 0, "ctx": _ctx(seed)}


def inner_defs_skeletons():
    for oform in ("tcall", "tself"):
        for iform in ("tcall", "tself"):
            for nfl in (N_, B_):
                for callee in ((("cn",), ("cb", "plain")), (("cb", "plain"), ("cn",))):
                    inner = ("call", iform, N_, "top", (0, (), ()), (("cn",), ("cb", "plain")))
                    mid = ("call", "tcall", N_, "top", (0, None, (inner,)), (("cb", "plain"),))
                    for wrap in ((inner,), (("for", (inner,)),), (("block", 1, (inner,)),), (("for", (("block", 1, (inner,)),)),), (mid,),
                                 (("for", (mid,)),)):
                        yield (("call", oform, N_, "top", (0, (), wrap, nfl), callee),)


def iter_extra(tier, seed):
    b = BOUNDS[tier]["extra"]
    for cfg in b["spell_cfgs"]:
        for place in ("top", "nested", "calldef", "calldef-in-def"):
            for bspell, cspell in SPELLINGS:
                for nfilt in (0, 1):
                    for form in ("bare", "cat", "cap", "stmt"):
                        yield {"family": "extra", "where": "spelling", "nontrivial": bspell is not None or cspell is not None,
                               "prog": spelling_program(place, bspell, cspell, nfilt, form, cfg, seed)}
    for parts in attr_values(b["attr_len"]):
        nt = any(p[0] == "lit" and p[1].isspace() for p in parts)
        for form, place in (("tself", "top"), ("tself", "def"), ("tself", "callbody"), ("tlocal", "top")) + (
                (("tlocal", "def"), ("tlocal", "callbody")) if b["attr_len"] > 3 else ()):
            yield {"family": "extra", "where": "attr-values", "nontrivial": nt,
                   "prog": attr_program(parts, "a, b='-'", ["a", "b"], form, place, seed)}
        yield {"family": "extra", "where": "attr-values", "nontrivial": nt,
               "prog": attr_program(parts, "**kw", ["kw"], "tself", "top", seed)}
    for skel in inner_defs_skeletons():
        yield {"family": "extra", "where": "inner-defs", "skel": skel, "cfg": 0}


# ---------------------------------------------------------------------------
# family "tree"


def iter_tree(tier, seed):
    A = alphabets()
    for part in BOUNDS[tier]["tree"]:
        for w in part["W"]:
            for skel in ir.iter_programs(A[part["alphabet"]], part["depth"], w):
                yield {"family": "tree", "skel": skel, "cfg": 0, "w": w}


FAMILIES = {"bind": iter_bind, "flags": iter_flags, "tree": iter_tree, "kwonly": iter_kwonly, "extra": iter_extra}


def materialise(item, seed):
    """-> (prog, nontrivial)"""
    if "prog" in item:
        return item["prog"], item["nontrivial"]
    skel = item["skel"]
    prog = ir.finalize(skel, seed, item.get("cfg", 0))
    depth, ncontent, ncalls, combos = ir.skel_stats(skel)
    return prog, (depth >= 2 or combos > 0)


# ---------------------------------------------------------------------------
# execution on the real code


def run_mako(src, prog):
    """-> (("ok", text) | ("exc", class, msg) | ("compile-exc", class, msg), problems)"""
    from mako.template import Template
    from mako.runtime import Context
    from mako.util import FastEncodingBuffer

    problems = []
    try:
        t = Template(src, **ir.template_kwargs(prog))
    except Exception as e:  # noqa
        return ("compile-exc", type(e).__name__, str(e)[:300]), problems
    pos, data = (), dict(prog["ctx"])
    if prog.get("render_args"):
        pos, kw = eval("__cap(%s)" % prog["render_args"], {"__cap": lambda *a, **k: (a, k)})
        data.update(kw)
    try:
        out = t.render_unicode(*pos, **data)
    except Exception as e:  # noqa
        return ("exc", type(e).__name__, str(e)[:300]), problems
    # second render of the same Template through render_context with a Context we can look at afterwards
    buf = FastEncodingBuffer()
    ctx = Context(buf, **data)
    try:
        if prog.get("page") is not None:
            t.render_context(ctx, *pos, **data)  # what render() does for a body with **pageargs
        else:
            t.render_context(ctx)
        out2 = buf.getvalue()
    except Exception as e:  # noqa
        out2 = "%s: %s" % (type(e).__name__, e)
    if out2 != out:
        problems.append(("rerender", "second render of the same Template differs", {"first": out, "second": out2}))
    if len(ctx._buffer_stack) != 1 or ctx._buffer_stack[0] is not buf:
        problems.append(("state", "buffer stack not restored after render", {"depth": len(ctx._buffer_stack)}))
    if len(ctx.caller_stack) != 0 or ctx.caller_stack.nextcaller is not None:
        problems.append(("state", "caller stack not restored after render",
                         {"frames": len(ctx.caller_stack), "nextcaller": repr(ctx.caller_stack.nextcaller)}))
    return ("ok", out), problems


def _norm(s):
    return "".join("N" if c.isdigit() else c for c in s)


def _diff_sig(exp, obs):
    i = 0
    while i < min(len(exp), len(obs)) and exp[i] == obs[i]:
        i += 1
    e, o = exp[i: i + 2], obs[i: i + 2]
    if _norm(e) != _norm(o):
        e, o = _norm(e), _norm(o)
    return "exp=%r obs=%r" % (e, o)


def _bare_star(sig):
    return "*, " in sig


def _without_star(prog, sig):
    """the same program with the bare * removed from every def signature (footprint test of the dropped-star defect)"""
    p = json.loads(json.dumps(prog))

    def fix(d):
        if d["sig"] == sig:
            d["sig"] = sig.replace("*, ", "")
        for n in d["defs"]:
            fix(n)

    for d in p["defs"]:
        fix(d)
    return p


def _walk_contents(prog):
    """every content dict of the program"""

    def stmts(b):
        for s in b:
            if s[0] == "call" and s[4] is not None:
                yield s[4]
                for d in s[4]["named"]:
                    yield from defs(d)
                yield from stmts(s[4]["body"])
            elif s[0] == "for":
                yield from stmts(s[3])
            elif s[0] == "block":
                yield from stmts(s[2])

    def defs(d):
        for n in d["defs"]:
            yield from defs(n)
        yield from stmts(d["body"])

    for d in prog["defs"]:
        yield from defs(d)
    yield from stmts(prog["body"])


def _has_decorated_calldef(prog):
    return any(d["deco"] for c in _walk_contents(prog) for d in c["named"])


def _has_inner_calldef(prog):
    return any(True for c in _walk_contents(prog) for _ in ref.inner_call_defs(c["body"]))


def _strip_calldef_deco(prog):
    p = json.loads(json.dumps(prog))
    for c in _walk_contents(p):
        for d in c["named"]:
            d["deco"] = False
    return p


def outcome_class(family, exp, got):
    if got[0] != "ok":
        return (family, got[0], got[1])
    o = got[1]
    feats = "".join(t for t, m in (("~", "~"), ("d", "<d>"), ("1", "<1:"), ("2", "{2:"), ("b", "(b:"), ("e", "`"), ("^", "^"), ("c", "{"), ("n", "named"), ("l", "\n")) if m in o)
    return (family, "ok", feats)


def check_program(st, family, prog, nontrivial, extra=None):
    src = ir.print_program(prog)
    r = ref.Ref(prog)
    try:
        exp = ("ok", r.render())
    except TypeError:
        exp = ("exc", "TypeError")
    st.states += 1
    st.traces += 1
    st.transitions += r.steps
    if nontrivial:
        st.nontrivial += 1
    got, problems = run_mako(src, prog)
    st.evaluations += 2 if got[0] == "ok" else 1
    st.outcomes[outcome_class(family, exp, got)] += 1
    case = {"family": family, "prog": prog, "src": src}
    if extra:
        case.update(extra)
    viol = None
    if exp[0] == "ok":
        st.oracles["output"] += 1
        if got[0] != "ok":
            viol = ("%s:exception %s" % (family, got[1]), "output: a well-formed program does not render", exp[1], list(got))
        elif got[1] != exp[1]:
            viol = ("%s:diff %s" % (family, _diff_sig(exp[1], got[1])), "output: rendered text differs from the reference", exp[1], got[1])
    else:
        st.oracles["arity"] += 1
        if got[0] == "ok":
            viol = ("%s:accepted exp=%s" % (family, exp[1]), "arity: the call binds although Python's rules reject it", list(exp), got[1])
        elif got[1] != exp[1]:
            viol = ("%s:exception %s exp=%s" % (family, got[1], exp[1]), "arity: wrong exception class", list(exp), list(got))
    if viol is not None and family.split(":")[0] in ("bind", "kwonly") and extra and _bare_star(extra.get("sig", "")):
        # footprint of the dropped bare '*': mako behaves exactly like the signature without it
        try:
            exp2 = ref.expected(_without_star(prog, extra["sig"]))
        except SyntaxError:
            exp2 = ("exc", "SyntaxError")
        g2 = ("ok", got[1]) if got[0] == "ok" else ("exc", got[1])
        if g2 == tuple(exp2):
            viol = ("bind:bare-star-dropped",) + viol[1:]
    if viol is not None and got[0] == "exc" and got[1] == "AttributeError" and "has no member" in got[2] and _has_decorated_calldef(prog):
        # footprint of "a decorated def written inside a call is not exported on `caller`": the same program with
        # that decorator removed must agree with its reference
        p2 = _strip_calldef_deco(prog)
        g2, _pr = run_mako(ir.print_program(p2), p2)
        if tuple(g2[:2]) == tuple(ref.expected(p2)):
            viol = ("calldef-decorator:not exported on caller",) + viol[1:]
    if viol is not None and extra and extra.get("calldef") and got[0] == "ok":
        # footprint of "a def written inside a call sees the call site's caller instead of its own"
        if ("ok", got[1]) == tuple(ref.expected(prog, calldef_caller="outer")):
            viol = ("calldef-caller:sees the call site's caller",) + viol[1:]
    if viol is not None and got[0] == "ok" and _has_inner_calldef(prog):
        # footprint of "the defs of a call nested in a call's body are exported on the outer caller too"
        if ("ok", got[1]) == tuple(ref.expected(prog, calldef_leak=True)):
            viol = ("calldef-leak:def of an inner call exported on the outer caller",) + viol[1:]
    if viol is not None:
        st.violation(viol[0], case, viol[1], expected=viol[2], observed=viol[3])
    if got[0] == "ok":
        st.oracles["state_restored"] += 1
        st.oracles["rerender"] += 1
    for kind, msg, detail in problems:
        st.violation("%s:%s:%s" % (family, kind, msg), case, kind + ": " + msg, observed=detail)
    return src, exp, got


# ---------------------------------------------------------------------------
# jobs


def plan(tier, seed):
    n = core.NPROC
    jobs = [{"family": "direct", "tier": tier, "seed": seed, "shard": i, "nshards": 2} for i in range(2)]
    for fam in ("tree", "bind", "flags", "kwonly", "extra"):
        ns = n * 2 if fam == "tree" else n
        for i in range(ns):
            jobs.append({"family": fam, "tier": tier, "seed": seed, "shard": i, "nshards": ns})
    return jobs


def check_direct(st, case, seed):
    from mc import c05_direct

    obs, _log = c05_direct.run(case, seed)
    st.states += 1
    st.traces += 1
    st.transitions += 2
    st.evaluations += 2
    st.nontrivial += 1
    st.oracles["direct:" + case["group"]] += 1
    ok = obs == ("ok", case["exp"])
    st.outcomes[("direct:" + case["group"], "ok" if ok else ("differs" if obs[0] == "ok" else obs[1]))] += 1
    if not ok:
        kind = case["name"].split(":")[1]
        sig = "direct:%s:%s:%s" % (case["group"], kind, "output differs" if obs[0] == "ok" else "exception " + obs[1])
        st.violation(sig, {"family": "direct", "name": case["name"], "seed": seed, "src": case["src"]}, "closed form (" + case["group"] + ")", expected=case["exp"], observed=list(obs))


def run_job(job):
    st = Stats()
    t0 = time.process_time()
    fam, seed = job["family"], job["seed"]
    sh, ns = job["shard"], job["nshards"]
    n = 0
    if fam == "direct":
        from mc import c05_direct

        for idx, case in enumerate(c05_direct.cases(seed)):
            if idx % ns != sh:
                continue
            check_direct(st, case, seed)
            n += 1
            if n % 97 == 1:
                st.sample({"family": "direct", "name": case["name"], "src": case["src"], "expected": case["exp"]})
        st.extra["programs_direct"] = n
        st.extra["cpu_s"] = round(time.process_time() - t0, 2)
        return st
    for idx, item in enumerate(FAMILIES[fam](job["tier"], seed)):
        if idx % ns != sh:
            continue
        prog, nontrivial = materialise(item, seed)
        extra = {k: item[k] for k in ("sig", "calldef") if k in item} or None
        label = fam + ":" + item["where"] if "where" in item else fam
        src, exp, got = check_program(st, label, prog, nontrivial, extra)
        n += 1
        if n % 1499 == 1:
            st.sample({"family": fam, "src": src, "expected": list(exp)})
    st.extra["programs_" + fam] = n
    st.extra["cpu_s"] = round(time.process_time() - t0, 2)
    st.extra["cpu_s_" + fam] = round(time.process_time() - t0, 2)
    return st


def post(tier, seed, st):
    """smallest witness of each signature first (workers finish in any order)"""
    st.violations.sort(key=lambda v: (v["sig"], len(v["case"].get("src", "")), v["case"].get("src", "")))
    for k in ("cpu_s", "cpu_s_tree", "cpu_s_bind", "cpu_s_flags", "cpu_s_kwonly", "cpu_s_extra"):
        if k in st.extra:
            st.extra[k] = round(st.extra[k], 1)


def replay(case):
    st = Stats()
    if case.get("family") == "direct":
        from mc import c05_direct

        cs = [c for c in c05_direct.cases(case["seed"]) if c["name"] == case["name"] and c["src"] == case["src"]]
        if not cs:
            return None, "unknown direct case"
        check_direct(st, cs[0], case["seed"])
        if st.violations:
            v = st.violations[0]
            return False, "reproduced: sig=%s\n  src=%s\n  expected=%r\n  observed=%r" % (v["sig"], case.get("src"), v["expected"], v["observed"])
        return True, "holds"
    extra = {k: case[k] for k in ("sig", "calldef") if k in case} or None
    check_program(st, case["family"], case["prog"], False, extra)
    if st.violations:
        v = st.violations[0]
        return False, "reproduced: sig=%s\n  src=%s\n  expected=%r\n  observed=%r" % (v["sig"], case.get("src"), v["expected"], v["observed"])
    return True, "holds"


# ---------------------------------------------------------------------------
# corpus for the cross-path property (C08)


def _corpus_ok(prog, item):
    """leave out programs that run into the recorded defects, so that `expected` holds on the unchanged tree"""
    if _bare_star(item.get("sig", "")) or item.get("calldef") or _has_decorated_calldef(prog):
        return False
    return True


def corpus(limit=400):
    """<= limit representative programs of the smallest non-trivial bound (tree weight <= 3, the flags and bind
    products): deterministic, simplest first, spread over all construct kinds.
    Each: {"files": {uri: text}, "main": uri, "ctx", "expected": text | None (arity TypeError), "template_kwargs"}."""
    seed = 0
    A = alphabets()["full"]
    tree = []
    for w in (1, 2, 3):
        for skel in ir.iter_programs(A, 3, w):
            tree.append({"family": "tree", "skel": skel, "cfg": 0})
    # spread: bucket by the kind of the first statement / call form / flags, then round-robin over the buckets
    buckets = {}
    for it in tree:
        buckets.setdefault(_features(it["skel"]), []).append(it)
    groups = [_round_robin(list(buckets.values()))]
    fb = {}
    for it in iter_flags("thorough", seed):
        if "skel" not in it:
            continue
        fb.setdefault((it["cfg"],) + _features(it["skel"]), []).append(it)
    groups.append(_round_robin(list(fb.values())))
    bb = {}
    for it in iter_bind("quick", seed):
        bb.setdefault((it["sig"], it["prog"]["body"][1][1]), []).append(it)
    groups.append(_round_robin(list(bb.values())))
    out = []
    nerr = 0
    quota = [limit // 2, limit // 4, limit - limit // 2 - limit // 4]
    for g, q in zip(groups, quota):
        n = 0
        for it in g:
            if n >= q:
                break
            prog, _ = materialise(it, seed)
            if not _corpus_ok(prog, it):
                continue
            exp = ref.expected(prog)
            if exp[0] != "ok":
                if nerr >= 8:
                    continue
                nerr += 1
            n += 1
            out.append({
                "files": {"main": ir.print_program(prog)},
                "main": "main",
                "ctx": dict(prog["ctx"]),
                "expected": exp[1] if exp[0] == "ok" else None,
                "template_kwargs": ir.template_kwargs(prog),
            })
    return out[:limit]


def _features(skel):
    """the set of construct kinds a skeleton uses"""
    out = set()

    def walk(stmts, where):
        for s in stmts:
            if s[0] == "call":
                _, form, fl, pl, content, callee = s[:6]
                out.add(form)
                out.add("at:" + where)
                out.add("flags:%d%d%d" % (fl[0], fl[1], fl[2]))
                if pl == "nested":
                    out.add("nested")
                if content is not None:
                    out.add("ba:%d" % content[0])
                    if content[1] is not None:
                        out.add("named")
                        walk(content[1], "named")
                    walk(content[2], "content")
                walk(callee, "def")
            elif s[0] == "for":
                out.add("for")
                walk(s[1], where)
            elif s[0] == "block":
                out.add("block")
                walk(s[2], where)
            else:
                out.add(s[0] + ":" + (s[1] if len(s) > 1 else ""))

    walk(skel, "body")
    return tuple(sorted(out))


def _round_robin(lists):
    out = []
    for tup in itertools.zip_longest(*lists):
        out.extend(x for x in tup if x is not None)
    return out


LEVEL_TEXT = (
    "Every program of the three families within the stated bounds is compiled and rendered by the real Template and must "
    "produce exactly the reference output (or TypeError for an argument list Python rejects); after every successful render "
    "the buffer stack and the caller stack of the Context are back to their initial state and a second render gives the "
    "same text. Complete within those bounds; no sampling."
)
LEVEL_NOTE = (
    "Trusted: CPython eval/exec/str, the reference interpreter mc/c05_ref.py and the finaliser/printer mc/c05_ir.py "
    "(a wrong reference fails on the unchanged tree). DONT_CARE: `caller` inside anonymous blocks and inside defs written "
    "in a call that are invoked without content, `caller` seen by defs invoked inside a call-with-content's argument "
    "expressions, exception paths other than arity TypeError."
)
READY = True
