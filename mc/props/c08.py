"""C08 - a template means the same on every compilation and rendering path.

Engine E1 (differential): every program of the bounded corpora (own corpus, C01 unit documents, and the
smallest-bound program sets exported by C02-C07) is rendered on every construction / rendering path, under several
PYTHONHASHSEED values (real child interpreters), and all observations must agree with each other and with the
reference output where one exists.
"""

import itertools
import json
import re
import os
import posixpath
import subprocess
import sys

from mc import c08_lib, core
from mc.core import Stats

PROPERTY = "C08"
LEVEL = "model_checking"
ENGINE = "E1"
TECHNIQUE = "exhaustive differential execution of bounded program corpora over the full grid of construction/rendering paths x PYTHONHASHSEED (child interpreters) x lookup options; pure agreement oracle plus reference outputs"
RULE = (
    "case = (program, path); programs = complete smallest-bound sets of the other properties' grammars + an own corpus with non-ASCII text; "
    "paths = string, file, module directory (fresh / re-opened / re-opened by a later process), ModuleTemplate, render/render_unicode/"
    "render_context, mako-render, get_def; x PYTHONHASHSEED x lookup options; plus all URI pairs that differ only in non-word characters. "
    "Non-trivial = programs with at least one directive."
)
LEVEL_TEXT = (
    "Every corpus program is executed on every path and under every hash seed; output, Template.source, masked Template.code, "
    "list_defs/has_def/get_def answers must agree across all of them (and with the reference output when the corpus provides one). "
    "Complete over corpus x path grid; the corpus is bounded."
)
LEVEL_NOTE = "PYTHONHASHSEED is a finite sample (4-8 seeds) of its range, each seed run being exhaustive over the corpus. _modified_time, memory ids and absolute paths are masked before module texts are compared; across seeds module text is compared as a multiset of lines."
ASSUMPTIONS = [
    "mako-render passes every --var as a string: only string-context programs take that path",
    "programs whose reference output is unknown are compared differentially only",
]
BOUNDS = {"quick": {"foreign_module_files": "every corpus item once more in a third process after each of its module files was given a magic number one larger / one smaller than the library's (alternating) and a body that prints a marker", "module_state": "a template mutating its <%! %> state: 8 x 8 ordered pairs of construction routes in one process, each Template object rendered 2-3 times", "seeds": [0, 1, 2, 3], "per_corpus_limit": 120}, "thorough": {"seeds": [0, 1, 2, 3, 4, 5, 6, 7], "per_corpus_limit": 1500}}
READY = True

E = "\u00e9\u4e2d\U0001d11e"

OWN = [
    ("plain", {"m": "hello " + E}, {}, "hello " + E),
    ("expr", {"m": "a${x}b" + E}, {"x": "X"}, "aXb" + E),
    ("filters", {"m": "${x | h}${x | u}${y | trim}"}, {"x": "<a&b>", "y": " t "}, "&lt;a&amp;b&gt;%3Ca%26b%3Et"),
    ("ifelse", {"m": "% if x == '1':\none\n% else:\nother\n% endif\n"}, {"x": "1"}, "one\n"),
    ("for", {"m": "% for i in x.split(','):\n[${i}:${loop.index}]\n% endfor\n"}, {"x": "a,b,c"}, "[a:0]\n[b:1]\n[c:2]\n"),
    ("def", {"m": "<%def name='f(a, b=\"B\")'>(${a}${b})</%def>${f('1')}${f('2', b='3')}"}, {}, "(1B)(23)"),
    ("def-ctx", {"m": "<%def name='f()'>${x}" + E + "</%def>${f()}"}, {"x": "v"}, "v" + E),
    ("nested-def", {"m": "<%def name='o()'><%def name='i()'>in${x}</%def>[${i()}]</%def>${o()}"}, {"x": "1"}, "[in1]"),
    ("buffered", {"m": "<%def name='f()' buffered='True'>b</%def>${'<' + f() + '>'}"}, {}, "<b>"),
    ("filter-def", {"m": "<%def name='f()' filter='h'><x></%def>${f()}"}, {}, "&lt;x&gt;"),
    ("capture", {"m": "<%def name='f()'>c</%def>${capture(f).upper()}"}, {}, "C"),
    ("call", {"m": "<%def name='w()'>[${caller.body()}]</%def><%call expr='w()'>in${x}</%call>"}, {"x": "1"}, "[in1]"),
    ("nscall", {"m": "<%def name='w(t)'>${t}[${caller.body(z='Z')}]</%def><%self:w t='T${x}'><%def name='body(z)'>${z}</%def></%self:w>"}, {"x": "1"}, None),
    ("block", {"m": "a<%block name='b'>B${x}</%block>c<%block>anon</%block>"}, {"x": "1"}, "aB1canon"),
    ("pyblock", {"m": "<%\n  y = x + '!'\n  z = [c for c in y]\n%>${y}${len(z)}"}, {"x": "ab"}, "ab!3"),
    ("module-block", {"m": "<%!\n  K = 'k' * 2\n  def g(s):\n      return s[::-1]\n%>${K}${g(x)}"}, {"x": "ab"}, "kkba"),
    ("text-doc", {"m": "<%text>${raw}</%text><%doc>gone</%doc>%%x\n## c\nend\\\nok"}, {}, None),
    ("page-args", {"m": "<%page args='a, b=\"2\"'/>${a}${b}${x}"}, {"a": "1", "x": "9"}, "129"),
    ("expression-filter", {"m": "<%page expression_filter='h'/>${x}${x | n}"}, {"x": "<"}, "&lt;<"),
    ("inherit", {"base.html": "B[${self.body()}]${self.t()}<%def name='t()'>bt</%def>", "m": "<%inherit file='base.html'/><%def name='t()'>mt${x}</%def>body" + E}, {"x": "1"}, "B[body" + E + "]mt1"),
    ("inherit-next", {"base.html": "<%block name='h'>bh</%block>|${next.body()}", "mid.html": "<%inherit file='base.html'/>mid(${next.body()})", "m": "<%inherit file='mid.html'/><%block name='h'>mh${parent.h()}</%block>leaf"}, {}, None),
    ("namespace", {"ns.html": "<%def name='f(a)'>ns${a}</%def><%def name='g()'>g</%def>", "m": "<%namespace name='n' file='ns.html'/><%namespace file='ns.html' import='g'/>${n.f(x)}${g()}"}, {"x": "1"}, "ns1g"),
    ("include", {"inc.html": "<%page args='p=\"d\"'/>i${p}${x}", "m": "a<%include file='inc.html' args='p=x'/>b<%include file='inc.html'/>"}, {"x": "1"}, "ai11bid1"),
    ("subdir", {"sub/t.html": "<%include file='u.html'/>", "sub/u.html": "U${x}", "m": "<%include file='sub/t.html'/>"}, {"x": "1"}, "U1"),
    ("many-undeclared", {"m": "${a}${b}${c}${d}${e}${f}${g}${h_}${i}${j}<%def name='q()'>${a}${j}${e}</%def>${q()}"}, dict(zip("abcdefg", "1234567"), h_="8", i="9", j="0"), "1234567890105"),
    ("def-defaults-order", {"m": "<%def name='o()'><%def name='n1(a=z)'>${a}</%def><%def name='n2(a=y)'>${a}</%def>${n1()}${n2()}</%def>${o()}"}, {"z": "Z", "y": "Y"}, "ZY"),
    ("loop-nested", {"m": "% for i in '12':\n% for j in 'ab':\n${i}${j}${loop.parent.index}${loop.index}\n% endfor\n% endfor\n"}, {}, None),
    ("try", {"m": "% try:\n${1/0}\n% except ZeroDivisionError:\ncaught\n% endtry\n"}, {}, "caught\n"),
    ("while", {"m": "<% n = 2 %>\n% while n:\n${n}<% n -= 1 %>\n% endwhile\n"}, {}, None),
    ("crlf", {"m": "a\r\n% if x:\r\nb\r\n% endif\r\nc" + E}, {"x": "1"}, None),
    ("unicode-expr", {"m": "${'" + E + "' + x}<% y = '" + E + "' %>${y}"}, {"x": E}, E + E + E),
    # a def marks its own output as \u00abname:...\u00bb: what get_def(name).render() gives must be the segment the def wrote in the page
    ("getdef-plain", {"m": "<%! NAME = 'leaf' %><%def name='card()'>\u00abcard:${local.module.NAME}|${self.module.NAME}|${x}\u00bb</%def><%def name='buf()' buffered='True'>\u00abbuf:${x}\u00bb</%def>p${card()}q${buf()}"}, {"x": "1"}, None),
    ("getdef-inherit", {"base.html": "<%! NAME = 'base' %>B[${self.body()}]<%def name='who()'>base</%def>", "mid.html": "<%! NAME = 'mid' %><%inherit file='base.html'/><%def name='who()'>mid</%def>M(${next.body()})",
                        "m": "<%! NAME = 'leaf' %><%inherit file='mid.html'/><%def name='who()'>leaf</%def><%def name='card()'>\u00abcard:${local.module.NAME}|${self.module.NAME}|${parent.module.NAME}|${parent.who()}|${local.who()}|${self.who()}|${'next' in context.keys()}|${x}\u00bb</%def><%def name='tag()' filter='trim'>\u00abtag:${local.module.NAME}${x}\u00bb</%def>leaf${card()}${tag()}"}, {"x": "1"}, None),
    ("getdef-inherit2", {"base.html": "<%! NAME = 'base' %><%def name='who()'>base</%def><%def name='wrap()'>\u00abwrap:${local.module.NAME}|${self.module.NAME}\u00bb</%def>B[${self.body()}]${self.wrap()}",
                         "m": "<%! NAME = 'leaf' %><%inherit file='base.html'/><%def name='card()' buffered='True'>\u00abcard:${local.module.NAME}|${parent.module.NAME}|${parent.who()}|${x}\u00bb</%def>leaf${card()}"}, {"x": "1"}, None),
    ("strict-many-missing-no-def", {"m": "${alpha}${bravo}${charlie}${delta}${echo}${foxtrot}${golf}${hotel}\n% if india:\n${juliet}\n% endif\n"}, {}, None, {"strict_undefined": True}),
    ("strict-many-missing-in-def", {"m": "<%def name='q()'>${india}${juliet}${kilo}${lima}${mike}${november}</%def>${q()}"}, {}, None, {"strict_undefined": True}),
    ("strict-many-missing", {"m": "${alpha}${bravo}${charlie}${delta}${echo}${foxtrot}${golf}${hotel}<%def name='q()'>${india}${juliet}${kilo}${lima}</%def>${q()}"}, {}, None, {"strict_undefined": True}),
    ("many-names-no-def", {"m": "${alpha}${bravo}${charlie}${delta}${echo}${foxtrot}${golf}${hotel}\n% if india:\n${juliet}${kilo}\n% endif\n<%block name='b'>${lima}${mike}${november}${oscar}</%block>"}, dict(alpha="a", bravo="b", charlie="c", delta="d", echo="e", foxtrot="f", golf="g", hotel="h", india="i", juliet="j", kilo="k", lima="l", mike="m", november="n", oscar="o"), None),
    ("loop-as-variable", {"m": "body ${x} ${loop}<%def name='d()'>[d ${x} ${loop}]</%def>${d()}\n% for i in x:\n${i}\n% endfor\n"}, {"x": "X", "loop": "L"}, None, {"enable_loop": False}),
    # two importing <%namespace> tags that provide the same name: which one wins must not depend on the path or on PYTHONHASHSEED
    ("ns-import-clash", {"na.html": "<%def name='greet()'>from-A</%def><%def name='onlya()'>a</%def>", "nb.html": "<%def name='greet()'>from-B</%def><%def name='onlyb()'>b</%def>",
                         "m": "<%namespace file='na.html' import='*'/><%namespace file='nb.html' import='greet, onlyb'/>${greet()}|${onlya()}|${onlyb()}<%def name='d()'>${greet()}</%def>|${d()}"}, {}, None),
    ("ns-import-clash-3", {"na.html": "<%def name='greet()'>from-A</%def>", "nb.html": "<%def name='greet()'>from-B</%def>", "nc.html": "<%def name='greet()'>from-C</%def>",
                           "m": "<%namespace file='nc.html' import='greet'/><%namespace file='na.html' import='*'/><%namespace file='nb.html' import='*'/>${greet()}"}, {}, None),
    ("cached", {"m": "<%def name='f()' cached='True' cache_impl='c17rec'>c${x}</%def>${f()}${f()}"}, {"x": "1"}, None),
]


NON_UTF8 = [
    ("latin1", "iso-8859-1", "## -*- coding: iso-8859-1 -*-\ncaf\u00e9 ma\u00f1ana \u00abJ\u00fcrgen\u00bb ${x}<%def name='f()'>\u00fcber</%def>${f()}", {"x": "\u00e9"}, "caf\u00e9 ma\u00f1ana \u00abJ\u00fcrgen\u00bb \u00e9\u00fcber"),
    ("cp1251", "cp1251", "## -*- coding: cp1251 -*-\n\u0442\u0435\u0441\u0442 ${'\u0436' + x}", {"x": "\u044f"}, "\u0442\u0435\u0441\u0442 \u0436\u044f"),
    ("shift_jis", "shift_jis", "## -*- coding: shift_jis -*-\n\u30bd\u30fc\u30b9 ${x}", {"x": "\u8868"}, "\u30bd\u30fc\u30b9 \u8868"),
]


def own_corpus():
    out = []
    for name, enc, text, ctx, exp in NON_UTF8:
        out.append({"id": "OWN:enc-" + name, "files": {"m.html": text}, "main": "m.html", "ctx": ctx, "expected": exp, "template_kwargs": {}, "env": None, "encoding": enc})
        # the same with options that add lines to the head of the generated module
        # the same under a conflicting input_encoding option (the template's own declaration decides)
        out.append({"id": "OWN:enc-conflict-" + name, "files": {"m.html": text}, "main": "m.html", "ctx": ctx, "expected": exp, "template_kwargs": {"input_encoding": "utf-8" if enc != "utf-8" else "latin-1"}, "env": None, "encoding": enc})
        out.append({"id": "OWN:enc-future-" + name, "files": {"m.html": text}, "main": "m.html", "ctx": ctx, "expected": exp, "template_kwargs": {"future_imports": ["annotations"], "imports": ["import os"]}, "env": None, "encoding": enc})
    for entry in OWN:
        name, files, ctx, exp = entry[:4]
        f = {("m.html" if k == "m" else k): v for k, v in files.items()}
        if name == "cached":
            continue
        out.append({"id": "OWN:" + name, "files": f, "main": "m.html", "ctx": ctx, "expected": exp, "template_kwargs": dict(entry[4]) if len(entry) > 4 else {}, "env": None})
    return out


def c01_corpus(limit):
    from mc.props import c01

    out = []
    seen = set()
    for src in c01.unit_docs("quick", 0):
        exp = c01.ref_render(src, units=True)
        if exp is None or src in seen or not c01.nontrivial(src):
            continue
        seen.add(src)
        out.append({"id": "C01:%d" % len(out), "files": {"m.html": src + "\u00e9"}, "main": "m.html", "ctx": {}, "expected": exp + "\u00e9", "template_kwargs": {}, "env": None})
        if len(out) >= limit:
            break
    return out


def foreign_corpora(limit):
    out = []
    missing = []
    for pid in ("c02", "c03", "c04", "c05", "c06", "c07"):
        try:
            mod = __import__("mc.props." + pid, fromlist=["x"])
            if not getattr(mod, "READY", False) or not hasattr(mod, "corpus"):
                missing.append(pid)
                continue
            items = mod.corpus(limit)
        except Exception as e:  # noqa
            missing.append("%s (%s)" % (pid, type(e).__name__))
            continue
        for i, it in enumerate(items):
            it = dict(it)
            files = it.get("files") or {}
            if len({posixpath.normpath("/" + k) for k in files}) != len(files):
                # two URIs of the program name one file once normalised (decoys registered under un-normalised
                # put_string keys): such a program exists only in a string lookup, it has no file form
                continue
            it["id"] = "%s:%d" % (pid.upper(), i)
            it.setdefault("template_kwargs", {})
            it["env"] = "mc.%s_env" % pid
            out.append(it)
    return out, missing


def corpus(tier):
    lim = BOUNDS[tier]["per_corpus_limit"]
    items = own_corpus() + c01_corpus(lim)
    foreign, missing = foreign_corpora(lim)
    return items + foreign, missing


IN_PROCESS = ["string", "render_unicode", "render_context", "get_def", "file", "moddir", "moduletemplate", "uri-spellings", "modulename_callable", "out-enc"]


def plan(tier, seed):
    items, missing = corpus(tier)
    n = max(1, min(64, len(items) // 12))
    jobs = [{"kind": "paths", "tier": tier, "items": items[i::n], "shard": i} for i in range(n)]
    jobs.append({"kind": "collisions", "tier": tier, "missing": missing})
    return jobs


def _child(spec, hashseed):
    wd = spec["workroot"]
    os.makedirs(wd, exist_ok=True)
    sp = os.path.join(wd, "spec.json")
    spec = dict(spec, out=os.path.join(wd, "out.json"), verif=core.VERIF, repo=os.path.abspath(core.REPO))
    json.dump(spec, open(sp, "w"))
    env = dict(os.environ, PYTHONHASHSEED=str(hashseed), PYTHONPATH=core.VERIF)
    pr = subprocess.run([sys.executable, "-B", "-m", "mc.c08_lib", sp], env=env, capture_output=True, text=True, cwd=core.VERIF, timeout=1200)
    if pr.returncode != 0 or not os.path.exists(spec["out"]):
        raise RuntimeError("child failed: rc=%s %s" % (pr.returncode, pr.stderr[-800:]))
    return json.load(open(spec["out"]))


def run_job(job):
    st = Stats()
    if job["kind"] == "collisions":
        collisions(st)
        same_name_defs(st)
        module_state(st)
        if job.get("missing"):
            st.extra["corpora_not_available"] = job["missing"]
        return st
    tier = job["tier"]
    items = job["items"]
    root = core.scratch_dir("c08-")
    base = os.path.join(root, "s0")
    results = {}
    for it in items:
        wd = os.path.join(base, it["id"].replace(":", "_"))
        paths = list(IN_PROCESS)
        if cmd_ok(it):
            paths.append("cmd")
        try:
            results[it["id"]] = {"0": c08_lib.run_item(it, wd, paths)}
        except BaseException as e:  # noqa
            results[it["id"]] = {"0": {"_error": "%s: %s" % (type(e).__name__, e)}}
    # a later process re-opens the module directories written above
    later = _child({"items": items, "workroot": base, "paths": ["moddir2"]}, 0)
    for k, v in later.items():
        results[k]["later"] = v
    # a third process finds module files of another generation of the library (foreign magic numbers)
    later = _child({"items": items, "workroot": base, "paths": ["moddir3"]}, 0)
    for k, v in later.items():
        results[k]["later"].update(v)
    for s in BOUNDS[tier]["seeds"][1:]:
        r = _child({"items": items, "workroot": os.path.join(root, "s%d" % s), "paths": ["string", "file", "moddir"]}, s)
        for k, v in r.items():
            results[k][str(s)] = v
    for it in items:
        judge(it, results[it["id"]], st)
    return st


def cmd_ok(it):
    return not it.get("template_kwargs") and all(isinstance(v, str) and not v.startswith("@helper:") and "=" not in k for k, v in (it.get("ctx") or {}).items())


def judge(it, res, st):
    iid = it["id"]
    fam = iid.split(":")[0]
    st.states += 1
    if any(ch in it["files"][it["main"]] for ch in ("${", "<%", "\n%")):
        st.nontrivial += 1
    r0 = res["0"]
    if "_error" in r0:
        st.extra.setdefault("harness_errors", []).append("%s: %s" % (iid, r0["_error"]))
        return
    base = r0["string"]["render"]
    case = {"id": iid, "files": it["files"], "main": it["main"], "ctx": it.get("ctx"), "template_kwargs": it.get("template_kwargs"), "env": it.get("env"), "expected": it.get("expected")}
    st.outcomes[base.split(":")[0] + ":" + fam] += 1

    def bad(sig, oracle, exp, obs):
        st.violation("%s" % sig, case, oracle, expected=exp, observed=obs)

    if it.get("expected") is not None:
        st.oracles["reference"] += 1
        if base != "OUT:" + it["expected"]:
            bad("reference:string-path", "output equals the reference output", it["expected"], base)
    text = it["files"][it["main"]]
    obs = []  # (label, facts)
    for p in ("string", "file", "moddir", "moduletemplate", "render_unicode", "render_context", "modulename_callable", "modulename_relative", "module_filename_relative", "moduletemplate_file", "cmd"):
        if p == "render_context" and re.search(r"<%page[^>]*\bargs\s*=", text):
            continue  # render_context() takes the body's <%page> arguments explicitly; render() fills them from the data
        if p in r0:
            obs.append((p, r0[p]))
    if "later" in res and "moddir2" in res["later"]:
        obs.append(("later-process", res["later"]["moddir2"]))
    if "later" in res and "moddir3" in res["later"]:
        obs.append(("later-process-foreign-magic-number", res["later"]["moddir3"]))
        if res["later"]["moddir3"].get("rewritten"):
            st.extra["items_with_foreign_module_files"] = st.extra.get("items_with_foreign_module_files", 0) + 1
    for s, r in res.items():
        if s in ("0", "later"):
            continue
        if "_error" in r:
            st.extra.setdefault("harness_errors", []).append("%s seed %s: %s" % (iid, s, r["_error"]))
            continue
        for p in ("string", "file", "moddir"):
            obs.append(("seed%s:%s" % (s, p), r[p]))
    for label, f in obs:
        st.evaluations += 1
        st.transitions += 1
        st.oracles["agreement"] += 1
        got = f.get("render")
        if label == "cmd" and not base.startswith("OUT:"):
            continue
        if got != base:
            kind = "exception" if (got or "").startswith("EXC") else "output"
            bad("path:%s:%s" % (label.split(":")[-1] if label.startswith("seed") else label, kind) + (":hashseed" if label.startswith("seed") else ""), "same output on every path", base, "%s -> %s" % (label, got))
        if "source" in f:
            st.oracles["source"] += 1
            if f["source"] != text:
                bad("source:%s" % label.split(":")[-1], "Template.source is the template's own text", text, f["source"])
        if "defs" in f and "defs" in r0["string"] and isinstance(f["defs"], list):
            if f["defs"] != r0["string"]["defs"]:
                bad("defs:%s" % label.split(":")[-1], "list_defs agrees on every path", r0["string"]["defs"], f["defs"])
        if "has_def" in f and f["has_def"] != r0["string"]["has_def"]:
            bad("has_def:%s" % label.split(":")[-1], "has_def agrees on every path", r0["string"]["has_def"], f["has_def"])
        if label.startswith("seed"):
            same = r0.get(label.split(":")[1], {})
            # (the TEXT of the generated module may list names in another order under another seed - e.g. the key
            # list of a <% %> block's __M_locals.update - without any difference in behaviour: module texts are
            # compared as multisets of lines below; an exact comparison was tried and removed as demanding more
            # than the property states)
            if f.get("render_msg") is not None and same.get("render_msg") is not None and f["render_msg"] != same["render_msg"]:
                bad("path:error-text:hashseed", "the error a render raises does not depend on PYTHONHASHSEED", same["render_msg"], "%s: %s" % (label, f["render_msg"]))
        if f.get("code_unordered") and r0["string"].get("code_unordered"):
            st.oracles["code"] += 1
            if f["code_unordered"] != r0["string"]["code_unordered"]:
                bad("code:%s" % label.split(":")[-1], "Template.code is the same module on every path (masked, as a multiset of lines)", r0["string"]["code_unordered"], "%s: %s" % (label, f["code_unordered"]))
    if "uri-spellings" in r0:
        for sp, got in r0["uri-spellings"]["renders"].items():
            st.evaluations += 1
            if got != base:
                bad("uri-spelling", "the URI spelling does not change the template", base, "%r -> %s" % (sp, got))
    if "out-enc" in r0 and base.startswith("OUT:"):
        for enc, got in r0["out-enc"]["renders"].items():
            st.evaluations += 1
            st.oracles["out-enc"] += 1
            if got != "OUT:same":
                bad("path:render-bytes:%s" % enc, "render() is render_unicode() encoded once with output_encoding", "render_unicode().encode(%s)" % enc, got)
    if "cmd" in r0 and base.startswith("OUT:") and r0["cmd"].get("render") == base:
        for k_, got in sorted(r0["cmd"].get("encoded", {}).items()):
            enc = k_.split(":")[0]
            try:
                want = "OUT:" + base[4:].encode(enc).hex()
            except UnicodeEncodeError:
                want = None
            st.evaluations += 1
            st.oracles["cmd_output_encoding"] += 1
            if want is not None and got != want:
                bad("path:cmd-output-encoding:%s" % k_.split(":")[1], "mako-render --output-encoding writes the output encoded once", want[:80], "%s -> %s" % (k_, str(got)[:120]))
            elif want is None and got.startswith("OUT:"):
                bad("path:cmd-output-encoding:%s" % k_.split(":")[1], "unencodable output is an error", "error", "%s -> %s" % (k_, str(got)[:120]))
    if "get_def" in r0 and base.startswith("OUT:"):
        # defs that mark their own output: the segment written in the page is what get_def(name).render() gives
        for n_, got in sorted(r0["get_def"]["defs"].items()):
            seg = re.findall("\u00ab%s:[^\u00bb]*\u00bb" % re.escape(n_), base)
            if len(seg) == 1:
                st.oracles["get_def_in_page"] += 1
                st.evaluations += 1
                if got != "OUT:" + seg[0]:
                    bad("get_def:in-page", "a def rendered through get_def(name).render() gives what it gives in the page", seg[0], got)
    if "get_def" in r0 and "get_def_file" in r0:
        st.oracles["get_def"] += 1
        if r0["get_def"]["defs"] != r0["get_def_file"]["defs"]:
            bad("get_def:file", "get_def(name).render() agrees on every path", r0["get_def"]["defs"], r0["get_def_file"]["defs"])
    if "later" in res and res["later"].get("moddir2", {}).get("regenerated"):
        st.extra["modules_regenerated_by_later_process"] = st.extra.get("modules_regenerated_by_later_process", 0) + 1
    st.traces += 1
    if st.states % 97 == 1:
        st.sample({"id": iid, "main": text[:200], "paths": [l for l, _ in obs], "output": base[:120]})


COLLIDE = ["a-b", "a_b", "a.b", "a b", "a/b"]


def same_name_defs(st, only=None):
    """templates sharing a module name (URIs differing in punctuation, or one URI recompiled after its file changed)
    whose defs have the same name but different signatures: get_def(name).render(**kw) and the body must use each
    template's own signature"""
    import time

    from mako.lookup import TemplateLookup

    t1 = "<%def name='item(title)'>[1:${title}]</%def>${item(title=title)}"
    t2 = "<%def name='item(label=\"none\")'>[2:${label}]</%def>${item(label=label)}"
    for mode in ("punctuation-string", "punctuation-files", "recompiled", "recompiled-moddir"):
        for order in (0, 1):
            if only is not None and only != (mode, order):
                continue
            st.states += 1
            st.evaluations += 1
            st.nontrivial += 1
            root = core.scratch_dir("c08d-")
            a, b = (t1, t2) if order == 0 else (t2, t1)
            kwa, kwb = ({"title": "T"}, {"label": "L"}) if order == 0 else ({"label": "L"}, {"title": "T"})
            exp = ["[1:T]", "[2:L]"] if order == 0 else ["[2:L]", "[1:T]"]
            try:
                if mode == "punctuation-string":
                    L = TemplateLookup()
                    L.put_string("card-v2.html", a)
                    L.put_string("card_v2.html", b)
                    ta, tb = L.get_template("card-v2.html"), L.get_template("card_v2.html")
                    got = [ta.get_def("item").render(**kwa), ta.render(**kwa), tb.get_def("item").render(**kwb), tb.render(**kwb)]
                elif mode == "punctuation-files":
                    src = os.path.join(root, "src")
                    os.makedirs(src)
                    open(os.path.join(src, "card-v2.html"), "w").write(a)
                    open(os.path.join(src, "card_v2.html"), "w").write(b)
                    L = TemplateLookup(directories=[src], module_directory=os.path.join(root, "mods"))
                    ta, tb = L.get_template("card-v2.html"), L.get_template("card_v2.html")
                    got = [ta.get_def("item").render(**kwa), ta.render(**kwa), tb.get_def("item").render(**kwb), tb.render(**kwb)]
                else:
                    src = os.path.join(root, "src")
                    os.makedirs(src)
                    p = os.path.join(src, "card.html")
                    open(p, "w").write(a)
                    old = time.time() - 100
                    os.utime(p, (old, old))
                    L = TemplateLookup(directories=[src], module_directory=os.path.join(root, "mods") if mode.endswith("moddir") else None)
                    ta = L.get_template("card.html")
                    got = [ta.get_def("item").render(**kwa), ta.render(**kwa)]
                    open(p, "w").write(b)
                    new = time.time() + 100
                    os.utime(p, (new, new))
                    tb = L.get_template("card.html")
                    got += [tb.get_def("item").render(**kwb), tb.render(**kwb)]
            except BaseException as e:  # noqa
                got = ["EXC %s: %s" % (type(e).__name__, str(e)[:100])]
            want = [exp[0], exp[0], exp[1], exp[1]]
            st.outcomes["same-name-defs:%s:%s" % (mode, "ok" if got == want else "differs")] += 1
            if got != want:
                st.violation("same-name-defs:%s" % mode.split("-")[0], {"kind": "samename", "mode": mode, "order": order}, "get_def(name).render() and the body use the template's own def signature, whatever was compiled before under the same module name", want, got)




def module_state(st, only=None):
    """a template that changes its own <%! %> module-level state while it renders: every Template OBJECT, however it
    was constructed (from text, from a file, into a module directory, from an existing module file, with a module
    path of the caller's choosing), starts from the state its module block sets up - its renders count 1, 2 whatever
    other Template objects of the same source did before in the process"""
    from mako.lookup import TemplateLookup
    from mako.template import Template

    text = "<%! hits = [] %><% hits.append(1) %>n=${len(hits)}<%def name='d()'>d=${len(hits)}</%def>"
    routes = ["text", "filename", "lookup-files", "lookup-moddir", "lookup-moddir-other-lookup", "filename-moddir", "module_filename", "modulename_callable"]
    for first in routes:
        for second in routes:
            if only is not None and only != (first, second):
                continue
            root = core.scratch_dir("c08m-")
            src = os.path.join(root, "src")
            os.makedirs(src)
            fn = os.path.join(src, "page.html")
            open(fn, "w").write(text)
            mods = os.path.join(root, "mods")
            shared = {}

            def make(route):
                if route == "text":
                    return Template(text)
                if route == "filename":
                    return Template(filename=fn)
                if route == "lookup-files":
                    return TemplateLookup(directories=[src]).get_template("page.html")
                if route == "lookup-moddir":
                    if "lk" not in shared:
                        shared["lk"] = TemplateLookup(directories=[src], module_directory=mods, collection_size=1)
                    lk = shared["lk"]
                    lk._collection.clear() if hasattr(lk._collection, "clear") else None
                    return lk.get_template("page.html")
                if route == "lookup-moddir-other-lookup":
                    return TemplateLookup(directories=[src], module_directory=mods).get_template("page.html")
                if route == "filename-moddir":
                    return Template(filename=fn, module_directory=os.path.join(root, "tmods"))
                if route == "module_filename":
                    return Template(filename=fn, module_filename=os.path.join(root, "one_module.py"))
                return TemplateLookup(directories=[src], modulename_callable=lambda f, u: os.path.join(root, "named", "page_mod.py")).get_template("page.html")

            st.states += 1
            st.nontrivial += 1
            st.traces += 1
            st.oracles["module-state"] += 1
            try:
                a = make(first)
                got = [a.render_unicode(), a.render_unicode()]
                b = make(second)
                got += [b.render_unicode(), b.get_def("d").render_unicode(), a.render_unicode()]
            except BaseException as e:  # noqa
                got = ["EXC %s: %s" % (type(e).__name__, str(e)[:100])]
            st.evaluations += len(got)
            st.transitions += len(got)
            want = ["n=1", "n=2", "n=1", "d=1", "n=3"]
            ok = got == want
            st.outcomes["module-state:%s" % ("ok" if ok else "differs")] += 1
            if not ok:
                st.violation("module-state:second Template (%s) shares state" % ("module file reused" if second.split("-")[0] == first.split("-")[0] or "moddir" in second and "moddir" in first else "another route"),
                             {"kind": "modstate", "first": first, "second": second}, "every Template object starts from its own module-level state", want, got)


def collisions(st, only=None):
    """all pairs of URIs that differ only in non-word characters, registered in one lookup"""
    from mako.lookup import TemplateLookup

    for backing in ("put_string", "files", "files+moddir"):
        for u1, u2 in itertools.permutations(COLLIDE, 2):
            if only is not None and only != (backing, u1, u2):
                continue
            st.states += 1
            st.evaluations += 1
            st.nontrivial += 1
            root = core.scratch_dir("c08c-")
            texts = {u1: "one:%s:${x}<%%def name='f()'>f1</%%def>" % u1, u2: "two:%s:${x}<%%def name='g()'>g2</%%def>" % u2}
            try:
                if backing == "put_string":
                    L = TemplateLookup()
                    for u, t in texts.items():
                        L.put_string(u, t)
                else:
                    src = os.path.join(root, "src")
                    for u, t in texts.items():
                        p = os.path.join(src, u)
                        os.makedirs(os.path.dirname(p), exist_ok=True)
                        open(p, "w").write(t)
                    L = TemplateLookup(directories=[src], module_directory=os.path.join(root, "mods") if "moddir" in backing else None)
                t1, t2 = L.get_template(u1), L.get_template(u2)
                facts = {
                    "render1": t1.render(x="X"), "render2": t2.render(x="X"),
                    "source1": t1.source, "source2": t2.source,
                    "defs1": sorted(t1.list_defs()), "defs2": sorted(t2.list_defs()),
                    "code1_has_own_text": ("one:" in t1.code), "code2_has_own_text": ("two:" in t2.code),
                }
            except BaseException as e:  # noqa
                facts = {"exception": "%s: %s" % (type(e).__name__, e)}
            exp = {
                "render1": "one:%s:X" % u1, "render2": "two:%s:X" % u2, "source1": texts[u1], "source2": texts[u2],
                "defs1": ["body", "f"], "defs2": ["body", "g"], "code1_has_own_text": True, "code2_has_own_text": True,
            }
            st.outcomes["collision:%s:%s" % (backing, "ok" if facts == exp else "differs")] += 1
            if facts != exp:
                wrong = sorted(k for k in exp if facts.get(k) != exp[k]) if "exception" not in facts else ["exception"]
                kinds = sorted({k.replace("_has_own_text", "").rstrip("12") for k in wrong})
                if set(kinds) <= {"code", "source"}:
                    kinds = ["source+code-of-the-other-template"]
                st.violation("uri-collision:%s" % "+".join(kinds), {"kind": "collision", "backing": backing, "uris": [u1, u2]}, "templates whose URIs differ only in non-word characters keep their own source/code/defs/output", exp, facts)


def replay(case):
    st = Stats()
    if case.get("kind") == "collision":
        collisions(st, only=(case["backing"], case["uris"][0], case["uris"][1]))
        return (False, "reproduced: %s" % st.violations[0]["sig"]) if st.violations else (True, "holds")
    if case.get("kind") == "modstate":
        module_state(st, only=(case["first"], case["second"]))
        return (False, "reproduced: %s" % st.violations[0]["sig"]) if st.violations else (True, "holds")
    if case.get("kind") == "samename":
        same_name_defs(st, only=(case["mode"], case["order"]))
        return (False, "reproduced: %s" % st.violations[0]["sig"]) if st.violations else (True, "holds")
    it = dict(case)
    root = core.scratch_dir("c08r-")
    res = {"0": c08_lib.run_item(it, os.path.join(root, "s0", "x"), IN_PROCESS + (["cmd"] if cmd_ok(it) else []))}
    res["later"] = _child({"items": [dict(it, id="x")], "workroot": os.path.join(root, "s0"), "paths": ["moddir2"]}, 0)["x"]
    res["later"].update(_child({"items": [dict(it, id="x")], "workroot": os.path.join(root, "s0"), "paths": ["moddir3"]}, 0)["x"])
    for s in (1, 2, 3):
        res[str(s)] = _child({"items": [dict(it, id="x")], "workroot": os.path.join(root, "s%d" % s), "paths": ["string", "file", "moddir"]}, s)["x"]
    judge(it, res, st)
    if st.violations:
        return False, "reproduced: %r" % (st.violations[0]["sig"],)
    return True, "holds"
