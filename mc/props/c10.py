"""C10 - escaping filters neutralise markup for every input and are invertible.

Engine E1: exhaustive enumeration of
  (i)   every Unicode scalar value (quick: BMP + first/last 256 of every other plane)
        as a one-character string,
  (ii)  every word of <= k tokens over the markup alphabet M,
  (iii) both embedded in a fixed set of contexts (a{}b, {}{}, ...),
each pushed through the real filter functions, through `${v | <filter>}`
templates, through str.encode(cs, "htmlentityreplace") and through
Template(output_encoding=cs, encoding_errors="htmlentityreplace").render(),
and compared with oracles written from the standard library only (aligned
reference-by-reference decoding, own percent decoder, html.unescape,
urllib.parse.unquote_plus, str.isspace, html.entities tables).
"""

import html
import html.entities
import itertools
import re
import time
import urllib.parse

from mc import core
from mc.core import Stats

PROPERTY = "C10"
LEVEL = "model_checking"
ENGINE = "E1"
TECHNIQUE = (
    "exhaustive enumeration of all Unicode scalar values and all short words over the markup alphabet, in "
    "embedding contexts, through the real filters / templates / codec error handler, against aligned "
    "reference decoders built from the standard library"
)
RULE = (
    "case = one string: (i) each enumerated code point c placed in each context template, (ii) each word of <=k "
    "tokens of the markup alphabet M placed in the contexts '{}' and 'A{}B'; canonical = the string itself "
    "(strings of (ii) already produced by (i) are skipped); (v) two-step *sequences*, each in a fresh interpreter so that "
    "step 1 is the first use in the process, every pair in both orders: handler <-> all filters per (representative "
    "character of each class latin1-named / bmp-named / bmp-unnamed / astral / C1) x charset; render with "
    "encoding_errors strict|replace|ignore <-> htmlentityreplace per charset; h x u entity trim on two kinds of value "
    "with the same text (plain str, Markup, other str subclass, object with __html__); decode.<enc1> <-> decode.<enc2> "
    "on the same values; malformed/truncated bytes <-> well-formed bytes through one decode.<enc> (utf_8, utf_16, "
    "utf_16_le, shift_jis, euc_kr, ascii; every cut of every sample, judged per call against CPython's strict decoder); "
    "filters on equal-but-different non-string values (True/1/1.0, False/0/0.0), an unhashable list and an object whose "
    "text changes with every str(); (vi) plain text that spells character references (3 prefixes x 22 bodies x with/without "
    "';'), alone in 4 contexts and all ordered pairs. Every case runs through every operation as a direct call "
    "(h x u entity trim; decode.utf8/latin1/ascii on str, bytes, other object; str.encode(cs,'htmlentityreplace') for 5 "
    "charsets); the template routes (${v|f}, ${v|n,decode.X}, Template(output_encoding=cs, encoding_errors=...).render) "
    "run on every case in thorough and, in quick, on the cases of the first two contexts and all words (decode "
    "templates: utf-8 only). Non-trivial = "
    "the string contains a character that at least one filter must change (markup character, non URL-safe "
    "character, named-entity character, leading/trailing whitespace) or that at least one target charset cannot encode."
)
ASSUMPTIONS = [
    "strings are products of single code points / M-words and fixed contexts; the 'random mixtures' of the quantifier are replaced by this systematic product (no sampling)",
    "the escaping filters act character by character (checked structurally by the aligned oracle on every case), so single characters in contexts plus all short words over the markup alphabet cover their behaviour",
    "ascii, latin-1, cp1251, shift_jis and utf-8 are stateless codecs: encodability is decided per character with CPython's strict codec",
    "the reference decoder knows &name; (html.entities name2codepoint / html5), &#N; and &#xH; with no HTML5 remapping; html.unescape is used as a second decoder only where it does not remap",
    "decode.<enc> on bytes that are not valid in <enc>: in the grid DONT_CARE (UnicodeDecodeError or any str); in the byte sequences UnicodeDecodeError or the decoding with replacement marks is accepted, bytes vanishing silently is not; malformed bytes are only fed in fresh child interpreters, never to the long-lived workers",
    "filters on non-string values: h and entity are called directly and behind n; x, u and trim only behind the default str filter (they are defined on strings)",
    "CPython str, re, codecs, html, urllib.parse are trusted",
    "process history: the grid runs in long-lived workers (any order-dependent failure is located by core.find_prelude and reported with its prelude); order independence itself is checked on the sequence family only (one earlier step: handler/filters, error policies per charset, value kinds with equal text, decode encodings), not for every pair of cases",
    "h on a value that declares itself safe (Markup, object with __html__) is DONT_CARE between the text and its escaped form; a standard encoding_errors policy is judged against str.encode(cs, policy) (the documented meaning of the parameter), strict raising UnicodeEncodeError",
]
BOUNDS = {
    "quick": {
        "sequences": "handler/filters 5 characters (one per class, picked by the seed) x 5 charsets; policies 4 charsets x {strict,replace,ignore}; 6 pairs of string-like value kinds + 6 number pairs + list + changing object; 3 pairs of decode encodings; 6 encodings malformed/well-formed bytes; x 2 orders = 120 fresh interpreters",
        "reference_spellings": "132 spellings x 4 contexts + 132^2 ordered pairs (template routes on the singles)",
        "code_points": "U+0000..U+FFFF minus surrogates + first and last 256 of planes 1..16 (71680)",
        "contexts": ["{}", "A{}B", "{}{}", "&{};", " {}\n"],
        "word_len": 3,
        "word_contexts": ["{}", "A{}B"],
        "decode_template_routes": "utf-8",
        "template_route_contexts": 2,
        "charsets": ["ascii", "latin-1", "cp1251", "shift_jis", "utf-8"],
        "other_charsets": "13 stateful / EBCDIC / multi-byte / utf-16,32,7 charsets x every string of <=3 characters over a 10-character alphabet (template route for <=2)",
        "long_runs": "15 units (markup characters, a reference, blank, + %, one character per class, newline) repeated 15..1000 times (14 lengths around powers of two), and every ordered pair of a markup-ish unit with any unit alternating / as last / as first character",
    },
    "thorough": {
        "long_runs": "as quick with 28 lengths up to 65537",
        "sequences": "handler/filters 20 characters (4 per class) x 5 charsets; policies 4 charsets x 3; 6+6+2 pairs of value kinds; 3 pairs of decode encodings; 6 encodings malformed/well-formed bytes; x 2 orders = 270 fresh interpreters",
        "reference_spellings": "132 spellings x 4 contexts + 132^2 ordered pairs (template routes on all)",
        "code_points": "every Unicode scalar value U+0000..U+10FFFF minus surrogates (1112064)",
        "contexts": ["{}", "A{}B", "{}{}", "&{};", " {}\n", "<{}>", "{}A{}", "&#{};"],
        "word_len": 4,
        "word_contexts": ["{}", "A{}B"],
        "decode_template_routes": "all",
        "template_route_contexts": 8,
        "charsets": ["ascii", "latin-1", "cp1251", "shift_jis", "utf-8"],
        "other_charsets": "13 stateful / EBCDIC / multi-byte / utf-16,32,7 charsets x every string of <=3 characters over a 10-character alphabet (template route for <=2)",
    },
}

CHARSETS = ["ascii", "latin-1", "cp1251", "shift_jis", "utf-8"]
LONG_LENS = {"quick": [15, 16, 17, 31, 32, 33, 63, 64, 65, 100, 255, 256, 257, 1000], "thorough": [15, 16, 17, 31, 32, 33, 63, 64, 65, 99, 100, 101, 127, 128, 129, 255, 256, 257, 511, 512, 513, 1000, 1023, 1024, 1025, 4096, 10000, 65537]}

# pools of interchangeable data (the seed only picks from these)
POOL_A = ["a", "k", "z", "Q"]  # filler before (never 'b': see _dewrap)
POOL_B = ["c", "m", "y", "Z"]  # filler after
POOL_L1 = ["é", "ß", "ñ", "ü"]  # latin-1, has a named entity
POOL_NAMED = ["€", "†", "…", "™"]  # not latin-1, in cp1251, has a named entity
POOL_BMP = ["ж", "中", "א", "ก"]  # no named entity
POOL_ASTRAL = ["\U0001d11e", "\U0001f600", "\U00010348", "\U000e0141"]  # none in the quick code point set
POOL_DEC = [
    ("utf8", "latin1", "ascii"),
    ("utf_8", "latin_1", "us_ascii"),
    ("UTF8", "iso8859_1", "ASCII"),
    ("U8", "L1", "US_ASCII"),
]


def data(seed):
    k = seed % 4
    return {
        "A": POOL_A[k],
        "B": POOL_B[k],
        "M": ["<", ">", '"', "'", "&", ";", "#", "x", "1", "a", " ", "\n", "amp", "&amp;", "&#",
              POOL_L1[k], POOL_NAMED[k], POOL_ASTRAL[k], POOL_BMP[k], "&#x", "3C"],
        "dec": POOL_DEC[k],
    }


def contexts(tier, d):
    return [c.replace("A", d["A"]).replace("B", d["B"]) for c in BOUNDS[tier]["contexts"]]


def word_contexts(tier, d):
    return [c.replace("A", d["A"]).replace("B", d["B"]) for c in BOUNDS[tier]["word_contexts"]]


def in_cpset(cp, tier):
    if 0xD800 <= cp <= 0xDFFF or cp > 0x10FFFF:
        return False
    if tier != "quick" or cp < 0x10000:
        return True
    low = cp & 0xFFFF
    return low < 0x100 or low >= 0xFF00


def code_points(tier):
    if tier != "quick":
        return list(range(0xD800)) + list(range(0xE000, 0x110000))
    cps = list(range(0xD800)) + list(range(0xE000, 0x10000))
    for plane in range(1, 17):
        cps += range(plane * 0x10000, plane * 0x10000 + 0x100)
        cps += range(plane * 0x10000 + 0xFF00, plane * 0x10000 + 0x10000)
    return cps


def in_family_i(s, tier, ctxs):
    """would (i) x contexts already produce s?"""
    for t in ctxs:
        p = t.index("{}")
        if len(s) > p and in_cpset(ord(s[p]), tier) and t.replace("{}", s[p]) == s:
            return True
    return False


REF_PREFIX = ["&", "&amp;", "&amp;amp;"]
REF_BODY = ["#60", "#x3c", "#x3C", "#X3C", "lt", "LT", "euro", "#x20AC", "#x20ac", "#8364", "#x110000", "#1114112",
            "#xD800", "#0", "#x0", "#x80", "#128", "bogus", "Eacute", "#", "#x", "#xZZ"]
REF_TERM = [";", ""]
REF_CONTEXTS = ["{}", "A{}B", "<{}>", "{}&"]


def ref_spellings():
    """plain TEXT that spells a character reference: decimal, lower/upper hex, named, unknown, out of range,
    surrogate, C1, with and without the terminator, bare and behind one or two levels of &amp;"""
    return [p + b + t for p in REF_PREFIX for b in REF_BODY for t in REF_TERM]


def min_tokens(s, M, limit):
    """fewest tokens of M that concatenate to s (limit+1 if more than limit or impossible)"""
    best = {0: 0}
    for i in range(len(s)):
        if i not in best or best[i] >= limit:
            continue
        for tok in M:
            if s.startswith(tok, i):
                j = i + len(tok)
                if best.get(j, limit + 1) > best[i] + 1:
                    best[j] = best[i] + 1
    return best.get(len(s), limit + 1)


def in_family_ii(s, tier, d):
    k = BOUNDS[tier]["word_len"]
    for t in word_contexts(tier, d):
        pre, post = t.split("{}")
        if len(s) >= len(pre) + len(post) and s.startswith(pre) and s.endswith(post):
            if min_tokens(s[len(pre) : len(s) - len(post)], d["M"], k) <= k:
                return True
    return False


# --------------------------------------------------------------------------
# reference decoders (standard library only)

_N2C = html.entities.name2codepoint
_C2N = html.entities.codepoint2name
_H5 = html.entities.html5
_REF = re.compile(r"&(?:#([0-9]+)|#[xX]([0-9a-fA-F]+)|([A-Za-z][A-Za-z0-9]*));")
_REFB = re.compile(rb"&(?:#([0-9]+)|#[xX]([0-9a-fA-F]+)|([A-Za-z][A-Za-z0-9]*));")


def ref_value(m):
    """the text one character reference stands for (no HTML5 remapping); None if unknown"""
    d, h, n = m.groups()
    if n is not None:
        if isinstance(n, bytes):
            n = n.decode("ascii")
        if n in _N2C:
            return chr(_N2C[n])
        return _H5.get(n + ";")
    cp = int(d) if d is not None else int(h, 16)
    if cp > 0x10FFFF:
        return None
    return chr(cp)


def aligned(s, out, must):
    """out must be s with some characters replaced by a reference that decodes to that character;
    characters for which must(c) holds have to be replaced.  -> None or (reason, char)"""
    i = 0
    for c in s:
        if not must(c) and out.startswith(c, i):
            i += 1
            continue
        m = _REF.match(out, i)
        if m is not None and ref_value(m) == c:
            i = m.end()
            continue
        if out.startswith(c, i):
            return ("left unescaped", c)
        if m is not None:
            return ("reference decodes to something else", c)
        return ("neither the character nor a reference to it", c)
    if i != len(out):
        return ("extra output", out[i : i + 8])
    return None


def aligned_enc(s, b, cs):
    """b must be: each encodable character strictly encoded, each unencodable one replaced by an
    ASCII reference that decodes to it.  -> (None, nnamed, nnumeric) or ((reason, char), ..)"""
    i = 0
    nn = nx = 0
    for c in s:
        try:
            e = c.encode(cs)
        except UnicodeEncodeError:
            e = None
        if e is not None:
            if b.startswith(e, i):
                i += len(e)
                continue
            return ("encodable character not encoded as the codec does", c), nn, nx
        m = _REFB.match(b, i)
        if m is not None and ref_value(m) == c:
            i = m.end()
            if m.group(3) is not None:
                nn += 1
            else:
                nx += 1
            continue
        if m is not None:
            return ("reference decodes to something else", c), nn, nx
        return ("no character reference at the unencodable character", c), nn, nx
    if i != len(b):
        return ("extra output", repr(b[i : i + 8])), nn, nx
    return None, nn, nx


_WRAP = re.compile(rb"b'((?:&[#A-Za-z0-9]+;)+)'")


def _dewrap(b):
    """neutralise the bytes-repr wrapper (b'...') round a run of references: used only to
    classify an already failing case, never to pass one"""
    return _WRAP.sub(lambda m: m.group(1), b)


# code points html.unescape treats specially when they arrive as numeric references
_H_WEIRD = set(range(0x0, 0x9)) | {0xB, 0xD} | set(range(0xE, 0x20)) | set(range(0x7F, 0xA0)) | set(range(0xFDD0, 0xFDF0))
for _p in range(17):
    _H_WEIRD.add(_p * 0x10000 + 0xFFFE)
    _H_WEIRD.add(_p * 0x10000 + 0xFFFF)

_URL_OK = frozenset("ABCDEFGHIJKLMNOPQRSTUVWXYZabcdefghijklmnopqrstuvwxyz0123456789_.~+%-")
_HEX = "0123456789abcdefABCDEF"
_MARKUP = frozenset("<>\"'&")
_URL_PLAIN = frozenset("ABCDEFGHIJKLMNOPQRSTUVWXYZabcdefghijklmnopqrstuvwxyz0123456789_.~-")


def own_unquote_plus(out):
    """strict percent/plus decoder -> str, or None if malformed"""
    ba = bytearray()
    i, n = 0, len(out)
    while i < n:
        c = out[i]
        if c == "%":
            h = out[i + 1 : i + 3]
            if len(h) != 2 or h[0] not in _HEX or h[1] not in _HEX:
                return None
            ba.append(int(h, 16))
            i += 3
        elif c == "+":
            ba.append(0x20)
            i += 1
        else:
            if ord(c) > 0x7F:
                return None
            ba.append(ord(c))
            i += 1
    try:
        return bytes(ba).decode("utf-8")
    except UnicodeDecodeError:
        return None


def ref_trim(s):
    i, j = 0, len(s)
    while i < j and s[i].isspace():
        i += 1
    while j > i and s[j - 1].isspace():
        j -= 1
    return s[i:j]


def nontrivial(s):
    if s != ref_trim(s):
        return True
    for c in s:
        if c in _MARKUP or c not in _URL_PLAIN:
            return True
    return False


# --------------------------------------------------------------------------
# the implementation under test, bound once per process


class _Obj:
    """an 'other object': neither str nor bytes, has __str__"""

    def __init__(self, s):
        self.s = s

    def __str__(self):
        return self.s


_IMPL = {}


def impl(seed):
    key = (core.REPO, seed)
    if key in _IMPL:
        return _IMPL[key]
    from mako import filters
    from mako.template import Template

    d = data(seed)
    I = {"filters": filters, "d": d}
    I["direct"] = {
        "h": filters.html_escape,
        "x": filters.xml_escape,
        "u": filters.url_escape,
        "entity": filters.html_entities_escape,
        "trim": filters.trim,
    }
    I["unescape"] = filters.html_entities_unescape
    I["tmpl"] = {n: Template("${v | %s}" % n).render_unicode for n in ("h", "x", "u", "entity", "trim")}
    # the template-wide route: <%page expression_filter=.../> over several expressions of one template
    I["tmplpage"] = {n: Template('<%%page expression_filter="%s"/>${v}\x00${v}\x00${v}' % n).render_unicode for n in ("h", "x", "u", "entity", "trim")}
    I["dec"] = []
    for std, alias in zip(("utf-8", "latin-1", "ascii"), d["dec"]):
        I["dec"].append(
            (
                std,
                alias,
                getattr(filters.decode, alias),
                Template("${v | decode.%s}" % alias).render_unicode,
                Template("${v | n,decode.%s}" % alias).render_unicode,
            )
        )
    I["enc"] = {
        cs: Template("${v}", output_encoding=cs, encoding_errors="htmlentityreplace").render for cs in CHARSETS
    }
    # the same through a def rendered on its own: get_def(name).render() uses the template's output settings too
    I["encdef"] = {
        cs: Template("<%def name='d()'>${v}</%def>", output_encoding=cs, encoding_errors="htmlentityreplace").get_def("d").render for cs in CHARSETS
    }
    _IMPL[key] = I
    return I


# --------------------------------------------------------------------------
# oracles, one per clause


def o_markup(name, s, out):
    """h / x"""
    if not isinstance(out, str):
        return ("type", "%s returns %s" % (name, type(out).__name__))
    for c in "<>\"'":
        if c in out:
            return ("raw %r in output" % c, "raw markup character in the output")
    r = aligned(s, out, _MARKUP.__contains__)
    if r is not None:
        return ("%s %r" % (r[0], _cls(r[1])), "output is not the input with markup characters replaced by references to them")
    if not (_H_WEIRD.intersection(map(ord, s))) and html.unescape(out) != s:
        return ("html.unescape differs", "html.unescape(output) != input")
    return None


def o_url(s, out):
    if not isinstance(out, str):
        return ("type", "u returns %s" % type(out).__name__)
    for c in out:
        if c not in _URL_OK:
            return ("unsafe %s" % _cls(c), "character outside [A-Za-z0-9_.~+%-] in the output")
    if own_unquote_plus(out) != s:
        return ("decode differs", "percent/plus decoding as UTF-8 does not return the input")
    if urllib.parse.unquote_plus(out, encoding="utf-8", errors="strict") != s:
        return ("unquote_plus differs", "urllib.parse.unquote_plus(output) != input")
    return None


def o_entity(s, out, unescape):
    if not isinstance(out, str):
        return ("type", "entity returns %s" % type(out).__name__)
    i = 0
    for c in s:
        if ord(c) in _C2N:
            m = _REF.match(out, i)
            if m is None or ref_value(m) != c:
                if out.startswith(c, i):
                    return ("named character left", "a character with a named entity is not replaced")
                return ("wrong reference", "a character with a named entity is replaced by something that does not decode to it")
            i = m.end()
        else:
            if not out.startswith(c, i):
                return ("unnamed character changed", "a character without a named entity is altered (%s)" % _cls(c))
            i += 1
    if i != len(out):
        return ("extra output", "extra output")
    try:
        back = unescape(out)
    except Exception as e:  # noqa
        return ("unescape raises " + type(e).__name__, "html_entities_unescape raises on entity output")
    if back != s:
        return ("unescape does not invert", "html_entities_unescape(entity(s)) != s")
    return None


def o_trim(s, out):
    if not isinstance(out, str):
        return ("type", "trim returns %s" % type(out).__name__)
    if out != ref_trim(s):
        return ("differs", "trim(s) is not s without its leading and trailing whitespace")
    return None


def _cls(c):
    """class of a character, for signatures (so that one defect has one signature)"""
    if not isinstance(c, str) or len(c) != 1:
        return "-"
    o = ord(c)
    if c in _MARKUP:
        return repr(c)
    if o < 0x20 or o == 0x7F:
        return "C0"
    if o < 0x80:
        return "ascii"
    if o < 0xA0:
        return "C1"
    named = "named" if o in _C2N else "unnamed"
    if o < 0x100:
        return "latin1-" + named
    if o < 0x10000:
        return "bmp-" + named
    return "astral"


# --------------------------------------------------------------------------


ALL_PARTS = ("filters", "decode", "enc")


def check_string(s, st, I, tmpl=True, parts=ALL_PARTS, charsets=None, decs=None):
    """run the operations of `parts` on one string; counts into st, returns the list of failures
    (op, route, sig, message, observed) without reporting them."""
    viol = []
    oc = st.outcomes
    orc = st.oracles
    nev = 0

    def call(f, *a, **k):
        try:
            return True, f(*a, **k)
        except Exception as e:  # noqa
            return False, e

    # h, x, u, entity, trim: direct call and ${v | f}
    for name in ("h", "x", "u", "entity", "trim") if "filters" in parts else ():
        prev = None
        for route, f in (("direct", I["direct"][name]), ("template", I["tmpl"][name])) if tmpl else (("direct", I["direct"][name]),):
            ok, out = call(f, s) if route == "direct" else call(f, v=s)
            nev += 1
            if not ok:
                viol.append((name, route, "raises " + type(out).__name__, "%s raises" % name, "%s: %s" % (type(out).__name__, str(out)[:200])))
                continue
            if route == "template" and prev is not None and str(prev) == out:
                # same text as the direct call: already judged.  The page-wide route must give that text for every
                # expression of the template
                okp, outp = call(I["tmplpage"][name], v=s)
                nev += 1
                if not okp or outp != "\x00".join([out] * 3):
                    viol.append((name, "page-filter", "differs from ${v | %s}" % name, "<%%page expression_filter> applies the filter once to every expression", "%r" % ((outp if okp else "%s: %s" % (type(outp).__name__, outp)),)[:1] and (str(outp)[:200] if okp else "%s: %s" % (type(outp).__name__, str(outp)[:160]))))
                continue
            prev = out
            orc[name] += 1
            if name in ("h", "x"):
                r = o_markup(name, s, out)
            elif name == "u":
                r = o_url(s, out)
            elif name == "entity":
                r = o_entity(s, out, I["unescape"])
                nev += 1
            else:
                r = o_trim(s, out)
            if r is not None:
                viol.append((name, route, r[0], r[1], str(out)))
            if route == "direct":
                oc[name + (":changed" if out != s else ":same")] += 1

    # decode.<enc>: str, bytes, other object
    u8 = s.encode("utf-8")
    for std, alias, f, t_str, t_n in I["dec"] if "decode" in parts else ():
        if decs is not None and std not in decs:
            continue
        inputs = [("str", s, s), ("obj", _Obj(s), s)]
        try:
            inputs.append(("bytes-utf8", u8, u8.decode(std)))
        except UnicodeDecodeError:
            inputs.append(("bytes-utf8", u8, None))
        if std != "utf-8":
            try:
                inputs.append(("bytes-own", s.encode(std), s))
            except UnicodeEncodeError:
                pass
        for kind, x, exp in inputs:
            routes = [("direct", f)]
            if tmpl and (I["dec_templates"] == "all" or std == "utf-8"):
                routes.append(("template", t_n))
                if kind != "bytes-utf8" and kind != "bytes-own":
                    routes.append(("template-str", t_str))
            for route, g in routes:
                ok, out = call(g, x) if route == "direct" else call(g, v=x)
                nev += 1
                orc["decode"] += 1
                op = "decode." + std
                if exp is None:
                    # bytes not valid in the encoding: not fixed by the statement
                    if ok or isinstance(out, UnicodeDecodeError):
                        if route == "direct":
                            oc[op + ":" + kind + ":undecodable"] += 1
                    else:
                        viol.append((op, route, "%s raises %s" % (kind, type(out).__name__), "decode raises something other than UnicodeDecodeError", repr(out)[:200]))
                    continue
                if not ok:
                    viol.append((op, route, "%s raises %s" % (kind, type(out).__name__), "decode raises", "%s: %s" % (type(out).__name__, str(out)[:200])))
                elif not isinstance(out, str):
                    viol.append((op, route, "%s not str" % kind, "decode does not return str", type(out).__name__))
                elif out != exp:
                    viol.append((op, route, "%s wrong text" % kind, "decode returns a different text", out))
                elif route == "direct":
                    oc[op + ":" + kind + ":ok"] += 1

    # encoding error handler: str.encode and Template.render
    for cs in (charsets or CHARSETS) if "enc" in parts else ():
        prev = None
        for route in ("direct", "template", "template-def") if tmpl else ("direct",):
            if route == "direct":
                ok, out = call(s.encode, cs, "htmlentityreplace")
            elif route == "template":
                ok, out = call(I["enc"][cs], v=s)
            else:
                ok, out = call(I["encdef"][cs], v=s)
            nev += 1
            op = "enc." + cs
            if not ok:
                viol.append((op, route, "raises " + type(out).__name__, "encoding with htmlentityreplace raises", "%s: %s" % (type(out).__name__, str(out)[:200])))
                continue
            if not isinstance(out, bytes):
                viol.append((op, route, "type", "encoding does not give bytes", type(out).__name__))
                continue
            if route != "direct" and prev == out:
                continue
            prev = out
            orc["htmlentityreplace"] += 1
            r, nn, nx = aligned_enc(s, out, cs)
            if r is not None:
                out2 = _dewrap(out)
                r2, nn, nx = aligned_enc(s, out2, cs)
                if r2 is None:
                    sig = "references wrapped in b'...' (str() of a bytes object)"
                else:
                    # if the wrapper is present AND something else is wrong: classify by the other failure
                    rr = r2 if out2 != out else r
                    sig = rr[0]
                    if "reference" in rr[0]:
                        sig += " (%s)" % _cls(rr[1])
                viol.append((op, route, sig, "an unencodable character is not replaced by a reference that decodes back to it: " + r[0], repr(out)))
            else:
                try:
                    out.decode(cs)
                except UnicodeDecodeError:
                    viol.append((op, route, "output not decodable", "encoded output does not decode in the target charset", repr(out)))
            if route == "direct":
                oc[op + ":" + ("strict" if not (nn or nx) else ("named" if not nx else ("numeric" if not nn else "named+numeric")))] += 1

    st.evaluations += nev
    st.transitions += nev
    return viol


def full_sig(op, sig):
    # footprint: operation + failing feature (the charset is not part of it: the handler is one function)
    fam = "htmlentityreplace" if op.startswith("enc.") else ("decode" if op.startswith("decode.") else op)
    return "%s:%s" % (fam, sig)


def order_sig(op, suffix):
    """one signature per order-dependent defect: the operation family + what has to precede it
    (which detail of the result goes wrong is in the oracle text, not in the footprint)"""
    if op.startswith("enc."):
        fam = "htmlentityreplace"
    elif op.startswith("policy."):
        fam = "encoding_errors policy"
    elif op.startswith("decode."):
        fam = "decode"
    else:
        fam = op.split("[")[0]
    return "%s:result differs%s" % (fam, suffix)


MODNAME = "mc.props.c10"
AFTER_CASE = ":after an earlier case in the process"
MAX_PRELUDE_SEARCHES = 6  # per worker process
_HIST = __import__("collections").deque(maxlen=40)  # the last cases of this process (across jobs)


def report_grid(s, viol, st, I, hist):
    """report the failures of one grid case.  The filters must not depend on what the process did
    before, but a long-lived worker has a history: a failure is reported together with the shortest
    prelude (nothing, or one earlier case) after which it reproduces in a fresh interpreter."""
    memo = I.setdefault("prelude_memo", {})  # per worker process: one footprint is located once
    for op, route, sig, msg, observed in viol:
        full = full_sig(op, sig)
        case = {"s": s, "op": op, "route": route, "seed": I["seed"]}
        how = memo.get(full)
        if how is None:
            if I.get("prelude_searches", 0) >= MAX_PRELUDE_SEARCHES:
                st.extra["failures_not_located"] = st.extra.get("failures_not_located", 0) + 1
                continue
            I["prelude_searches"] = I.get("prelude_searches", 0) + 1
            # candidates, most likely first: the same string run completely (the worker may have met its
            # characters long ago, in an earlier job), then the most recent cases of this process
            cands = [{"s": h, "seed": I["seed"]} for h in hist if h != s] + [{"s": s, "seed": I["seed"]}]
            pre = core.find_prelude(MODNAME, case, cands)
            if pre is None:
                st.extra.setdefault("harness_errors", []).append(
                    "failure seen in the worker reproduces neither alone, nor after the same string run completely, nor after one of the last %d cases: %s %r" % (len(hist), full, case)
                )
                memo[full] = "lost"
                continue
            if not pre:
                how = memo[full] = "alone"
            else:
                h_enc = dict(pre[0], parts=["enc"])
                if core.isolated_replay(MODNAME, [h_enc, case]) is False:
                    pre, suffix = [h_enc], AFTER_ENC
                else:
                    suffix = AFTER_CASE
                memo[full] = "located"
                st.violation(order_sig(op, suffix), dict(case, prelude=pre), "%s (%s): %s" % (op, route, msg), expected="see oracle", observed=observed)
                continue
        if how == "alone":
            st.violation(full, case, "%s (%s): %s" % (op, route, msg), expected="see oracle", observed=observed)
        else:
            # same order-dependent footprint as one already located (or lost): counted, not re-located
            st.extra["order_dependent_failures"] = st.extra.get("order_dependent_failures", 0) + 1


def check_case(s, st, I, tmpl=True):
    st.states += 1
    st.traces += 1
    if nontrivial(s):
        st.nontrivial += 1
    viol = check_string(s, st, I, tmpl=tmpl)
    hist = I["hist"]
    if viol:
        report_grid(s, viol, st, I, hist)
    hist.append(s)


# --------------------------------------------------------------------------
# (v) sequences: whatever the process keeps between calls (the shared XMLEntityEscaper, any memo or
# cache keyed by charset / by value) must not change a result.  Each sequence is two steps run in a
# fresh interpreter, so that step 1 really is the first use in the process; every pair is run in both orders.
#   step kinds:  ["enc", cs]        str.encode(cs,'htmlentityreplace') + Template(..., that handler).render
#                ["filters"]        h x u entity trim + decode.* (direct and template)
#                ["policy", cs, P]  Template("${v}", output_encoding=cs, encoding_errors=P).render against str.encode(cs, P)
#                ["kinds", K]       h x u entity trim on a value of kind K (plain str, Markup, other str subclass,
#                                   object with __html__) carrying the same text
#                ["decode", enc]    decode.<enc> on the same str / bytes / object

POOL_C1 = ["\x85", "\x80", "\x9f", "\x91"]
POLICIES = ["strict", "replace", "ignore"]
KINDS = ["plain", "markup", "strsub", "htmlobj"]
# values that are not strings: equal-but-different numbers, an unhashable value, an object whose text changes
NUM_TRIPLES = [("True", "1", "1.0"), ("False", "0", "0.0")]
NONSTR_VALUES = {"True": True, "1": 1, "1.0": 1.0, "False": False, "0": 0, "0.0": 0.0}
STEP_TEXT = {
    "enc": "an earlier htmlentityreplace encode in the process",
    "filters": "earlier filter calls in the process",
    "policy": "an earlier render to the same charset with another encoding_errors",
    "kinds": "an earlier call on another kind of value with the same text",
    "decode": "an earlier decode.<other encoding> of the same value",
    "dbytes": "earlier malformed / well-formed bytes through the same decode.<enc>",
}
AFTER_ENC = ":after " + STEP_TEXT["enc"]


def seq_chars(tier, seed):
    """(class, character) representatives: quick = the seed's pick of every pool, thorough = all of every pool"""
    pools = [("latin1-named", POOL_L1), ("bmp-named", POOL_NAMED), ("bmp-unnamed", POOL_BMP), ("astral", POOL_ASTRAL), ("C1", POOL_C1)]
    out = []
    for cls, pool in pools:
        for k, c in enumerate(pool):
            if tier != "quick" or k == seed % 4:
                out.append((cls, c))
    return out


def seq_strings(c, d):
    return [c, d["A"] + c + d["B"], c + c]


def seq_groups(tier, seed):
    """list of groups; a group = the two orders of one pair of steps: [label, strings, stepA, stepB]"""
    d = data(seed)
    groups = []
    for cls, c in seq_chars(tier, seed):
        for cs in CHARSETS:
            groups.append(["handler/filters %s %s" % (cls, cs), seq_strings(c, d), ["enc", cs], ["filters"]])
    mixed = [d["A"] + c + d["B"] for _, c in seq_chars("quick", seed)] + ["".join(c for _, c in seq_chars("quick", seed)), d["A"] + d["B"]]
    for cs in CHARSETS[:4]:
        for pol in POLICIES:
            groups.append(["policy %s %s" % (cs, pol), mixed, ["policy", cs, pol], ["enc", cs]])
    texts = ["<" + d["A"] + ">", d["A"] + "&" + d["B"], "'" + d["M"][15] + '"', d["A"] + d["B"], " " + d["A"] + "<\n"]
    for i, k1 in enumerate(KINDS):
        for k2 in KINDS[i + 1 :]:
            groups.append(["kinds %s %s" % (k1, k2), texts, ["kinds", k1], ["kinds", k2]])
    for trip in NUM_TRIPLES:
        for i, k1 in enumerate(trip):
            for k2 in trip[i + 1 :]:
                groups.append(["kinds %s %s" % (k1, k2), ["-"], ["kinds", k1], ["kinds", k2]])
    groups.append(["kinds list plain", ["[1, '<" + d["A"] + ">']"], ["kinds", "list"], ["kinds", "plain"]])
    groups.append(["kinds changing plain", [d["A"] + "<1>", d["A"] + "<2>"], ["kinds", "changing"], ["kinds", "plain"]])
    btexts = [d["A"] + d["B"], "c" + d["A"] + "f" + d["M"][15], d["M"][16], d["M"][17] + d["B"], d["M"][18] + d["M"][15]]
    for enc in DBYTES_ENCODINGS:
        good, bad = byte_inputs(btexts, enc)
        if good and bad:
            groups.append(["dbytes " + enc, [], ["dbytes", enc, [b.hex() for b in bad]], ["dbytes", enc, [b.hex() for b in good]]])
    dtexts = [d["A"] + d["B"], d["M"][15], d["A"] + d["M"][16] + d["M"][17]]
    for i, e1 in enumerate(("utf-8", "latin-1", "ascii")):
        for e2 in ("utf-8", "latin-1", "ascii")[i + 1 :]:
            groups.append(["decode %s %s" % (e1, e2), dtexts, ["decode", e1], ["decode", e2]])
    return groups


DBYTES_ENCODINGS = ["utf_8", "utf_16", "utf_16_le", "shift_jis", "cp1251", "ascii", "euc_kr"]


def byte_inputs(texts, enc):
    """(well-formed, malformed) byte strings for one encoding; well/mal-formedness decided by CPython's strict decoder"""
    good, bad = [], []
    for tx in texts:
        try:
            b = tx.encode(enc)
        except UnicodeEncodeError:
            continue
        good.append(b)
        for cut in range(1, len(b)):
            for cand in (b[:cut], b[cut:]):
                try:
                    str(cand, enc)
                except UnicodeDecodeError:
                    if cand not in bad:
                        bad.append(cand)
    for cand in (b"\xff", b"\x80", b"a\xffb", b"\xc3", b"\xe2\x82", b"\xf0\x9d\x84", b"\x00\xd8", b"\x81"):
        try:
            str(cand, enc)
        except UnicodeDecodeError:
            if cand not in bad:
                bad.append(cand)
    return good, bad


def check_dbytes(b, st, I, enc):
    """decode.<enc>(bytes), each call judged on its own against CPython's strict decoder"""
    from mako.template import Template

    key = ("dbytes", enc)
    if key not in I:
        I[key] = (getattr(I["filters"].decode, enc), Template("${v | n,decode.%s}" % enc).render_unicode)
    try:
        exp = str(b, enc)
    except UnicodeDecodeError:
        exp = None
    viol = []
    op = "decode." + enc
    for route, f in zip(("direct", "template"), I[key]):
        st.evaluations += 1
        st.transitions += 1
        st.oracles["decode"] += 1
        try:
            out = f(b) if route == "direct" else f(v=b)
        except UnicodeDecodeError as e:
            if exp is not None:
                viol.append((op, route, "well-formed bytes raise UnicodeDecodeError", "decode raises on bytes that are valid in the encoding", str(e)[:200]))
            continue
        except Exception as e:  # noqa
            viol.append((op, route, "bytes raise " + type(e).__name__, "decode raises", "%s: %s" % (type(e).__name__, str(e)[:200])))
            continue
        if not isinstance(out, str):
            viol.append((op, route, "bytes not str", "decode does not return str", type(out).__name__))
        elif exp is None:
            # malformed input: the statement does not fix the answer, but bytes must not vanish silently:
            # either the strict decoder's error or a decoding that marks the damage
            if out != b.decode(enc, "replace"):
                viol.append((op, route, "malformed bytes silently altered", "malformed bytes neither raise UnicodeDecodeError nor decode with a replacement mark", out))
        elif out != exp:
            viol.append((op, route, "bytes wrong text", "decode returns a different text than the strict decoder", out))
    return viol


class _Changing:
    """an object whose text changes with every str()"""

    def __init__(self, base):
        self.base = base
        self.n = 0
        self.last = None

    def __str__(self):
        self.n += 1
        self.last = "%s<%d>" % (self.base, self.n)
        return self.last


class _StrSub(str):
    """a str subclass without __html__"""


class _HtmlObj:
    """not a str: carries markup it declares safe"""

    def __init__(self, s):
        self.s = s

    def __html__(self):
        return self.s

    def __str__(self):
        return self.s


def make_kind(kind, text):
    if kind == "plain":
        return text
    if kind == "markup":
        import markupsafe

        return markupsafe.Markup(text)
    if kind == "strsub":
        return _StrSub(text)
    return _HtmlObj(text)


def check_policy(s, st, I, cs, pol):
    """Template.render with a standard error policy must be what str.encode gives (the documented meaning of encoding_errors)"""
    from mako.template import Template

    key = ("policy", cs, pol)
    if key not in I:
        I[key] = Template("${v}", output_encoding=cs, encoding_errors=pol).render
    try:
        exp = s.encode(cs, pol)
    except UnicodeEncodeError:
        exp = None
    st.evaluations += 1
    st.transitions += 1
    st.oracles["policy"] += 1
    op = "policy.%s.%s" % (cs, pol)
    try:
        out = I[key](v=s)
    except UnicodeEncodeError as e:
        if exp is None:
            return []
        return [(op, "template", "%s raises UnicodeEncodeError on text str.encode accepts" % pol, "render raises", str(e)[:200])]
    except Exception as e:  # noqa
        return [(op, "template", "%s raises %s" % (pol, type(e).__name__), "render raises", "%s: %s" % (type(e).__name__, str(e)[:200]))]
    if exp is None:
        return [(op, "template", "%s does not raise on unencodable text" % pol, "render with encoding_errors='strict' must raise UnicodeEncodeError as str.encode does", repr(out))]
    if out != exp:
        return [(op, "template", "%s output differs from str.encode" % pol, "render gives other bytes than str.encode(cs, errors)", repr(out))]
    return []


def check_kinds(text, st, I, kind):
    from mako.template import Template

    viol = []
    nonstr = kind in NONSTR_VALUES or kind in ("list", "changing")
    if kind in NONSTR_VALUES:
        v = NONSTR_VALUES[kind]
    elif kind == "list":
        v = [1, "<" + I["d"]["A"] + ">"]
    elif kind == "changing":
        v = I.setdefault("changing", _Changing(I["d"]["A"]))
        if text != I["d"]["A"] + "<1>":
            return viol  # one object per process, visited once per step
    else:
        v = make_kind(kind, text)
    for name in ("h", "x", "u", "entity", "trim"):
        if kind == "htmlobj" and name != "h":
            continue  # not a string: only h is defined on it
        key = ("ntmpl", name)
        if key not in I:
            I[key] = Template("${v | n,%s}" % name).render_unicode
        op = name if kind == "plain" else "%s[%s]" % (name, kind)
        routes = [("direct", I["direct"][name]), ("template", I[key])]
        if nonstr:
            # h and entity take any object; the other filters see it only behind the default str filter
            routes = (routes if name in ("h", "entity") else []) + [("template-str", I["tmpl"][name])]
        for route, f in routes:
            st.evaluations += 1
            st.transitions += 1
            st.oracles[name] += 1
            n0 = v.n if kind == "changing" else 0
            try:
                out = f(v) if route == "direct" else f(v=v)
            except Exception as e:  # noqa
                viol.append((op, route, "raises " + type(e).__name__, "%s raises" % name, "%s: %s" % (type(e).__name__, str(e)[:200])))
                continue
            if kind == "changing":
                # the result must come from a text the object produced during this very call
                if v.n == n0:
                    viol.append((op, route, "value not consulted", "the filter answered without asking the value for its text", str(out)))
                    continue
                text = v.last
            elif nonstr:
                text = str(v)
            if name == "h" and kind in ("markup", "htmlobj"):
                # a value that declares itself safe: the statement is about plain strings; either answer is accepted
                r = None if isinstance(out, str) and (str(out) == text or o_markup(name, text, out) is None) else ("neither the text nor its escaped form", "h on a self-declared safe value")
            elif name in ("h", "x"):
                r = o_markup(name, text, out)
            elif name == "u":
                r = o_url(text, out)
            elif name == "entity":
                r = o_entity(text, out, I["unescape"])
            else:
                r = o_trim(text, out)
            if r is not None:
                viol.append((op, route, r[0], r[1], str(out)))
    return viol


def run_step(step, strings, st, I):
    out = []
    for s in strings:
        if step[0] == "enc":
            viol = check_string(s, st, I, parts=("enc",), charsets=[step[1]])
        elif step[0] == "filters":
            viol = check_string(s, st, I, parts=("filters", "decode"))
        elif step[0] == "policy":
            viol = check_policy(s, st, I, step[1], step[2])
        elif step[0] == "kinds":
            viol = check_kinds(s, st, I, step[1])
        elif step[0] == "decode":
            viol = check_string(s, st, I, parts=("decode",), decs=[step[1]])
        elif step[0] == "dbytes":
            viol = []
        else:
            raise ValueError(step)
        out.extend((s, v) for v in viol)
    if step[0] == "dbytes":
        for hx in step[2]:
            out.extend((hx, v) for v in check_dbytes(bytes.fromhex(hx), st, I, step[1]))
    return out


def run_sequence(case):
    """executed in the fresh child: the steps in order; returns a JSON-able summary"""
    seed = case.get("seed", 0)
    I = impl(seed)
    I["seed"] = seed
    I["dec_templates"] = "all"
    st = Stats()
    fails = []
    for k, step in enumerate(case["steps"]):
        for s, (op, route, sig, msg, observed) in run_step(step, case["strings"], st, I):
            fails.append({"step": k, "s": s, "op": op, "route": route, "sig": sig, "msg": msg, "observed": observed})
    return {"fails": fails, "evaluations": st.evaluations, "oracles": dict(st.oracles)}


_SEQ_CHILD = (
    "import sys, json\n"
    "sys.path.insert(0, %r)\n"
    "from mc import core\n"
    "core.bind_repo()\n"
    "from mc.props import c10\n"
    "print('RESULT ' + json.dumps(c10.run_sequence(json.load(sys.stdin))))\n"
)


def sequence_in_child(case):
    import json
    import os
    import subprocess
    import sys

    env = dict(os.environ, VERIF_REPO=os.path.abspath(core.REPO), PYTHONHASHSEED=os.environ.get("PYTHONHASHSEED", "0"))
    pr = subprocess.run([sys.executable, "-B", "-c", _SEQ_CHILD % core.VERIF], input=json.dumps(case), capture_output=True, text=True, env=env, timeout=600)
    for line in pr.stdout.splitlines()[::-1]:
        if line.startswith("RESULT "):
            return json.loads(line[7:])
    raise RuntimeError("sequence child died: rc=%s %s" % (pr.returncode, pr.stderr[-800:]))


def check_sequences(groups, seed, st):
    for label, strings, sa, sb in groups:
        res = []
        for steps in ([sa, sb], [sb, sa]):
            case = {"kind": "seq", "steps": steps, "strings": strings, "seed": seed}
            r = sequence_in_child(case)
            res.append((case, r))
            st.states += 1
            st.traces += 1
            st.nontrivial += 1  # every sequence carries characters / values the second step must treat
            st.evaluations += r["evaluations"]
            st.transitions += r["evaluations"]
            st.oracles.update(r["oracles"])
            st.oracles["sequence"] += 1
            st.outcomes["seq:%s>%s:%s" % (steps[0][0], steps[1][0], "fails" if r["fails"] else "ok")] += 1
            st.extra["sequences"] = st.extra.get("sequences", 0) + 1
        # a failure that also happens as the very first step of a process is not order-dependent
        first = {(repr(case["steps"][0]), f["op"], f["route"], f["sig"], f["s"]) for case, r in res for f in r["fails"] if f["step"] == 0}
        for case, r in res:
            for f in r["fails"]:
                sig = full_sig(f["op"].split("[")[0], f["sig"])  # the kind of value is in the case, not in the footprint
                if f["step"] > 0:
                    if (repr(case["steps"][f["step"]]), f["op"], f["route"], f["sig"], f["s"]) in first:
                        continue
                    sig = order_sig(f["op"], ":after " + STEP_TEXT[case["steps"][0][0]])
                vcase = dict(case, step=f["step"], s=f["s"], op=f["op"], route=f["route"])
                st.violation(sig, vcase, "sequence %r, step %d: %s (%s): %s" % (case["steps"], f["step"], f["op"], f["route"], f["msg"]), expected="see oracle", observed=f["observed"])
        if len(st.samples) < 2:
            st.sample({"family": "v", "group": label, "strings": strings, "steps": [sa, sb], "orders": "both"})


_SAMPLE_CPS = {0x3C: 1, 0x85: 0, 0xE9: 2, 0x20AC: 3, 0x4E2D: 4, 0x1D11E: 1}
NJOBS_CP = 48
NJOBS_W = 16
NJOBS_SEQ = 16
NJOBS_REF = 4


# --------------------------------------------------------------------------
# (vii) "every ... target charset": charsets that keep a shift state between characters (iso2022_*, hz), that are not
# ASCII-compatible (EBCDIC code pages, utf-16/32), and multi-byte ones.  Every string of <= 3 characters over a
# 10-character alphabet (ASCII, &, kana, hanzi, hangul, latin-1, named-entity, Cyrillic, astral, C1 control).
# Oracle per character: a character the charset can encode (alone) stays itself, any other becomes exactly the
# reference the handler emits for the ascii charset (judged by the five-charset clause); the output, decoded in the
# target charset, is the concatenation.

XCS = ["iso2022_jp", "iso2022_jp_2", "iso2022_kr", "hz", "cp500", "cp037", "cp1140", "euc_jp", "big5", "gb2312", "utf_16", "utf_32_be", "utf_7"]
XCS_ALPHA = ["a", "&", "\u3042", "\u4e2d", "\uac00", "\u00e9", "\u20ac", "\u0436", "\U0001f600", "\u0085"]


def check_xcs(cs, s, st, tmpl_f=None):
    parts = []
    for c in s:
        try:
            c.encode(cs)
            parts.append(c)
        except UnicodeEncodeError:
            parts.append(c.encode("ascii", "htmlentityreplace").decode("ascii"))
    exp = "".join(parts)
    st.evaluations += 1
    st.transitions += 1
    st.oracles["htmlentityreplace-other-charsets"] += 1
    try:
        if tmpl_f is None:
            out = s.encode(cs, "htmlentityreplace")
        else:
            out = tmpl_f(v=s)
        obs = out.decode(cs)
    except Exception as e:  # noqa
        obs = "%s: %s" % (type(e).__name__, str(e)[:120])
    ok = obs == exp
    st.outcomes["xcs:" + ("replaced" if exp != s else "strict") + (":ok" if ok else ":differs")] += 1
    if not ok:
        kind = "stateful" if cs.startswith(("iso2022", "hz")) else ("ebcdic" if cs.startswith("cp") else "other")
        st.violation("enc.other-charset:%s:%s" % (kind, "raises" if ": " in obs and obs.split(":")[0].endswith("Error") else "does not decode back"),
                     {"kind": "xcs", "cs": cs, "s": s, "route": "direct" if tmpl_f is None else "template"},
                     "htmlentityreplace in a %s charset: decode(output) == encodable characters + references" % kind, expected=exp, observed=obs)


def run_xcs(shard, nshards, st):
    import itertools
    from mako.template import Template

    n = 0
    for ci, cs in enumerate(XCS):
        if ci % nshards != shard:
            continue
        t = Template("${v}", output_encoding=cs, encoding_errors="htmlentityreplace")
        for k in (1, 2, 3):
            for tup in itertools.product(XCS_ALPHA, repeat=k):
                s = "".join(tup)
                check_xcs(cs, s, st)
                if k <= 2:
                    check_xcs(cs, s, st, t.render)
                n += 1
                st.states += 1
                st.traces += 1
                if any(c.encode(cs, "ignore") == b"" for c in tup) and len(set(tup)) > 1:
                    st.nontrivial += 1
    st.extra["strings_vii"] = n


def plan(tier, seed):
    jobs = []
    for i in range(NJOBS_CP):
        jobs.append({"kind": "cp", "tier": tier, "seed": seed, "shard": i, "nshards": NJOBS_CP})
    for i in range(NJOBS_W):
        jobs.append({"kind": "words", "tier": tier, "seed": seed, "shard": i, "nshards": NJOBS_W})
    for i in range(NJOBS_REF):
        jobs.append({"kind": "refs", "tier": tier, "seed": seed, "shard": i, "nshards": NJOBS_REF})
    for i in range(4):
        jobs.append({"kind": "xcs", "tier": tier, "seed": seed, "shard": i, "nshards": 4})
    jobs.append({"kind": "long", "tier": tier, "seed": seed})
    groups = seq_groups(tier, seed)
    seqjobs = [{"kind": "seq", "tier": tier, "seed": seed, "groups": groups[i::NJOBS_SEQ]} for i in range(NJOBS_SEQ)]
    # heavy (cp) shards first, permuted by the seed
    k = seed % NJOBS_CP
    return jobs[k:NJOBS_CP] + jobs[:k] + seqjobs + jobs[NJOBS_CP:]


def run_job(job):
    st = Stats()
    t0 = time.time()
    tier, seed = job["tier"], job["seed"]
    if job["kind"] == "seq":
        check_sequences(job["groups"], seed, st)
        st.extra["worker_wall_s_seq"] = round(time.time() - t0, 1)
        return st
    if job["kind"] == "xcs":
        run_xcs(job["shard"], job["nshards"], st)
        return st
    I = impl(seed)
    I["seed"] = seed
    I["hist"] = _HIST
    I.setdefault("prelude_searches", 0)
    I["dec_templates"] = BOUNDS[tier]["decode_template_routes"]
    d = I["d"]
    ctxs = contexts(tier, d)
    ntmpl = BOUNDS[tier]["template_route_contexts"]
    if job["kind"] == "cp":
        cps = code_points(tier)[job["shard"] :: job["nshards"]]
        n = 0
        for cp in cps:
            c = chr(cp)
            for ti, t in enumerate(ctxs):
                s = t.replace("{}", c)
                check_case(s, st, I, ti < ntmpl)
                n += 1
                if cp in _SAMPLE_CPS and _SAMPLE_CPS[cp] == ctxs.index(t):
                    st.sample({"family": "i", "context": t, "code_point": "U+%04X" % cp, "string": s})
        st.extra["code_points"] = len(cps)
        st.extra["strings_i"] = n
    elif job["kind"] == "long":
        # family viii: long runs - one unit repeated n times, and every pair of units alternating, for lengths around
        # powers of two and the decimal boundaries (a count limit, a chunk size, a recursion depth show here only)
        units = ["<", ">", "&", '"', "'", "&lt;", " ", "+", "%", d["A"], POOL_L1[seed % 4], POOL_NAMED[seed % 4], POOL_BMP[seed % 4], POOL_ASTRAL[seed % 4], "\n"]
        lens = LONG_LENS[tier]
        n = 0
        for u in units:
            for k in lens:
                check_case(u * k, st, I, True)
                n += 1
        for a in units[:9]:
            for b in units:
                if a == b:
                    continue
                for k in lens[:6] + lens[-1:]:
                    check_case((a + b) * k, st, I, k <= 100)
                    check_case(a * k + b, st, I, False)
                    check_case(b + a * k, st, I, False)
                    n += 3
        st.sample({"family": "viii", "unit": "<", "repeat": lens[-1]})
        st.extra["strings_viii"] = n
    elif job["kind"] == "refs":
        sp = ref_spellings()
        rctx = [c.replace("A", d["A"]).replace("B", d["B"]) for c in REF_CONTEXTS]
        cands = [(t.replace("{}", x), True) for x in sp for t in rctx]
        cands += [(x + y, tier != "quick") for x in sp for y in sp]
        seen = set()
        import zlib

        for s, tm in cands:
            if zlib.crc32(s.encode("utf-8")) % job["nshards"] != job["shard"]:
                continue
            if s in seen or in_family_i(s, tier, ctxs) or in_family_ii(s, tier, d):
                st.extra["duplicates_skipped"] = st.extra.get("duplicates_skipped", 0) + 1
                continue
            seen.add(s)
            check_case(s, st, I, tm)
            if len(seen) % 1201 == 600:
                st.sample({"family": "vi", "string": s})
        st.extra["strings_vi"] = len(seen)
    else:
        M = d["M"]
        wctx = word_contexts(tier, d)
        k = BOUNDS[tier]["word_len"]
        seen = set()
        idx = 0
        nwords = 0
        for n in range(k + 1):
            for w in itertools.product(M, repeat=n):
                idx += 1
                if idx % job["nshards"] != job["shard"]:
                    continue
                nwords += 1
                base = "".join(w)
                for t in wctx:
                    s = t.replace("{}", base)
                    if s in seen or in_family_i(s, tier, ctxs):
                        st.extra["duplicates_skipped"] = st.extra.get("duplicates_skipped", 0) + 1
                        continue
                    seen.add(s)
                    check_case(s, st, I)
                    if len(seen) % 401 == 200:
                        st.sample({"family": "ii", "context": t, "word": list(w)})
        st.extra["words"] = nwords
        st.extra["strings_ii"] = len(seen)
    st.extra["worker_wall_s_" + job["kind"]] = round(time.time() - t0, 1)
    return st


def post(tier, seed, st):
    d = data(seed)
    st.extra["data_alphabet"] = {"A": d["A"], "B": d["B"], "M": d["M"], "decode_aliases": list(d["dec"])}
    # vacuity guards: the handler must have been exercised with both reference kinds in every
    # charset but utf-8, and every filter must have both changed and unchanged inputs
    need = ["enc.%s:%s" % (cs, k) for cs in CHARSETS[:4] for k in ("strict", "named", "numeric")] + ["enc.utf-8:strict"]
    need += ["%s:%s" % (f, k) for f in ("h", "x", "u", "entity", "trim") for k in ("changed", "same")]
    missing = [k for k in need if not st.outcomes.get(k)]
    if missing and not st.sigcount:
        st.extra.setdefault("harness_errors", []).append("outcome classes never observed: %r" % missing)


def replay(case):
    """grid case {s, op, route[, parts]}: plain calls in this process (op absent = run everything, as a prelude does);
    sequence case {kind: seq, ...}: the sequence again in a fresh interpreter.
    A case carrying 'prelude' is run in a fresh interpreter, its prelude cases first."""
    seed = case.get("seed", 0)
    if case.get("prelude") is not None:
        bare = {k: v for k, v in case.items() if k != "prelude"}
        ok = core.isolated_replay(MODNAME, list(case["prelude"]) + [bare])
        return ok, {False: "reproduced after its prelude, in a fresh interpreter", True: "holds", None: "replay failed"}[ok]
    if case.get("kind") == "xcs":
        st = Stats()
        tf = None
        if case.get("route") == "template":
            from mako.template import Template

            tf = Template("${v}", output_encoding=case["cs"], encoding_errors="htmlentityreplace").render
        check_xcs(case["cs"], case["s"], st, tf)
        if st.violations:
            return False, "reproduced: %r" % (st.violations[0]["observed"],)
        return True, "holds"
    if case.get("kind") == "seq":
        r = sequence_in_child({k: case[k] for k in ("kind", "steps", "strings", "seed")})
        for f in r["fails"]:
            if (f["step"], f["s"], f["op"], f["route"]) == (case["step"], case["s"], case["op"], case["route"]):
                return False, "reproduced: step %d %s sig=%s observed=%r" % (f["step"], f["op"], f["sig"], f["observed"])
        return True, "holds"
    I = impl(seed)
    I["seed"] = seed
    I["dec_templates"] = "all"
    st = Stats()
    viol = check_string(case["s"], st, I, parts=tuple(case.get("parts") or ALL_PARTS))
    for op, route, sig, msg, observed in viol:
        if case.get("op") is None or (op, route) == (case["op"], case["route"]):
            return False, "reproduced: sig=%s oracle=%s (%s): %s observed=%r" % (full_sig(op, sig), op, route, msg, observed)
    return True, "holds"


LEVEL_TEXT = (
    "Every Unicode scalar value (thorough: all 1 112 064; quick: the BMP and the edges of every other plane) in each "
    "embedding context, and every word of <=k tokens over the 19-token markup alphabet, is passed through h, x, u, "
    "entity, trim and decode.<enc> (direct call and ${v|f} template), through str.encode(cs,'htmlentityreplace') and "
    "through Template.render with that error handler for five charsets (quick: template routes on the contexts '{}' and 'A{}B' only); each clause of the statement is one predicate "
    "checked on each result. Complete within those bounds; no sampling."
)
LEVEL_NOTE = (
    "Trusted: CPython str/re/codecs, html.entities tables, the ~80-line aligned reference decoders. Strings longer "
    "than the bounds are covered only by the character-by-character structure that the aligned oracle verifies on every case."
)
READY = True
