"""C19 - embedded Python keeps its meaning through analysis and re-emission.

Engine E1, three exhaustively enumerated parts, all executed on the real
Template / Lexer / codegen and compared with CPython itself:

 (a) re-emission   every expression tree of the bounded grammar (mc/c19_expr.py)
                   as a def default, a keyword-only default, a <%page args> and
                   <%block args> default and a filter-call argument;
                   oracle = ast.dump of the re-emitted text read back from the
                   generated module == ast.dump of the text as written, and the
                   rendered canonical value == native eval.
 (b) re-margining  every statement block of the bounded grammar
                   (mc/c19_blocks.py) x string-literal form x margin x layout in
                   <% %> / <%! %>; oracle = observable variables after rendering
                   == after native exec of the unindented original.
 (c) binding       every binder form x reader placement x template position
                   (mc/c19_bind.py) under strict_undefined with exactly the free
                   names supplied, then with each free name removed;
                   oracle = the same code run natively inside a function.
"""

import ast
import builtins
import os
import traceback
import warnings
import zlib

from mc import c19_bind as BI
from mc import c19_blocks as BL
from mc import c19_env as EV
from mc import c19_expr as X
from mc import core
from mc.core import Stats

PROPERTY = "C19"
LEVEL = "model_checking"
ENGINE = "E1"
TECHNIQUE = (
    "grammar-directed exhaustive enumeration (expression trees, statement blocks x layouts, binder forms x positions) "
    "executed on the real Template and compared with CPython's own parser / eval / exec"
)
LEVEL_TEXT = (
    "Every expression tree of depth <=2 over 129 node shapes (thorough: depth 3 over the operator subset, depth-4 spines) is "
    "re-emitted in five positions and compared by AST and by value with native eval; every statement block of <=2 statements "
    "(thorough: 3 statements, depth 3) with every string-literal form in every hole is re-margined at margins 0..12, TAB, TAB+4 in "
    "four template positions and compared with native exec; every binder form is rendered under strict_undefined in every position "
    "with exactly its free names and with each free name removed. Complete within those bounds; no sampling."
)
LEVEL_NOTE = (
    "Trusted: CPython's ast.parse/ast.unparse/compile/eval/exec, the value canonicaliser N19 (mc/c19_env.py), the block "
    "printer of mc/c19_blocks.py. Downstream compile of a re-margining case is shared between cases whose real Lexer parse "
    "trees are identical (codegen is a function of the parse tree)."
)
RULE = (
    "(a) one case per distinct expression text (ast.unparse of a generated tree); non-trivial = the tree has at least one "
    "non-leaf node. (b) one case per distinct template text (block x literal forms x margin x indentation unit x first-line "
    "placement x EOL x position); non-trivial = the re-indenter has to change the text (margin != '' or position deeper than "
    "column 0) or the block holds a non-plain literal form. (c) one case per (binder form, outside read, position, removed "
    "name); non-trivial = the code binds at least one name itself and reads at least one free name."
)
ASSUMPTIONS = [
    "CPython's parser, ast.unparse, eval and exec are the reference for Python semantics",
    "values are compared through the canonical form N19 (functions by signature and by probing calls, generators by their items; "
    "addresses and enclosing-function names inside object reprs are not part of a value)",
    "(a) the AST oracle treats Constant(Ellipsis) and Name('Ellipsis') as equal, and an f-string without placeholders as its text",
    "(a) DONT_CARE: a text the *lexer* cannot delimit in the position (MakoException out of Lexer.parse, e.g. nested quotes of a "
    "3.12 f-string inside ${}) - that is C01's ground; texts holding both quote characters are exercised in the filter position only",
    "(a) left out: expressions whose native evaluation does not terminate (3 ** 10**20), detected in a forked child",
    "(a) a failing tree is attributed to the smallest sub-structure that already fails on its own; trees containing a shape that fails "
    "on its own are executed once (all positions together) and not again position by position",
    "(b) 'uniform indentation' = every code line starts with the same margin string, the first line included when it shares the line "
    "of '<%'; lines inside string literals keep their own whitespace (it is content); continuation lines are indented at least the "
    "margin; a comment-only line may sit at any column. DONT_CARE: first line on the '<%' line aligned visually instead of textually",
    "(b) cases whose real Lexer parse tree (node types, code text, text content; positions excluded) equals that of an already "
    "executed case reuse its compile+render verdict",
    "(c) `global` statements are left out: the template namespace is not the generated module's global namespace; names deleted at "
    "module level and read from the body are left out",
    "(c) module-level free names (<%! %>, defaults of top-level defs) are declared by an import line, as a template author has to",
    "(c) a removed free name must produce a NameError naming it only when the native run raises NameError too; the name-removal runs "
    "are judged only for cases that hold with their full environment",
    "(c) in positions that re-emit the expression (def defaults, filter arguments) a failure is left to part (a) when the re-emitted "
    "text of that expression is already wrong there",
    "(a) order-dependent, process-wide state of the re-emitter (equal constants of different types) is exercised in fresh child "
    "interpreters, one per ordered pair; such a violation carries prelude=[] so that core.finish replays it isolated",
    "identifier spellings are fixed; VERIF_SEED only selects literal values; PYTHONHASHSEED=0 (set by ./run)",
]
BOUNDS = {
    "quick": {
        "a": "depth 1-2 complete: 129 node shapes x every shape in each of the 132 child slots, in 5 positions (<%page args>, def default, "
             "keyword-only def default, <%block args>, filter-call argument); 4 further filter-call argument kinds (k=E, *E, **E, mixed) at depth 1; "
             "32 ordered pairs of equal-but-different constants (True/1/1.0/(1+0j), False/0/0.0/0j/-0.0), each in a fresh interpreter: in one "
             "expression, in two defaults + two filter arguments of one template, in two templates compiled one after the other",
        "b": "(<% %> in the body is followed by template text with an odd number of each quote character; every quick literal form also "
             "inside ${ } with LF/CRLF, with and without such text after it) blocks <=2 statements depth <=2 over 11 of the 15 statement kinds; 23 of the 58 literal forms in every single hole; 27 layouts: "
             "15 margins (LF, code on the next line, <% %> in the body) + 2 margins x 3 other positions + 6 first-line/CRLF/TAB-unit variants",
        "c": "44 expression binders (12 of them: a name bound inside a lambda body and read as a free name later in the same expression) x 22 positions (8 spellings of the nested def, 6 of the free name for the declaration-order dimension), "
             "41 statement binders x 4 positions, 10 control-line binders; read inside, own name read outside, leaked name read outside; "
             "full environment, then every free name removed",
    },
    "thorough": {
        "a": "quick + depth 3 complete over 62 slots x 62 slots of the operator subset x 55 representative shapes + depth-4 spines over "
             "12 slots x 4 leaves",
        "b": "blocks <=2 statements over all 15 kinds and 58 forms: 15 margins x first-line x EOL in body/control positions, reduced in "
             "<%! %>/def positions, + TAB/2-space units (174 layouts); blocks of 3 statements depth <=3: 23 forms in every hole x 8 layouts; "
             "pairs of 15 forms in two holes of blocks <=2 statements x 23 layouts",
        "c": "as quick, plus every expression binder nested in 7 lambda/comprehension wrappers",
    },
}
READY = True

IMPORTS = ["from mc import c19_env as __e19", "globals().update(__e19.MOD)"]
_ENV_NAMES = ["x", "y", "z", "s", "l", "d", "t", "pp", "f", "gi", "N19", "G19", "f19", "cm19"]
# parts (a) and (b): the environment is *declared* at module level, so that no name is fetched from the context
# (the order in which codegen declares context names and def stubs is exercised in part (c) only)
IMPORTS_DECL = [
    "from mc import c19_env as __e19",
    "%s = [__e19.MOD[__k19] for __k19 in %r]" % (", ".join(_ENV_NAMES), _ENV_NAMES),
]

_state = {}


def setup(seed):
    if _state.get("seed") == seed:
        return _state
    warnings.simplefilter("ignore")
    env = EV.make_env(seed)
    _state.clear()
    _state.update(seed=seed, env=env, memo_a={}, memo_b={}, memo_c={}, tree_b={}, seen_b=set())
    return _state


# ------------------------------------------------------------------ running Mako


def mako_run(src, ctx, mod_env, strict=False, imports=None):
    """-> (stage, value, template).  stage: ok | construct-exc | render-exc"""
    from mako.template import Template

    EV.MOD = mod_env
    try:
        t = Template(src, imports=imports or IMPORTS, strict_undefined=strict)
    except BaseException as e:  # noqa
        if isinstance(e, (KeyboardInterrupt, SystemExit)):
            raise
        return "construct-exc", e, None
    try:
        out = t.render_unicode(**ctx)
    except BaseException as e:  # noqa
        if isinstance(e, (KeyboardInterrupt, SystemExit)):
            raise
        return "render-exc", e, t
    return "ok", out, t


def codegen_only(src, strict=False, imports=None):
    """the generated module source without executing it"""
    from mako import codegen
    from mako.lexer import Lexer

    lx = Lexer(src, None)
    node = lx.parse()
    return codegen.compile(
        node, "memory:c19", None, default_filters=["str"], buffer_filters=(), imports=imports or IMPORTS,
        source_encoding=lx.encoding, generate_magic_comment=False, strict_undefined=strict,
    )


def lexer_rejects(src):
    from mako import exceptions
    from mako.lexer import Lexer

    try:
        Lexer(src).parse()
    except exceptions.MakoException:
        return True
    except BaseException:  # noqa
        return False
    return False


def exc_class(e):
    return type(e).__name__


def classify_exc(e):
    """coarse class of an exception that came out of Template()/render"""
    from mako import exceptions

    if isinstance(e, exceptions.MakoException):
        return "rejected:" + exc_class(e)
    if isinstance(e, SyntaxError):
        return "syntax"  # the generated module is not valid Python
    tb = traceback.extract_tb(e.__traceback__)
    if tb:
        fn = tb[-1].filename
        base = os.path.basename(fn)
        if os.path.dirname(fn).endswith(os.sep + "mako") and base in ("_ast_util.py", "pyparser.py", "ast.py", "pygen.py", "codegen.py", "lexer.py", "parsetree.py"):
            return "crash:" + exc_class(e)
    return "raises:" + exc_class(e)


# ------------------------------------------------------------------ part (a): re-emission

POS_A = ["P", "D", "K", "B", "F"]
FILTER_VARIANTS = {"Fk": "G19(k=%s)", "Fs": "G19(*%s)", "Fd": "G19(**%s)", "Fm": "G19(x, *l, k=%s, **d)"}
_FN_POS = {"render_body": "P", "render_dflt19": "D", "dflt19": "D", "render_kwd19": "K", "kwd19": "K", "render_blk19": "B", "blk19": "B"}


def a_template(E, positions, q):
    head, lines, page = [], [], []
    for p in positions:
        if p == "P":
            page.append("pa19=%s" % E)
            lines.append("P=${N19(pa19)}\n")
        elif p == "D":
            head.append("<%%def name=%sdflt19(b19=1, a19=%s)%s>${N19(a19)}</%%def>" % (q, E, q))
            lines.append("D=${dflt19()}\n")
        elif p == "K":
            head.append("<%%def name=%skwd19(*, b19=1, a19=%s, c19=2)%s>${N19(a19)}</%%def>" % (q, E, q))
            lines.append("K=${kwd19()}\n")
        elif p == "B":
            # rendered in place a block takes its arguments from the page arguments; its own default applies when
            # it is called through the namespace
            page.append("a19=0")
            lines.append("X=<%%block name='blk19' args=%sa19=%s%s>${N19(a19)}</%%block>\nB=${self.blk19()}\n" % (q, E, q))
        elif p == "F":
            lines.append("F=${0 | G19(%s)}\n" % E)
        elif p in FILTER_VARIANTS:
            lines.append("%s=${0 | %s}\n" % (p, FILTER_VARIANTS[p] % E))
    if page:
        head.insert(0, "<%%page args=%s%s%s/>" % (q, ", ".join(page), q))
    return "".join(head) + "".join(lines)


def a_quote(E):
    if '"' not in E:
        return '"'
    if "'" not in E:
        return "'"
    return None


class _Norm(ast.NodeTransformer):
    def visit_JoinedStr(self, n):
        self.generic_visit(n)
        if all(isinstance(v, ast.Constant) and isinstance(v.value, str) for v in n.values):
            return ast.Constant("".join(v.value for v in n.values))  # an f-string without placeholders is its text
        return n


def _norm_dump(node):
    d = ast.dump(node)
    if "JoinedStr(" in d:
        import copy

        d = ast.dump(_Norm().visit(copy.deepcopy(node)))
    # the name Ellipsis evaluates to the constant (unless the builtin is shadowed)
    return d.replace("Name(id='Ellipsis', ctx=Load())", "Constant(value=Ellipsis)")


_AUX = {"b19": ast.dump(ast.Constant(1)), "c19": ast.dump(ast.Constant(2))}  # the neighbouring defaults of positions D and K


def a_extract(code):
    """position -> list of re-emitted ast nodes found in the generated module"""
    mod = ast.parse(code)
    found = {}
    for node in ast.walk(mod):
        if isinstance(node, ast.FunctionDef):
            pos = _FN_POS.get(node.name)
            a = node.args
            pa = a.posonlyargs + a.args
            for arg, d in zip(pa[len(pa) - len(a.defaults):], a.defaults):
                if pos and arg.arg == ("pa19" if pos == "P" else "a19"):
                    found.setdefault(pos, []).append(d)
                elif pos and arg.arg in _AUX:
                    found.setdefault(pos + "~aux", []).append((arg.arg, ast.dump(d)))
            for arg, d in zip(a.kwonlyargs, a.kw_defaults):
                if d is not None and arg.arg == "a19" and pos and pos != "P":
                    found.setdefault(pos, []).append(d)
                elif pos and arg.arg in _AUX:
                    found.setdefault(pos + "~aux", []).append((arg.arg, d is not None and ast.dump(d)))
        elif isinstance(node, ast.Call) and isinstance(node.func, ast.Name) and node.func.id == "G19":
            found.setdefault("F*", []).append(node)
    return found


def a_native(text, env):
    try:
        v = eval(compile(text, "<c19>", "eval"), dict(env))
        return "val", EV.N19(v)
    except Exception as e:  # noqa
        return "exc", exc_class(e)


def a_run(E, ref, positions, st_counts):
    """run one template holding E in `positions`.
    -> dict position -> (symptom, detail) for the positions that fail; {} = all hold"""
    S = _state
    env = S["env"]
    q = a_quote(E) or '"'
    src = a_template(E, positions, q)
    native = {}
    for p in positions:
        if p in FILTER_VARIANTS or p == "F":
            native[p] = a_native_raw((FILTER_VARIANTS.get(p, "G19(%s)") % E) + "(0)", env)
        else:
            native[p] = a_native(E, env)
    st_counts["evaluations"] += 1
    stage, val, t = mako_run(src, {}, env, imports=IMPORTS_DECL)
    fails = {}
    code = None
    if stage == "ok":
        code = t.code
    else:
        cls = classify_exc(val)
        natexc = {n[1] for n in native.values() if n[0] == "exc"}
        # an exception of E's own evaluation stops the template at the first position that evaluates it
        same_exc = cls.startswith("raises:") and all(n[0] == "exc" for n in native.values()) and cls[7:] in natexc
        if not same_exc:
            if cls.startswith("rejected:") and lexer_rejects(src):
                return {"-": ("dontcare", "the lexer cannot delimit this text here")}
            for p in positions:
                fails[p] = (cls, "%s: %s" % (exc_class(val), str(val)[:160]))
            return fails
        try:
            code = codegen_only(src, imports=IMPORTS_DECL)
        except BaseException as e:  # noqa
            for p in positions:
                fails[p] = (classify_exc(e), "%s: %s" % (exc_class(e), str(e)[:160]))
            return fails
    # AST oracle
    try:
        found = a_extract(code)
    except SyntaxError as e:
        for p in positions:
            fails[p] = ("syntax", str(e)[:160])
        return fails
    refdump = _norm_dump(ref)
    for p in positions:
        if p == "F" or p in FILTER_VARIANTS:
            want = _norm_dump(ast.parse((FILTER_VARIANTS.get(p, "G19(%s)") % E), mode="eval").body)
            got = [_norm_dump(n) for n in found.get("F*", [])]
            if want not in got:
                fails[p] = ("meaning", "re-emitted filter call parses to a different tree: %s" % (
                    [ast.unparse(n) for n in found.get("F*", [])][:2]))
        else:
            got = found.get(p, [])
            if not got:
                fails[p] = ("meaning", "no default for the argument in the generated module")
            for n in got:
                if _norm_dump(n) != refdump:
                    fails[p] = ("meaning", "re-emitted default parses to a different tree: %s" % ast.unparse(n)[:160])
            for nme, dmp in found.get(p + "~aux", []):
                if dmp != _AUX[nme] and p not in fails:
                    fails[p] = ("meaning", "the default of the neighbouring argument %s changed: %s" % (nme, dmp))
    # value oracle
    if stage == "ok":
        outs = {}
        for line in val.split("\n"):
            k, _, v = line.partition("=")
            if k:
                outs[k] = v
        for p in positions:
            if p in fails:
                continue
            n = native[p]
            if n[0] == "exc":
                fails[p] = ("meaning", "native evaluation raises %s, the template renders" % n[1])
            elif outs.get(p) != n[1]:
                fails[p] = ("meaning", "value differs: native %s, rendered %s" % (n[1][:120], str(outs.get(p))[:120]))
    return fails


def a_native_raw(text, env):
    try:
        return "val", eval(compile(text, "<c19>", "eval"), dict(env))
    except Exception as e:  # noqa
        return "exc", exc_class(e)


_BIG = str(10**20)


def a_feasible(E):
    """`3 ** 10**20` never finishes (one uninterruptible C call): such texts are probed in a forked child and left out"""
    if _BIG not in E or ("**" not in E and "<<" not in E):
        return True
    import signal

    pid = os.fork()
    if pid == 0:
        try:
            signal.signal(signal.SIGALRM, signal.SIG_DFL)
            signal.alarm(2)
            try:
                EV.N19(eval(compile(E, "<c19>", "eval"), dict(_state["env"])))
            except BaseException:  # noqa
                pass
        finally:
            os._exit(0)
    _, status = os.waitpid(pid, 0)
    return status == 0


def a_positions(E):
    return list(POS_A) if a_quote(E) else ["F"]


def a_check(E, ref, path=None):
    """all positions of E -> dict position -> (symptom, detail); memoised per worker"""
    S = _state
    if E in S["memo_a"]:
        return S["memo_a"][E]
    cnt = S.setdefault("cnt", {"evaluations": 0})
    positions = a_positions(E)
    fails = a_run(E, ref, positions, cnt)
    if fails and len(positions) > 1 and not (path and len(path) > 1 and a_has_failing_kind(path)):
        # which positions?  (skipped when a kind of the tree fails on its own already: the failure is attributed to it)
        fails = {}
        for p in positions:
            fails.update(a_run(E, ref, [p], cnt))
    dc = fails.pop("-", None)
    if dc:
        S["dontcare_a"] = S.get("dontcare_a", 0) + 1
    S["memo_a"][E] = fails
    return fails


def a_has_failing_kind(path):
    for lab in path_kinds(path):
        s0 = X.source(X.build(lab))
        if s0 and a_check(s0[0], s0[1]):
            return True
    return False


VARIANT_NAME = {"Fk": "keyword", "Fs": "star", "Fd": "double-star", "Fm": "mixed-with-double-star"}
VARIANT_FEATURE = {"Fk": "Call.keyword", "Fs": "Call.star", "Fd": "Call.dstar", "Fm": "Call.dstar"}


def path_kinds(path):
    return [p for p in path if isinstance(p, str)]


def build_path(path):
    """tree for a path (k1, slot, k2, slot, ..., kn)"""
    node = X.build(path[-1])
    i = len(path) - 3
    while i >= 0:
        node = X.build(path[i], {path[i + 1]: node})
        i -= 2
    return node


def a_component(path, fails):
    """the smallest sub-structure of the tree that already fails on its own -> (feature, its own failures, its text)"""
    n = len(path)
    j = n - 1
    while j >= 0:  # suffix subtrees from the deepest kind outwards
        sub = path[j:]
        if len(sub) == n:
            subfails, text = fails, None
        else:
            s = X.source(build_path(sub))
            subfails, text = (a_check(s[0], s[1]), s[0]) if s else ({}, None)
        if subfails:
            if len(sub) == 1:
                return X.BY_LABEL[sub[0]][1], subfails, text
            # sub = k_j(slot: passing subtree): is k_j itself broken?
            s0 = X.source(X.build(sub[0]))
            f0 = a_check(s0[0], s0[1]) if s0 else {}
            if f0:
                return X.BY_LABEL[sub[0]][1], f0, s0[0]
            return "nested:" + X.BY_LABEL[sub[2]][2], subfails, text
        j -= 2
    return "?", fails, None


def a_sig(path, fails, tested):
    feat, cf, text = a_component(tuple(path), fails)
    ctested = a_positions(text) if text else tested
    order = [p for p in ctested if p in cf] or sorted(cf)
    sym = cf[order[0]][0]
    suffix = "" if len(order) == len(ctested) else "@" + "".join(order)
    return "reemit:%s:%s%s" % (feat, sym, suffix)


def a_case(path, node, st, seed, dedupe, shard=None):
    if shard is not None:
        try:
            E0 = ast.unparse(node)
        except Exception:  # noqa
            E0 = repr(path)
        if zlib.crc32(E0.encode("utf-8")) % shard[1] != shard[0]:
            return
    s = X.source(node)
    if s is None:
        st.extra["a_not_python"] = st.extra.get("a_not_python", 0) + 1
        return
    E, ref = s
    if E in dedupe:
        return
    dedupe.add(E)
    if not a_feasible(E):
        st.extra["a_skipped_unbounded_arithmetic"] = st.extra.get("a_skipped_unbounded_arithmetic", 0) + 1
        return
    S = _state
    cnt = S.setdefault("cnt", {"evaluations": 0})
    fails = a_check(E, ref, path)
    tested = a_positions(E)
    st.states += 1
    st.traces += 1
    st.oracles["a_ast"] += 1
    st.oracles["a_value"] += 1
    if len(path) > 1 or X.BY_LABEL[path[0]][3]:
        st.nontrivial += 1
    if not fails:
        st.outcomes[("a", "holds", a_native(E, S["env"])[0])] += 1
    else:
        sig = a_sig(path, fails, tested)
        st.outcomes[("a", sig)] += 1
        first = [p for p in tested if p in fails][0]
        st.violation(
            sig, {"part": "a", "E": E, "path": list(path), "seed": seed},
            "re-emission: %s" % fails[first][0], expected="same AST and value as written: %s" % E,
            observed={p: list(v) for p, v in fails.items()},
        )
    if st.states % 1499 == 1:
        st.sample({"part": "a", "E": E, "path": list(path), "fails": sorted(fails)})
    # the other argument kinds of a filter call (keyword, *, **), with every depth-1 expression as the argument
    if len(path) == 1 and not fails and a_quote(E):
        for v in FILTER_VARIANTS:
            vf = a_run(E, ref, [v], cnt)
            st.states += 1
            st.traces += 1
            st.nontrivial += 1
            st.oracles["a_ast"] += 1
            st.oracles["a_value"] += 1
            if not vf:
                st.outcomes[("a", "holds", "filter-call-" + VARIANT_NAME[v])] += 1
                continue
            sig = "reemit:%s:%s" % (VARIANT_FEATURE[v], vf[v][0])
            st.outcomes[("a", sig)] += 1
            st.violation(
                sig, {"part": "a", "E": E, "path": list(path), "seed": seed, "variant": v},
                "re-emission: %s" % vf[v][0], expected="same AST and value as written: %s" % (FILTER_VARIANTS[v] % E),
                observed={v: list(vf[v])},
            )


# equal-but-different constants: 1 == True == 1.0 == (1+0j) and 0 == False == 0.0 == 0j hash alike; a table keyed by the
# value confuses them, and which one wins depends on what the process re-emitted first.  Every ordered pair runs in a
# fresh interpreter: inside one expression, in two defaults of one def, and in two templates compiled one after the other.
CONSTANT_GROUPS = [["True", "1", "1.0", "(1+0j)"], ["False", "0", "0.0", "0j", "-0.0"]]


def constant_pairs():
    for g in CONSTANT_GROUPS:
        for c1 in g:
            for c2 in g:
                if c1 != c2:
                    yield c1, c2


def a2_in_process(c1, c2):
    """-> list of (arrangement, symptom, detail); to be called in a process that has re-emitted nothing yet"""
    S = _state
    env = S["env"]
    cnt = S.setdefault("cnt", {"evaluations": 0})
    out = []
    # (1) one expression
    E = "(%s, %s)" % (c1, c2)
    f = a_run(E, ast.parse(E, mode="eval").body, a_positions(E), cnt)
    for p, v in f.items():
        out.append(("one-expression@" + p, v[0], v[1]))
    # (2) two defaults of one def and two filter arguments of one template
    tmpl = '<%%def name="two19(b19=%s, a19=%s)">[[${N19((b19, a19))}]]</%%def>${two19()}[[${0 | G19(%s)}]][[${0 | G19(%s)}]]' % (c1, c2, c1, c2)
    want = [EV.N19((eval(c1), eval(c2))), G_native(c1, env), G_native(c2, env)]
    cnt["evaluations"] += 1
    stage, val, t = mako_run(tmpl, {}, env, imports=IMPORTS_DECL)
    if stage != "ok":
        out.append(("two-expressions-of-one-template", classify_exc(val), "%s: %s" % (exc_class(val), str(val)[:160])))
    else:
        got = _OBS_B.findall(val)
        if got != want:
            out.append(("two-expressions-of-one-template", "meaning", "type or value differs: native %s, rendered %s" % (want, got)))
    # (3) two templates, one after the other
    for i, c in enumerate((c1, c2)):
        f = a_run(c, ast.parse(c, mode="eval").body, ["D", "F"], cnt)
        for p, v in f.items():
            out.append(("template-%d-of-two@%s" % (i + 1, p), v[0], v[1]))
    return out


def G_native(c, env):
    return eval("G19(%s)(0)" % c, dict(env))


def a2_isolated(c1, c2, seed):
    """run a2_in_process in a fresh interpreter -> list, or None on a harness problem"""
    import json
    import subprocess
    import sys

    code = (
        "import sys, json\nsys.path.insert(0, %r)\nfrom mc import core\ncore.bind_repo()\nfrom mc.props import c19\n"
        "c19.setup(%d)\nprint('RESULT ' + json.dumps(c19.a2_in_process(%r, %r)))\n"
    ) % (core.VERIF, seed, c1, c2)
    envv = dict(os.environ, VERIF_REPO=os.path.abspath(core.REPO), PYTHONHASHSEED="0")
    pr = subprocess.run([sys.executable, "-B", "-W", "ignore", "-c", code], capture_output=True, text=True, env=envv, timeout=300)
    for line in pr.stdout.splitlines()[::-1]:
        if line.startswith("RESULT "):
            return json.loads(line[7:]), ""
    return None, pr.stderr[-600:]


def run_a2(job, st):
    setup(job["seed"])
    for c1, c2 in job["pairs"]:
        res, err = a2_isolated(c1, c2, job["seed"])
        if res is None:
            st.extra.setdefault("harness_errors", []).append("constant-order child failed for %s,%s: %s" % (c1, c2, err))
            continue
        st.evaluations += 8
        st.transitions += 8
        st.states += 3
        st.traces += 1
        st.nontrivial += 3
        st.oracles["a_constant_order"] += 3
        if not res:
            st.outcomes[("a", "holds", "equal-constants-of-different-type")] += 1
            continue
        sym = res[0][1]
        sig = "reemit:equal-constants-of-different-type:%s" % sym
        st.outcomes[("a", sig)] += 1
        st.violation(
            sig, {"part": "a2", "c1": c1, "c2": c2, "seed": job["seed"], "prelude": []},
            "re-emission of equal constants of different types in one process: %s" % sym,
            expected="each constant re-emitted with its own type: %s then %s" % (c1, c2), observed=res[:4],
        )


def run_a(job, st):
    S = setup(job["seed"])
    S["cnt"] = {"evaluations": 0}
    seen = set()
    layer = job["layer"]
    if layer == "d12":
        shard = (job["shard"], job["nshards"])
        for path, node in X.depth1():
            a_case(path, node, st, job["seed"], seen, shard)
        for path, node in X.depth2():
            a_case(path, node, st, job["seed"], seen, shard)
    elif layer == "d3":
        ops = X.d3_ops()
        for (l1, i) in job["outer"]:
            for k2 in ops:
                for j in range(len(k2[3])):
                    for l3 in X.D3_INNER:
                        path = (l1, i, k2[0], j, l3)
                        a_case(path, build_path(path), st, job["seed"], seen)
    elif layer == "spine":
        for path, node in X.spines(job["n"]):
            if (path[0], path[1]) != tuple(job["first"]):
                continue
            a_case(path, node, st, job["seed"], seen)
    ev = S["cnt"]["evaluations"]
    st.evaluations += ev
    st.transitions += ev
    st.extra["a_cases"] = st.extra.get("a_cases", 0) + len(seen)


# ------------------------------------------------------------------ part (b): re-margining


def tree_key(node):
    from mako import parsetree as pt

    out = []

    def walk(nodes):
        for n in nodes:
            if isinstance(n, pt.Code):
                out.append(("C", n.text, n.ismodule))
            elif isinstance(n, pt.Text):
                out.append(("T", n.content))
            elif isinstance(n, pt.Expression):
                out.append(("E", n.text, tuple(n.escapes_code.args)))
            elif isinstance(n, pt.ControlLine):
                out.append(("L", n.text, n.isend))
            elif isinstance(n, pt.Comment):
                out.append(("#",))
            elif isinstance(n, pt.Tag):
                out.append(("<", n.keyword, tuple(sorted(n.attributes.items()))))
                walk(n.nodes)
                out.append((">",))
            else:
                out.append(("?", type(n).__name__))

    walk(node.nodes)
    return tuple(out)


import re as _re

_OBS_B = _re.compile(r"\[\[(.*?)\]\]", _re.S)


def b_execute(tmpl, expected, counts):
    """-> None (holds) or (symptom, detail)"""
    from mako.lexer import Lexer

    S = _state
    if tmpl in S["memo_b"]:
        return S["memo_b"][tmpl]
    env = S["env"]
    counts["lex"] += 1
    res = None
    try:
        tree = Lexer(tmpl).parse()
    except BaseException as e:  # noqa
        if isinstance(e, (KeyboardInterrupt, SystemExit)):
            raise
        res = ("lexer-" + classify_exc(e), "%s: %s" % (exc_class(e), str(e)[:200]))
        tree = None
    if tree is not None:
        key = tree_key(tree)
        if key in S["tree_b"]:
            res = S["tree_b"][key]
            counts["shared"] += 1
        else:
            counts["compile"] += 1
            stage, val, t = mako_run(tmpl, {}, env, imports=IMPORTS_DECL)
            if stage != "ok":
                # a block that raises natively has to raise the same class (at import for <%! %>, else while rendering)
                if not (expected == "EXC:" + exc_class(val) and classify_exc(val).startswith("raises:")):
                    res = (classify_exc(val), "%s: %s" % (exc_class(val), str(val)[:200]))
            elif expected.startswith("EXC:"):
                res = ("value", "renders %s where the native block raises %s" % (val.strip()[:120], expected[4:]))
            else:
                m = _OBS_B.search(val)
                got = m.group(1) if m else val.replace("\r\n", "\n").strip("\n")
                if got != expected:
                    res = ("value", "variables differ: native %s, rendered %s" % (expected[:200], got[:200]))
            S["tree_b"][key] = res
    S["memo_b"][tmpl] = res
    return res


def b_native(lines):
    """the observable variables after native exec of the unindented block; 'EXC:<class>' when the block itself raises
    (e.g. a variable re-used with another type): the template then has to raise the same class"""
    env = dict(_state["env"])
    src = BL.PREAMBLE + "\n" + BL.native_source(lines) + "\n__r19 = " + BL.OBSERVE + "\n"
    code = compile(src, "<c19-block>", "exec")
    try:
        exec(code, env)
    except Exception as e:  # noqa
        return "EXC:" + exc_class(e)
    return env["__r19"]


CANON = ("", "    ", False, "\n", "body")


def layout_desc(layout, parts):
    m, unit, fs, eol, pos = layout
    d = []
    if "m" in parts:
        d.append("margin=" + BL.margin_class(m))
    if "u" in parts:
        d.append("unit=" + ("tab" if unit == "\t" else str(len(unit))))
    if "f" in parts:
        d.append("first-line-on-tag-line")
    if "e" in parts:
        d.append("CRLF")
    if "p" in parts:
        d.append("pos=" + pos)
    return ",".join(d)


def b_sig(block, forms, layout, res, counts):
    """footprint: statement kinds / literal form / layout components that are needed for the failure"""
    sym = res[0]
    plain = ["plain"] * len(forms)
    special = sorted(set(f for f in forms if f != "plain"))

    def fails(fm, lay):
        lines = BL.physical_lines(block, fm)
        exp = b_native(lines)
        return b_execute(BL.template_for(lines, lay[0], lay[1], lay[2], lay[3], lay[4]), exp, counts) is not None

    kinds = "+".join(sorted(set(_kinds(block))))
    cache = _state.setdefault("sig_b", {})
    ck = (block, tuple(forms), sym)
    if ck in cache:
        return cache[ck]
    if fails(plain, CANON):
        cache[ck] = "remargin:stmt=%s:%s" % (kinds, sym)
        return cache[ck]
    if special and fails(forms, CANON):
        if len(special) > 1:
            for f in special:
                one = [x if x == f else "plain" for x in forms]
                if fails(one, CANON):
                    cache[ck] = "remargin:form=%s:%s" % (f, sym)
                    return cache[ck]
        cache[ck] = "remargin:form=%s:%s" % ("+".join(special), sym)
        return cache[ck]
    # which layout components are necessary?
    m, unit, fs, eol, pos = layout
    need = ""
    for tag, lay in (
        ("m", ("", unit, False, eol, pos)),
        ("u", (m, "    ", fs, eol, pos)),
        ("f", (m, unit, False, eol, pos)),
        ("e", (m, unit, fs, "\n", pos)),
        ("p", (m, unit, fs, eol, "body")),
    ):
        if lay == layout:
            continue
        if not fails(forms, lay):
            need += tag
    desc = layout_desc(layout, need or "mufep")
    if fails(plain, layout):
        return "remargin:layout=%s:%s" % (desc, sym)
    return "remargin:form=%s@layout=%s:%s" % ("+".join(special) or "plain", desc, sym)


def _kinds(block):
    for s in block:
        yield s[0]
        if len(s) > 1:
            yield from _kinds(s[2])


def layouts(tier, level):
    """level 'full' | 'std' | 'min'"""
    out = []
    POS = ["body", "module", "ctl", "def"]
    if level == "full":
        for m in BL.MARGINS:
            for fs in (False, True):
                if fs and m == "":
                    continue
                for eol in ("\n", "\r\n"):
                    for pos in POS:
                        if pos in ("module", "def") and (fs or eol != "\n") and m not in ("    ", "\t"):
                            continue
                        out.append((m, "    ", fs, eol, pos))
        for m in ("", "\t"):
            for unit in ("\t", "  "):
                for pos in POS:
                    out.append((m, unit, False, "\n", pos))
        return out
    if level == "std":
        for m in BL.MARGINS:
            if m in (" " * 9, " " * 10, " " * 11):
                continue  # quick: 9-11 spaces take the same path as 8 and 12; the thorough tier has them
            out.append((m, "    ", False, "\n", "body"))
        for m in ("    ", "\t"):
            for pos in POS[1:]:
                out.append((m, "    ", False, "\n", pos))
        out.append(("    ", "    ", True, "\n", "body"))
        out.append(("\t", "    ", False, "\r\n", "body"))
        out.append(("       ", "    ", True, "\r\n", "body"))
        out.append(("    ", "    ", True, "\r\n", "module"))
        out.append(("\t", "\t", False, "\n", "body"))
        out.append(("", "\t", False, "\n", "ctl"))
        return out
    if level == "min3":
        for m in ("", "    ", "       ", "\t"):
            out.append((m, "    ", False, "\n", "body"))
        for pos in ("module", "ctl"):
            out.append(("    ", "    ", False, "\n", pos))
        out.append(("    ", "    ", True, "\r\n", "def"))
        out.append(("\t", "\t", False, "\r\n", "ctl"))
        return out
    if level == "min":
        for m in BL.MARGINS:
            out.append((m, "    ", False, "\n", "body"))
        for m in ("    ", "\t"):
            for pos in ("module", "ctl", "def"):
                out.append((m, "    ", False, "\n", pos))
        out.append(("    ", "    ", True, "\r\n", "body"))
        out.append(("\t", "\t", False, "\r\n", "ctl"))
        return out
    raise AssertionError(level)


# literal forms left to the thorough tier (each has a close relative in the quick set)
QUICK_SKIP = {
    "dq-in-sq", "raw-string-backslash", "escaped-quote", "two-triples-one-line", "empty-triple", "four-quotes",
    "multiline-triple-with-hash", "comment-with-triple-dq", "triple-sq-chars-in-dq-string",
    "backslash-continued-dq-string-3-lines-hash-line", "backslash-continued-sq-string-4-lines-hash-lines",
} | BL.THOROUGH_ONLY_FORMS


PAIR_FORMS = {
    "plain", "hash-in-string", "triple-dq-chars-in-sq-string", "backslash-string", "fstring-braces", "multiline-triple-dq",
    "multiline-triple-sq", "multiline-triple-split", "multiline-triple-dq-containing-triple-sq", "backslash-newline-inside-string",
    "backslash-continued-sq-string-3-lines-hash-line", "backslash-continued-dq-string-4-lines-hash-lines",
    "comment-with-quotes", "comment-with-triple-sq", "comment-ending-in-backslash",
}
QUICK_SKIP_KINDS = {"call0", "tryraise", "if", "import"}


def form_assignments(nholes, mode, tier="thorough", reduced=False):
    """mode 'single': all plain + one special form in one hole; 'pairs': two special forms in two holes"""
    names = [f[0] for f in BL.FORMS if not (tier == "quick" or reduced) or f[0] not in QUICK_SKIP]
    if mode == "single":
        yield ["plain"] * nholes
        for h in range(nholes):
            for f in names[1:]:
                fm = ["plain"] * nholes
                fm[h] = f
                yield fm
    elif mode == "pairs":
        names = [n for n in names if n in PAIR_FORMS]
        for h1 in range(nholes):
            for h2 in range(h1 + 1, nholes):
                for f1 in names[1:]:
                    for f2 in names[1:]:
                        fm = ["plain"] * nholes
                        fm[h1], fm[h2] = f1, f2
                        yield fm


def b_case(block, forms, layout, expected, lines, st, seed, counts):
    m, unit, fs, eol, pos = layout
    tmpl = BL.template_for(lines, m, unit, fs, eol, pos)
    S = _state
    if tmpl in S["seen_b"]:
        return
    S["seen_b"].add(tmpl)
    res = b_execute(tmpl, expected, counts)
    st.states += 1
    st.traces += 1
    st.oracles["b_variables"] += 1
    if m != "" or pos != "module" or any(f != "plain" for f in forms):
        st.nontrivial += 1
    if res is None:
        st.outcomes[("b", "holds", pos, BL.margin_class(m))] += 1
    else:
        sig = b_sig(block, forms, layout, res, counts)
        st.outcomes[("b", sig)] += 1
        st.violation(
            sig, {"part": "b", "template": tmpl, "native": BL.native_source(lines), "seed": seed},
            "re-margining: %s" % res[0], expected=expected, observed=list(res),
        )
    if st.states % 9973 == 1:
        st.sample({"part": "b", "template": tmpl, "expected": expected, "result": res and res[0]})


def b_expression_literals(job, st):
    """every literal form inside ${ }, alone and followed by template text holding quote characters"""
    S = _state
    env = S["env"]
    for name, pieces, comment in BL.FORMS:
        if comment is not None or (job["tier"] == "quick" and name in QUICK_SKIP):
            continue
        try:
            expected = EV.N19(eval(compile("\n".join(pieces), "<c19-literal>", "eval"), dict(env, n9=5)))
        except SyntaxError as e:
            st.extra.setdefault("harness_errors", []).append("literal form %s is not an expression: %s" % (name, e))
            continue
        for eol in ("\n", "\r\n"):
            for tail in ("", " it's \"${'x'}"):
                tmpl = "[[${N19(" + eol.join(pieces) + ")}]]" + tail + eol
                st.evaluations += 1
                st.transitions += 1
                st.states += 1
                st.traces += 1
                st.nontrivial += 1
                st.oracles["b_expression_literal"] += 1
                stage, val, t = mako_run(tmpl, {"n9": 5}, env, imports=IMPORTS_DECL)
                res = None
                if stage != "ok":
                    res = (("lexer-" if lexer_rejects(tmpl) else "") + classify_exc(val), "%s: %s" % (exc_class(val), str(val)[:200]))
                else:
                    m = _OBS_B.search(val)
                    if not m or m.group(1) != expected:
                        res = ("value", "native %s, rendered %s" % (expected[:160], val[:160]))
                if res is None:
                    st.outcomes[("b", "holds", "expression-literal")] += 1
                    continue
                sig = "literal-in-expression:form=%s:%s" % (name, res[0])
                st.outcomes[("b", sig)] += 1
                st.violation(sig, {"part": "bx", "template": tmpl, "expected": expected, "seed": job["seed"]},
                             "string literal inside ${}: %s" % res[0], expected=expected, observed=list(res))


def run_b(job, st):
    S = setup(job["seed"])
    counts = {"lex": 0, "compile": 0, "shared": 0}
    if job["shard"] == 0 and job["forms"] == "single" and not job.get("min_n"):
        b_expression_literals(job, st)
    sk = list(BL.skeletons(job["n"], job["d"]))
    if job["tier"] == "quick":  # statement kinds left to the thorough tier (each has a close relative in the quick set)
        sk = [b for b in sk if not (set(_kinds(b)) & QUICK_SKIP_KINDS)]
    if job.get("min_n"):
        small = set(BL.skeletons(job["min_n"][0], job["min_n"][1]))
        sk = [b for b in sk if b not in small]
    lays = layouts(job["tier"], job["layouts"])
    for idx, block in enumerate(sk):
        if idx % job["nshards"] != job["shard"]:
            continue
        nh = BL.count_holes(block)
        for forms in form_assignments(nh, job["forms"], job["tier"], job.get("reduced_forms", False)):
            lines = BL.physical_lines(block, forms)
            try:
                expected = b_native(lines)
            except BaseException as e:  # noqa
                st.extra.setdefault("harness_errors", []).append(
                    "native exec of a generated block failed: %r %s: %s" % (BL.native_source(lines), exc_class(e), e))
                continue
            for lay in lays:
                b_case(block, forms, lay, expected, lines, st, job["seed"], counts)
        # keep the memo small: verdicts are only shared within one block
        S["memo_b"].clear()
        S["tree_b"].clear()
        S["seen_b"].clear()
        S.get("sig_b", {}).clear()
    st.evaluations += counts["lex"] + counts["compile"]
    st.transitions += counts["lex"] + counts["compile"]
    st.extra["b_lexer_runs"] = counts["lex"]
    st.extra["b_compile_render_runs"] = counts["compile"]
    st.extra["b_verdicts_shared_by_identical_parse_tree"] = counts["shared"]


# ------------------------------------------------------------------ part (c): binding analysis

import re

_OBS = re.compile(r"\[\[(.*?)\]\]", re.S)
_QNAME = re.compile(r"'([A-Za-z_][A-Za-z_0-9]*)'")
ALWAYS = ("N19", "G19", "cm19")


def c_env(names, removed=None):
    S = _state
    fv = S.get("freevals")
    if fv is None:
        fv = S["freevals"] = BI.free_values(S["env"])
    out = {}
    for n in names:
        if n == removed:
            continue
        if n in fv:
            out[n] = fv[n]
        elif n in S["env"]:
            out[n] = S["env"][n]
        else:
            out[n] = "ctx:" + n
    return out


def c_native(case, removed):
    """-> ('out', [obs...]) or ('exc', class, names-in-message)"""
    out = []
    try:
        G = c_env(case["mod_names"], removed)
        G["__builtins__"] = builtins
        G["N19"] = EV.N19
        before = set(G)
        if case["mod"]:
            exec(compile(case["mod"], "<c19-mod>", "exec"), G)
        # what the body sees as module globals: the names the harness declares there + the names the module code bound
        new = {k: v for k, v in G.items() if k not in before or k in case["mod_names"]}
        BG = c_env(list(case["ctx_names"]) + list(ALWAYS), removed)
        BG.update(new)
        BG["__builtins__"] = builtins
        BG["__o"] = lambda v: out.append(EV.N19(v))
        src = "def __body():\n" + BI._ind(case["body"]) + "\n__body()\n"
        exec(compile(src, "<c19-body>", "exec"), BG)
    except SyntaxError:
        return ("not-python",)
    except Exception as e:  # noqa
        return ("exc", exc_class(e), _QNAME.findall(str(e)), isinstance(e, NameError))
    return ("out", out)


def c_mako(case, removed):
    ctx = c_env(list(case["ctx_names"]) + list(ALWAYS), removed)
    mod = c_env(list(case["mod_names"]) + ["N19"], removed)
    declared = sorted(mod)  # module-level names are *declared* by an import line, as a template author has to
    imports = ["from mc import c19_env as __e19", "%s, = [__e19.MOD[__k19] for __k19 in %r]" % (", ".join(declared), declared)]
    stage, val, t = mako_run(case["template"], ctx, mod, strict=True, imports=imports)
    if stage == "ok":
        return ("out", _OBS.findall(val))
    return ("exc", exc_class(val), _QNAME.findall(str(val)), isinstance(val, NameError), str(val)[:200], classify_exc(val))


REEMIT_POS = ("def-default-top", "def-default-nested", "def-kwdefault-nested", "filter-arg", "block-filter")


def c_judge(case, removed, bound, free, pos=""):
    """-> None (holds) | "skip" | (symptom, detail, expected)"""
    nat = c_native(case, removed)
    if nat[0] == "not-python":
        return "skip"
    mk = c_mako(case, removed)
    if removed is None:
        if nat[0] == "out":
            if mk[0] == "out":
                if mk[1] != nat[1]:
                    return ("value", "rendered %r" % (mk[1],), nat[1])
                return None
            if mk[3]:  # a NameError
                names = mk[2]
                nme = names[0] if names else "?"
                detail = "%s: %s" % (mk[1], mk[4])
                if mk[4].startswith("'"):  # raised by the generated strict_undefined lookup
                    return ("demanded-from-context", detail, nat[1])
                if mk[1] == "UnboundLocalError" and pos.startswith("def-default") and nme not in bound:
                    return ("context-name-fetched-after-def", detail, nat[1])
                if nme in free:
                    return ("free-name-not-obtained", detail, nat[1])
                return ("name-bound-in-inner-scope-not-obtained", detail, nat[1])
            return (mk[5], "%s: %s" % (mk[1], mk[4]), nat[1])
        # the native run raises with the full environment (e.g. reading a deleted name): same class family expected
        if mk[0] == "out":
            return ("value", "renders %r where the native run raises %s" % (mk[1], nat[1]), nat[1])
        if nat[3] != mk[3] or (not nat[3] and nat[1] != mk[1]):
            return (mk[5], "%s: %s (native: %s)" % (mk[1], mk[4], nat[1]), nat[1])
        return None
    # a free name removed
    if nat[0] == "exc" and nat[3]:
        if mk[0] == "exc" and mk[3] and removed in mk[2] and set(mk[2]) <= {removed}:
            return None
        if mk[0] == "out":
            return ("missing-name-not-reported", "renders %r without %r" % (mk[1], removed), "NameError naming %r" % removed)
        return ("missing-name-misreported", "%s: %s" % (mk[1], mk[4]), "NameError naming %r" % removed)
    # the native run does not need the name (dead read): rendering the same or raising NameError for it are both fine
    if mk[0] == "out":
        if nat[0] == "out" and mk[1] != nat[1]:
            return ("value", "rendered %r" % (mk[1],), nat[1])
        return None
    if mk[3] and set(mk[2]) <= {removed}:
        return None
    if nat[0] == "exc" and nat[1] == mk[1]:
        return None
    return (mk[5], "%s: %s" % (mk[1], mk[4]), nat)


WRAPPERS = [
    ("~in-lambda", "(lambda: %s)()"), ("~in-lambda-vararg", "(lambda *a9: %s)(1)"), ("~in-comp-elt", "[%s for i9 in (1,)][0]"),
    ("~in-comp-if", "[1 for i9 in (1,) if N19(%s)]"), ("~in-nested-lambda", "(lambda: (lambda: %s)())()"),
    ("~in-dictcomp-value", "{1: %s for i9 in (1,)}[1]"), ("~in-genexp", "list(%s for i9 in (1,))[0]"),
]
# codegen declares context lookups and inline defs in set order: several spellings of the free name and of the def
# make the outcome independent of PYTHONHASHSEED
HASH_ORDER_FREE_NAMES = ["zz", "y9", "k2", "value", "items"]
E_LEAKS = {"walrus.same-expression": "w", "walrus.in-comp": "w"}
S_LEAKS = {
    "except-as": "e", "with-as": "w", "with-as-tuple": "b", "for.tuple-target": "b", "for.starred-target": "b", "for.else": "a",
    "import.as": "q", "import.dotted": "os", "from-import": "sep", "walrus.if": "w", "class.body": "C", "match.sequence": "q",
    "match.mapping": "rest", "match.as": "n", "match.guard": "p", "def.pos": "g", "del": "t", "try-finally": "t",
    "lambda-assigned.vararg-kwonly": "g",
}


def c_cases(tier):
    """yield dict(core, outside, pos, canon, case, bound, free, E)"""
    wrappers = [("", "%s")] + (WRAPPERS if tier == "thorough" else [])
    # baseline: a plain free name in every position
    plain = [("plain-name", "z", ["z"], [])] + [("plain-name:" + n, n, [n], []) for n in HASH_ORDER_FREE_NAMES]
    for label, E0, free, bound in plain + BI.EXPRS:
        for wl, wr in wrappers:
            if wl and label.startswith("plain-name"):
                continue
            E = wr % E0
            outs = [(None, None)]
            if not wl:
                if bound:
                    outs.append(("own", bound[0]))
                if label in E_LEAKS:
                    outs.append(("leaked", E_LEAKS[label]))
            for okind, oname in outs:
                for pos in BI.EXPR_POSITIONS:
                    if label.startswith("plain-name:") and not pos.startswith("def-default-nested"):
                        continue
                    case = BI.expr_case(label, E, free, bound, pos, oname)
                    if case is None:
                        continue
                    if okind == "leaked":  # a name the code binds in the enclosing scope: a local natively, not supplied
                        case["ctx_names"] = [n for n in case["ctx_names"] if n != oname]
                    yield {"core": label + wl, "outside": okind, "pos": pos, "canon": "expr", "case": case, "bound": bound, "free": free, "E": E}
    for label, code, free, bound in BI.STMTS:
        outs = [(None, None)]
        if bound:
            outs.append(("own", bound[0]))
        if label in S_LEAKS:
            outs.append(("leaked", S_LEAKS[label]))
        for okind, oname in outs:
            for pos in BI.STMT_POSITIONS:
                if pos == "module" and oname and label in ("del", "except-as"):
                    continue  # a name deleted at module level: which namespace answers afterwards is not fixed
                case = BI.stmt_case(label, code, free, bound, pos, oname)
                if okind == "leaked":
                    case["ctx_names"] = [n for n in case["ctx_names"] if n != oname]
                yield {"core": label, "outside": okind, "pos": pos, "canon": "code", "case": case, "bound": bound, "free": free, "E": None}
    for label, tmpl, native, free in BI.CTLS:
        yield {"core": label, "outside": None, "pos": "ctl", "canon": "ctl", "case": BI.ctl_case(label, tmpl, native, free),
               "bound": [], "free": free, "E": None}


def c_full(c):
    """memoised full-environment verdict of a case"""
    S = _state
    key = (c["case"]["template"], None)
    if key not in S["memo_c"]:
        S["memo_c"][key] = c_judge(c["case"], None, c["bound"], c["free"], c["pos"])
        S["c_runs"] = S.get("c_runs", 0) + 1
    return S["memo_c"][key]


def c_fails(c):
    r = c_full(c)
    return r is not None and r != "skip"


def c_reemission_broken(c):
    if c["E"] is None or c["pos"].split(":")[0] not in REEMIT_POS:
        return False
    try:
        ref = ast.parse(c["E"], mode="eval").body
    except SyntaxError:
        return False
    return bool(a_check(c["E"], ref))


def _parents(tree):
    par = {}
    for node in ast.walk(tree):
        for f, v in ast.iter_fields(node):
            for ch in v if isinstance(v, list) else [v]:
                if isinstance(ch, ast.AST):
                    par[ch] = (node, f)
    return par


def binder_kind(code, name):
    """how `name` is bound in `code` (CPython's ast decides): the first binder found"""
    try:
        tree = ast.parse(code)
    except SyntaxError:
        return "?"
    par = _parents(tree)
    for node in ast.walk(tree):
        if isinstance(node, ast.arguments):
            owner = par[node][0]
            pre = "lambda-parameter." if isinstance(owner, ast.Lambda) else "def-parameter."
            for fld, kind in (("posonlyargs", "positional-only"), ("args", "positional"), ("kwonlyargs", "keyword-only")):
                if any(a.arg == name for a in getattr(node, fld)):
                    return pre + kind
            if node.vararg is not None and node.vararg.arg == name:
                return pre + "*args"
            if node.kwarg is not None and node.kwarg.arg == name:
                return pre + "**kwargs"
    for node in ast.walk(tree):
        if isinstance(node, (ast.MatchAs, ast.MatchStar)) and node.name == name:
            return "match-capture"
        if isinstance(node, ast.MatchMapping) and node.rest == name:
            return "match-capture"
        if isinstance(node, ast.ExceptHandler) and node.name == name:
            return "except-as"
        if isinstance(node, ast.Name) and node.id == name and isinstance(node.ctx, ast.Store):
            n, up = node, par.get(node)
            while up is not None:
                owner, f = up
                if isinstance(owner, ast.comprehension) and f == "target":
                    return "comprehension-variable"
                if isinstance(owner, ast.NamedExpr) and f == "target":
                    return "walrus-target"
                if isinstance(owner, (ast.For, ast.AsyncFor)) and f == "target":
                    return "for-target"
                if isinstance(owner, ast.withitem):
                    return "with-as"
                if not isinstance(owner, (ast.Tuple, ast.List, ast.Starred)):
                    break
                n, up = owner, par.get(owner)
            return "assignment"
    return "?"


_SCOPES = (ast.Lambda, ast.FunctionDef, ast.AsyncFunctionDef, ast.ClassDef)
_COMPS = (ast.ListComp, ast.SetComp, ast.GeneratorExp, ast.DictComp)


def _binds_in_own_scope(node, name, walrus_only, in_comp=False):
    """is `name` bound by `node` in the scope it belongs to (nested functions are not entered; inside a comprehension
    only := binds in the enclosing scope)"""
    if isinstance(node, ast.NamedExpr) and node.target.id == name:
        return True
    if isinstance(node, ast.Name) and node.id == name and isinstance(node.ctx, ast.Store) and not walrus_only and not in_comp:
        return True
    if isinstance(node, (ast.FunctionDef, ast.AsyncFunctionDef, ast.ClassDef)) and node.name == name and not walrus_only and not in_comp:
        return True
    if isinstance(node, _SCOPES):
        return False
    inc = in_comp or isinstance(node, _COMPS)
    return any(_binds_in_own_scope(ch, name, walrus_only, inc) for ch in ast.iter_child_nodes(node))


def _binds(owner, name):
    """does this scope-creating node bind `name` itself?"""
    if isinstance(owner, (ast.Lambda, ast.FunctionDef, ast.AsyncFunctionDef)):
        a = owner.args
        if name in [x.arg for x in a.posonlyargs + a.args + a.kwonlyargs + [y for y in (a.vararg, a.kwarg) if y]]:
            return True
        body = owner.body if isinstance(owner.body, list) else [owner.body]
        return any(_binds_in_own_scope(b, name, isinstance(owner, ast.Lambda)) for b in body)
    if isinstance(owner, (ast.ListComp, ast.SetComp, ast.GeneratorExp, ast.DictComp)):
        for g in owner.generators:
            for n in ast.walk(g.target):
                if isinstance(n, ast.Name) and n.id == name:
                    return True
    return False


def inner_binding(code, name):
    """'<binder kind>-inside-<lambda|def>' when `name` is bound in an inner function scope of `code` and also read
    outside every scope that binds it; else None"""
    try:
        tree = ast.parse(code)
    except SyntaxError:
        return None
    par = _parents(tree)
    free_read = False
    inner = None
    for node in ast.walk(tree):
        if isinstance(node, ast.Name) and node.id == name:
            owners = []
            up = par.get(node)
            while up is not None:
                owners.append(up[0])
                up = par.get(up[0])
            if isinstance(node.ctx, ast.Load) and not any(_binds(o, name) for o in owners):
                free_read = True
        if isinstance(node, (ast.Lambda, ast.FunctionDef)) and inner is None:
            for sub in ast.walk(node):
                if sub is not node and _binds(sub, name) or (sub is node and _binds(node, name)):
                    kind = binder_kind(ast.unparse(node) if isinstance(node, ast.FunctionDef) else "(%s)" % ast.unparse(node), name)
                    inner = "%s-inside-%s" % (kind, "lambda" if isinstance(node, ast.Lambda) else "def")
                    break
    return inner if (free_read and inner) else None


def read_location(code, name):
    """where `name` is read in `code`: the syntactic slot of its first Load that no enclosing scope binds"""
    try:
        tree = ast.parse(code)
    except SyntaxError:
        return "?"
    par = _parents(tree)
    for node in ast.walk(tree):
        if isinstance(node, ast.Name) and node.id == name and isinstance(node.ctx, ast.Load):
            chain = []
            up = par.get(node)
            bound_here = False
            while up is not None:
                chain.append((type(up[0]).__name__, up[1]))
                bound_here = bound_here or _binds(up[0], name)
                up = par.get(up[0])
            if bound_here:
                continue
            infn = any(t in ("Lambda", "FunctionDef") and f == "body" for t, f in chain)
            for t, f in chain:
                if t == "arguments" and f in ("defaults", "kw_defaults"):
                    return "parameter-default"
                if (t == "arg" and f == "annotation") or (t == "FunctionDef" and f == "returns"):
                    return "annotation"
                if t in ("FunctionDef", "ClassDef") and f == "decorator_list":
                    return "decorator"
                if t == "ClassDef" and f in ("bases", "keywords"):
                    return "class-base"
                if t == "ClassDef" and f == "body":
                    return "class-body"
                if t in ("ListComp", "SetComp", "GeneratorExp", "DictComp") and f in ("elt", "key", "value") and infn:
                    return "comprehension-element-inside-function"
                if t == "comprehension" and f == "ifs" and infn:
                    return "comprehension-condition-inside-function"
                if t == "comprehension" and f == "iter" and infn:
                    return "comprehension-iterable-inside-function"
            return "expression"
    return "?"


POS_FAMILY = {"filter-arg": "filter-arguments", "block-filter": "filter-arguments", "def-default-top": "def-default",
              "def-default-nested": "def-default", "def-kwdefault-nested": "def-keyword-only-default"}


def c_feature(c, sym, detail):
    code = (c["case"]["mod"] + "\n" + c["case"]["body"]).strip()
    names = _QNAME.findall(detail.split(" (native")[0])
    nme = names[0] if names else None
    if sym == "demanded-from-context" and nme:
        return binder_kind(code, nme)
    if sym == "free-name-not-obtained" and nme:
        ib = inner_binding(code, nme)
        if ib:
            # the name is private to an inner function scope somewhere else in the same code and free here
            return "name-also-bound-as-%s" % ib
        return "read-in-" + read_location(code, nme)
    if sym == "name-bound-in-inner-scope-not-obtained" and nme:
        return "outside-read-of-" + binder_kind(code, nme)
    return c["core"]


def c_sig(c, res, index):
    """signature = symptom + the syntactic feature CPython's ast assigns to the name involved; the template position only
    when the same code holds in the canonical position"""
    core, outside, pos = c["core"], c["outside"], c["pos"]
    sym, detail = res[0], res[1]
    if sym == "context-name-fetched-after-def":
        return "bind:def-default:context-name-fetched-after-def"
    # the simplest failing relative explains the failure
    for key in ((core, None, c["canon"]), (core, None, pos), (core, outside, c["canon"])):
        rel = index.get(key)
        if rel is not None and rel is not c and c_fails(rel) and not c_reemission_broken(rel):
            r = c_full(rel)
            if r[0] != "context-name-fetched-after-def":
                return c_sig(rel, r, index)
    feat = c_feature(c, sym, detail)
    if pos == "def-kwdefault-nested" and sym == "free-name-not-obtained":
        return "bind:free-name-not-obtained:read-in-keyword-only-default-of-a-mako-def"
    where = ""
    if pos != c["canon"] and sym != "name-bound-in-inner-scope-not-obtained":
        pf = pos.split(":")[0]
        where = "@" + POS_FAMILY.get(pf, pf)
    plain = sym in ("name-bound-in-inner-scope-not-obtained", "demanded-from-context", "free-name-not-obtained")
    return "bind:%s:%s%s%s" % (sym, feat, where, ">read-outside" if outside and not plain else "")


def run_c(job, st):
    S = setup(job["seed"])
    S["cnt"] = {"evaluations": 0}
    allc = list(c_cases(job["tier"]))
    index = {(c["core"], c["outside"], c["pos"]): c for c in allc}
    cores = sorted(set(c["core"] for c in allc))
    mine = set(cores[job["shard"]::job["nshards"]])
    done = set()
    for c in allc:
        if c["core"] not in mine:
            continue
        case = c["case"]
        if case["template"] in done:
            continue
        done.add(case["template"])
        posfam = c["pos"].split(":")[0]
        for removed in [None] + sorted(set(c["free"])):
            if removed is None:
                res = c_full(c)
            else:
                res = c_judge(case, removed, c["bound"], c["free"], c["pos"])
                S["c_runs"] = S.get("c_runs", 0) + 1
            if res == "skip":
                st.extra["c_not_python"] = st.extra.get("c_not_python", 0) + 1
                break
            st.states += 1
            st.traces += 1
            st.oracles["c_full_env" if removed is None else "c_name_removed"] += 1
            if c["bound"] and c["free"]:
                st.nontrivial += 1
            if res is None:
                st.outcomes[("c", "holds", posfam, "removed" if removed else "full")] += 1
                continue
            if c_reemission_broken(c):
                # the position re-emits the expression and the re-emitted text is already wrong: part (a) reports that
                st.outcomes[("c", "masked-by-reemission", posfam)] += 1
                break
            sym, detail, expected = res
            sig = c_sig(c, res, index)
            st.outcomes[("c", sig)] += 1
            vcase = {"part": "c", "label": c["core"], "outside": c["outside"], "pos": c["pos"], "removed": removed,
                     "bound": list(c["bound"]), "free": list(c["free"]), "case": case, "seed": job["seed"]}
            if S.get("prelude_searches", 0) < 3:
                # workers are long-lived and every part of this check compiles templates with imports=: a failure that
                # needs an earlier compilation in the same process is replayed after one (fresh interpreter)
                S["prelude_searches"] = S.get("prelude_searches", 0) + 1
                pre = core.find_prelude("mc.props.c19", vcase, [{"part": "a", "E": "x + y", "seed": job["seed"]}])
                if pre:
                    vcase = dict(vcase, prelude=pre)
                    sig += ":only after another template was compiled in the process"
            st.violation(sig, vcase, "binding analysis: %s" % sym, expected=expected, observed=detail)
            if removed is None:
                break  # the name-removal runs of a case that fails with its full environment say nothing new
        if st.states % 199 == 1:
            st.sample({"part": "c", "label": c["core"], "pos": c["pos"], "template": case["template"]})
    ev = S.get("c_runs", 0) + S["cnt"]["evaluations"]
    S["c_runs"] = 0
    st.evaluations += ev
    st.transitions += ev
    st.extra["c_cases"] = st.extra.get("c_cases", 0) + st.states


# ------------------------------------------------------------------ plan / run / replay


def plan(tier, seed):
    n = core.NPROC
    jobs = []
    if tier == "thorough":
        ops = X.d3_ops()
        outer = [(k[0], i) for k in ops for i in range(len(k[3]))]
        nj = 4 * n
        for s in range(nj):
            jobs.append({"part": "a", "layer": "d3", "outer": outer[s::nj], "seed": seed, "tier": tier})
        for first in X.SPINE:
            jobs.append({"part": "a", "layer": "spine", "n": 4, "first": list(first), "seed": seed, "tier": tier})
        for s in range(2 * n):
            jobs.append({"part": "b", "n": 3, "d": 3, "min_n": (2, 2), "layouts": "min3", "forms": "single", "reduced_forms": True, "shard": s, "nshards": 2 * n, "seed": seed, "tier": tier})
        for s in range(n):
            jobs.append({"part": "b", "n": 2, "d": 2, "layouts": "full", "forms": "single", "shard": s, "nshards": n, "seed": seed, "tier": tier})
        for s in range(n):
            jobs.append({"part": "b", "n": 2, "d": 2, "layouts": "min", "forms": "pairs", "shard": s, "nshards": n, "seed": seed, "tier": tier})
    else:
        for s in range(n):
            jobs.append({"part": "b", "n": 2, "d": 2, "layouts": "std", "forms": "single", "shard": s, "nshards": n, "seed": seed, "tier": tier})
    for s in range(n):
        jobs.append({"part": "a", "layer": "d12", "shard": s, "nshards": n, "seed": seed, "tier": tier})
    pairs = list(constant_pairs())
    for s in range(4):
        jobs.append({"part": "a2", "pairs": pairs[s::4], "seed": seed, "tier": tier})
    nc = 8 if tier == "quick" else n
    for s in range(nc):
        jobs.append({"part": "c", "shard": s, "nshards": nc, "seed": seed, "tier": tier})
    return jobs


def run_job(job):
    import time

    st = Stats()
    t0 = time.time()
    try:
        if job["part"] == "a2":
            run_a2(job, st)
        elif job["part"] == "a":
            run_a(job, st)
        elif job["part"] == "b":
            run_b(job, st)
        else:
            run_c(job, st)
    finally:
        k = "cpu_s_" + job["part"]
        st.extra[k] = round(st.extra.get(k, 0) + time.time() - t0, 1)
    return st


def replay(case):
    core.bind_repo()
    S = setup(case.get("seed", 0))
    S["memo_a"].clear()
    S["memo_b"].clear()
    S["tree_b"].clear()
    S["memo_c"].clear()
    if case["part"] == "a":
        E = case["E"]
        ref = ast.parse(E, mode="eval").body
        if case.get("variant"):
            fails = a_run(E, ref, [case["variant"]], S.setdefault("cnt", {"evaluations": 0}))
        else:
            fails = a_check(E, ref)
        if fails:
            return False, "reproduced: %s -> %r" % (E, fails)
        return True, "holds: %s" % E
    if case["part"] == "a2":
        # meaningful only in a process that has re-emitted nothing yet (core.finish replays it isolated: prelude = [])
        res = a2_in_process(case["c1"], case["c2"])
        if res:
            return False, "reproduced: %r" % (res[:3],)
        return True, "holds"
    if case["part"] == "bx":
        stage, val, t = mako_run(case["template"], {"n9": 5}, S["env"], imports=IMPORTS_DECL)
        m = _OBS_B.search(val) if stage == "ok" else None
        if stage != "ok" or not m or m.group(1) != case["expected"]:
            return False, "reproduced: %s %r" % (stage, str(val)[:200])
        return True, "holds"
    if case["part"] == "b":
        env = dict(S["env"])
        src = BL.PREAMBLE + "\n" + case["native"] + "\n__r19 = " + BL.OBSERVE + "\n"
        try:
            exec(compile(src, "<c19-block>", "exec"), env)
            expected = env["__r19"]
        except Exception as e:  # noqa
            expected = "EXC:" + exc_class(e)
        res = b_execute(case["template"], expected, {"lex": 0, "compile": 0, "shared": 0})
        if res is not None:
            return False, "reproduced: %r (native %s)" % (res, expected)
        return True, "holds"
    if case["part"] == "c":
        res = c_judge(case["case"], case["removed"], case["bound"], case["free"], case.get("pos", ""))
        if res is not None and res != "skip":
            return False, "reproduced: %r" % (res,)
        return True, "holds"
    return None, "unknown case"
