"""C14 - lookup serves fresh, stable, correctly prioritised templates over time.

Engine E2: explicit-state BFS over histories of {tick, write, write_old, delete,
get, has, put_string, put_template} on a real TemplateLookup over real files in
a scratch directory, simulated whole-second clock, with a reference model that
answers each event with a *set* of allowed outcomes.  The canonical state is a
finite projection, so the search runs to a fixpoint where the budget allows.
"""

import os
import shutil
import stat as _stat

from mc import bfs, core, seams
from mc.core import Stats

PROPERTY = "C14"
LEVEL = "model_checking"
ENGINE = "E2"
TECHNIQUE = "explicit-state BFS over operation histories of a real TemplateLookup (real files, simulated clock) against a set-valued reference model; canonical-state dedup to a fixpoint or depth bound"
RULE = (
    "states = canonical projections (files: version + relative mtime; cache: version compiled, relative compile time, origin, "
    "recency order; clock) reached by BFS over the event alphabet; every transition executes the real method and the model. "
    "Non-trivial = states with at least one cached template."
)
LEVEL_TEXT = (
    "Every history over the event alphabet is explored breadth-first on the real TemplateLookup up to the canonical-state fixpoint "
    "(or the reported depth), for each configuration of filesystem_checks x collection_size x module_directory; in every transition the "
    "returned object/exception, object identity, number of Template constructions, rendered marker and the LRU bound/eviction order are "
    "compared with the reference model's allowed set."
)
LEVEL_NOTE = (
    "Trusted: the ~200-line reference model, the canonical key (argued in DESIGN C14: relative times with gaps capped at 4 s, beyond which "
    "every comparison the code makes is decided), CPython os/stat on a local file system. Clock and LRU timer are simulated by rebinding "
    "mako.codegen.time and mako.util.timeit."
)
ASSUMPTIONS = [
    "simulated whole-second clock: sub-second races are represented only by the equal-second case",
    "a cached entry is revalidated against the file it was loaded from (the statement fixes directory priority for uncached URIs only)",
    "unreadable-file faults are explored in the thorough tier only",
]
BOUNDS = {
    "quick": {"alias": "put_template of a file-backed Template under another URI: all histories of <= 4 events over {tick, write, get alias, get own uri, has alias} x filesystem_checks x collection_size {-1,4} x module directory x {Template(filename=), lookup.get_template}",
              "max_depth": "S: 11 (1 dir) / 7 (2 dirs); L: 9 (2 uris) / 7 (3 uris, and 2 uris with a module directory)", "versions": "A,B,broken", "time_budget_s": 90,
              "fractional_times": "2 configurations (module directory on/off) whose clock reads x.25 and whose files may also be saved at x.75 (event write_frac), depth 6"},
    "thorough": {"alias": "as quick with histories of <= 5 events", "max_depth": "S: 40 (fixpoint sought)/9/6 for 1/2/3 dirs; L: 12/8/6/5/4 for 2/3/4/5/7 uris; groups explored one after the other", "versions": "A,B,broken,unreadable", "time_budget_s": 780, "fractional_times": "4 configurations (collection_size -1/1 x module directory), depth 12"},
}
READY = True

GAP_CAP = 4


# every version of a file has another page signature (its own argument name): what is remembered about a template
# under its URI or module name - argument lists, signatures - must not survive a modification of the file
RARGS = {"a_A": "A", "a_B": "B", "b_A": "A", "b_B": "B"}


def content(d, u, v):
    if v == "X":
        return "${"
    return "<%%page args=\"a_%s='none'\"/><%%def name=\"f(b_%s='none')\">f|${b_%s}</%%def>%s|d%d|%s|${1+1}|${a_%s}" % (v, v, v, u, d, v, v)


def marker(d, u, v):
    return "%s|d%d|%s|2|%s#f|%s" % (u, d, v, v, v)


def put_content(u, v):
    return "<%%page args=\"a_%s='none'\"/><%%def name=\"f(b_%s='none')\">f|${b_%s}</%%def>put|%s|%s|${1+1}|${a_%s}" % (v, v, v, u, v, v)


def put_marker(u, v):
    return "put|%s|%s|2|%s#f|%s" % (u, v, v, v)


def configs(tier):
    """S = single URI, full alphabet (freshness/priority/failure clauses); L = several URIs that
    exist from the start, reduced alphabet (LRU clauses).  URIs interact only through the LRU."""
    out = []
    if tier == "quick":
        S = [(1, True, -1, False), (2, True, -1, False), (1, False, -1, False), (1, True, -1, True), (2, False, 1, False), (1, True, 1, True)]
        L = [(2, True, 1, False), (3, True, 2, False), (2, False, 1, False), (2, True, 1, True)]  # (the last: evicted templates come back through their module files)
    else:
        S = [(nd, fs, cs, md) for nd in (1, 2, 3) for fs in (True, False) for cs in (-1, 1) for md in (False, True) if nd < 3 or md == (cs == 1)]
        L = [(nu, fs, cs, md) for (nu, cs) in ((2, 1), (3, 1), (3, 2), (4, 2), (5, 4), (7, 4)) for fs in (True, False) for md in (False, True) if nu < 5 or (fs and not md)]
    for nd, fs, cs, md in S:
        dep = ({1: 11, 2: 7} if tier == "quick" else {1: 40, 2: 9, 3: 6})[nd]
        out.append({"mode": "S", "dirs": nd, "uris": 1, "fs_checks": fs, "size": cs, "moddir": md, "unreadable": tier != "quick", "max_depth": dep})
    # the caller's spelling of the URI: doubled leading slash, backslash (served under the URI as given)
    for spell, cs, md in ([("//", -1, False), ("\\", 1, False)] if tier == "quick" else [(sp_, cs, md) for sp_ in ("/", "//", "\\", "/\\") for cs in (-1, 1) for md in (False, True)]):
        out.append({"mode": "S", "dirs": 1, "uris": 1, "fs_checks": True, "size": cs, "moddir": md, "unreadable": False, "max_depth": 7 if tier == "quick" else 12, "spell": spell})
    # file times with a fractional part: the clock reads x.25, a file may be saved at x.75
    for cs, md in ([(-1, True), (-1, False)] if tier == "quick" else [(cs, md) for cs in (-1, 1) for md in (False, True)]):
        out.append({"mode": "S", "dirs": 1, "uris": 1, "fs_checks": True, "size": cs, "moddir": md, "unreadable": False, "max_depth": 6 if tier == "quick" else 12, "frac": True})
    for nu, fs, cs, md in L:
        dep = ({2: 9, 3: 7} if tier == "quick" else {2: 12, 3: 8, 4: 6, 5: 5, 7: 4})[nu]
        if tier == "quick" and md:
            dep = 7
        out.append({"mode": "L", "dirs": 1, "uris": nu, "fs_checks": fs, "size": cs, "moddir": md, "unreadable": False, "max_depth": dep})
    return out


def groups(tier):
    """configurations explored together (lock-step levels), with their share of the time budget"""
    cs = configs(tier)
    if tier == "quick":
        return [(90, cs)]
    return [
        (200, [c for c in cs if c["mode"] == "S" and c["dirs"] == 1]),
        (170, [c for c in cs if c["mode"] == "S" and c["dirs"] == 2]),
        (110, [c for c in cs if c["mode"] == "S" and c["dirs"] == 3]),
        (170, [c for c in cs if c["mode"] == "L" and c["uris"] <= 3]),
        (130, [c for c in cs if c["mode"] == "L" and c["uris"] > 3]),
    ]


def cfg_label(c):
    return "%s dirs=%d uris=%d checks=%s size=%d moddir=%s%s" % (c["mode"], c["dirs"], c["uris"], c["fs_checks"], c["size"], c["moddir"], (" spell=%r" % c["spell"] if c.get("spell") else "") + (" frac" if c.get("frac") else ""))


URIS = ["u", "v", "w", "x", "y", "z", "q", "r"]


def initial_events(cfg):
    if cfg["mode"] == "L":
        return [("write_old", 0, u, "A") for u in URIS[: cfg["uris"]]]
    return []


def events(cfg):
    ev = [("tick",)]
    us = URIS[: cfg["uris"]]
    if cfg["mode"] == "S":
        u = us[0]
        ev += [("get", u), ("has", u)]
        for d in range(cfg["dirs"]):
            for v in ("A", "B", "X"):
                ev.append(("write", d, u, v))
            for v in ("A", "B"):
                ev.append(("write_old", d, u, v))
            if cfg.get("frac"):
                # saved half a second after the clock reading (mtimes carry a fractional part; the clock's steps stay whole)
                for v in ("A", "B"):
                    ev.append(("write_frac", d, u, v))
            ev.append(("delete", d, u))
            if cfg.get("unreadable"):
                ev.append(("unreadable", d, u))
        ev += [("put_string", u, "A"), ("put_string", u, "B"), ("put_template", u, "A")]
    else:
        for u in us:
            ev.append(("get", u))
        ev.append(("has", us[0]))
        ev += [("write", 0, us[0], "B"), ("delete", 0, us[0]), ("write", 0, us[1], "X")]
        ev += [("put_string", us[0], "A"), ("put_string", us[1], "B"), ("put_template", us[-1], "A")]
    return ev


_PROC = {}


def _proc_root():
    """one scratch tree per worker process, reused by every world (emptied on close)"""
    if _PROC.get("pid") != os.getpid():
        _PROC.clear()
        _PROC["pid"] = os.getpid()
    r = _PROC.get("root")
    if r is None or not os.path.isdir(r):
        r = core.scratch_dir("c14-")
        for d in ("d0", "d1", "d2", "mods"):
            os.mkdir(os.path.join(r, d))
        _PROC["root"] = r
    return r


def _install_compile_memo(sm, clock):
    """harness-side speed-up: identical (text, uri, filename, clock) compile to identical module source,
    so lexing/codegen/compile() results are memoised per worker process (this check is about the lookup)."""
    from mako import template as mtemplate

    memo = _PROC.setdefault("memo", {})
    cmemo = _PROC.setdefault("cmemo", {})
    real_compile = mtemplate._compile

    def _compile(template, text, filename, generate_magic_comment):
        k = (text, filename, template.uri, template.module_id, generate_magic_comment, clock.now)
        r = memo.get(k)
        if r is None:
            r = memo[k] = real_compile(template, text, filename, generate_magic_comment)
        return r

    def compile_(source, name, mode, *a, **kw):
        k = (source, name, mode)
        r = cmemo.get(k)
        if r is None:
            r = cmemo[k] = compile(source, name, mode, *a, **kw)
        return r

    sm.set(mtemplate, "_compile", _compile)
    sm.set(mtemplate, "compile", compile_)


class World:
    def __init__(self, cfg):
        from mako import codegen, lookup as mlookup, util as mutil, template as mtemplate

        self.cfg = cfg
        self.root = _proc_root()
        self.dirs = [os.path.join(self.root, "d%d" % d) for d in range(cfg["dirs"])]
        self.moddir = os.path.join(self.root, "mods") if cfg["moddir"] else None
        self.clock = seams.SimClock(1000.25 if cfg.get("frac") else 1000.0)
        self.timer = seams.LogicalTimer()
        self.seams = seams.Seams()
        import mako.cache, mako.runtime  # noqa: loaded before the clocks are taken over
        seams.own_clocks(self.seams, self.clock, self.timer)
        mtemplate.compile = compile  # make the module global exist so that it can be rebound and restored
        _install_compile_memo(self.seams, self.clock)
        self.constructions = 0
        world = self
        RealTemplate = mtemplate.Template

        def counting_template(*a, **k):
            world.constructions += 1
            return RealTemplate(*a, **k)

        self.RealTemplate = RealTemplate
        self.seams.set(mlookup, "Template", counting_template)
        # module files get the simulated clock as mtime (real wall time would dominate)
        real_move = shutil.move

        def move(src, dst, *a, **k):
            r = real_move(src, dst, *a, **k)
            os.utime(dst, (world.clock.now, world.clock.now))
            return r

        self.seams.set(mtemplate, "shutil", seams.Forward(shutil, {"move": move}))
        self.unreadable = set()
        real_read = mutil.read_file

        def read_file(path, mode="rb"):
            if os.path.abspath(path) in world.unreadable:
                raise PermissionError(13, "Permission denied (injected)", path)
            return real_read(path, mode)

        self.seams.set(mutil, "read_file", read_file)
        self.lookup = mlookup.TemplateLookup(
            directories=self.dirs,
            filesystem_checks=cfg["fs_checks"],
            collection_size=cfg["size"],
            module_directory=self.moddir,
        )
        # model
        self.files = {}  # (d,u) -> (version, mtime)
        self.cache = {}  # u -> dict(kind, version, compiled, dir, obj, src, valid)
        self.recency = {}  # u -> [lo, hi] logical fetch time interval
        self.t = 0
        self.lost_put = set()
        self.ghost = {}  # u -> set of directories a load of u was ever attempted from (see key())
        self.moddisk = {}  # u -> dict(version, dir, compiled): the module file an earlier compile left (module_directory only)
        for ev in initial_events(cfg):
            self.step(ev)
        self.t = 0

    def close(self):
        self.seams.restore()
        for d in ("d0", "d1", "d2", "mods"):
            p = os.path.join(self.root, d)
            for e in os.scandir(p):
                if e.is_dir(follow_symlinks=False):
                    shutil.rmtree(e.path, ignore_errors=True)
                else:
                    os.unlink(e.path)

    # ---- helpers
    def path(self, d, u):
        return os.path.join(self.dirs[d], u)

    def sp(self, u):
        """the URI as the caller spells it (the model is indifferent to the spelling)"""
        return self.cfg.get("spell", "") + u

    def _impl_keys(self):
        pre = self.cfg.get("spell", "")
        return {k[len(pre):] if pre and str(k).startswith(pre) else k for k in dict.keys(self.lookup._collection)}

    # ---- events
    def step(self, ev):
        """returns (outcome, viols, stop)"""
        from mako import exceptions

        self.t += 1
        viols = []
        kind = ev[0]
        out = kind
        pre_keys = set(self.cache)
        failed_uri = None
        if kind == "tick":
            self.clock.now += 1.0
        elif kind in ("write", "write_old", "write_frac"):
            _, d, u, v = ev
            mt = self.clock.now if kind == "write" else self.clock.now + 0.5 if kind == "write_frac" else self.clock.now - 2
            with open(self.path(d, u), "w") as f:
                f.write(content(d, u, v))
            os.utime(self.path(d, u), (mt, mt))
            self.files[(d, u)] = (v, mt)
            self.unreadable.discard(os.path.abspath(self.path(d, u)))
        elif kind == "delete":
            _, d, u = ev
            if (d, u) in self.files:
                os.unlink(self.path(d, u))
                del self.files[(d, u)]
            self.unreadable.discard(os.path.abspath(self.path(d, u)))
        elif kind == "unreadable":
            _, d, u = ev
            if (d, u) in self.files:
                self.unreadable.add(os.path.abspath(self.path(d, u)))
                v, mt = self.files[(d, u)]
                self.files[(d, u)] = ("U:" + v.split(":")[-1], mt)
        elif kind in ("put_string", "put_template"):
            _, u, v = ev
            c0 = self.constructions
            if kind == "put_string":
                self.lookup.put_string(self.sp(u), put_content(u, v))
                obj = dict.get(self.lookup._collection, self.sp(u))
                obj = getattr(obj, "value", obj) if self.cfg["size"] != -1 else obj
                if self.constructions - c0 != 1:
                    viols.append(("put:constructions", "put_string constructs one Template", 1, self.constructions - c0))
            else:
                obj = self.RealTemplate(put_content(u, v), uri=self.sp(u), lookup=self.lookup)
                self.lookup.put_template(self.sp(u), obj)
            new = u not in self.cache
            self.cache[u] = {"kind": "put", "version": v, "obj": obj}
            if new:
                self.recency[u] = [float("-inf"), self.t]
            else:
                self.recency[u][1] = self.t
            self.lost_put.discard(u)
        elif kind in ("get", "has"):
            out, failed_uri = self._get(ev, viols, exceptions)
        # ---- LRU observation after every event
        self._observe_cache(viols, pre_keys, failed_uri)
        return out, viols

    def _search(self, u):
        for d in range(self.cfg["dirs"]):
            if (d, u) in self.files:
                return d
        return None

    def _load_alts(self, d, u):
        """allowed outcomes of compiling (d,u) now.  With a module directory the module file of an earlier
        compile is a second, persistent cache: it may be served while the source's mtime is less than one
        whole second after that compile (the same freshness rule)."""
        v, mt = self.files[(d, u)]
        if v == "X":
            alts = [("compile-exc", d)]
        elif v.startswith("U:"):
            alts = [("read-exc", d)]
        else:
            alts = [("fresh", d, v)]
        md = self.moddisk.get(u)
        if md is not None and mt < md["compiled"] + 1:
            # (the module may stem from the file of another directory: the template then stands for (d, u)
            # while it renders what was compiled from (md["dir"], u))
            alts.append(("stale-mod", md["dir"], md["version"], md["compiled"], d))
        return alts

    def _get(self, ev, viols, exceptions):
        kind, u = ev
        c0 = self.constructions
        try:
            if kind == "get":
                res = self.lookup.get_template(self.sp(u))
            else:
                res = self.lookup.has_template(self.sp(u))
            obs = ("value", res)
        except exceptions.TopLevelLookupException as e:
            obs = ("toplevel", e)
        except exceptions.TemplateLookupException as e:
            obs = ("lookup-exc", e)
        except (exceptions.SyntaxException, exceptions.CompileException) as e:
            obs = ("compile-exc", e)
        except OSError as e:
            obs = ("oserror", e)
        except BaseException as e:  # noqa
            obs = ("other", e)
        ncons = self.constructions - c0
        # ---- model: allowed alternatives
        alts = []
        e = self.cache.get(u)
        lost = u in self.lost_put
        if e is not None:
            if e["kind"] == "put" or not self.cfg["fs_checks"]:
                alts.append(("same",))
            else:
                f = self.files.get((e["dir"], u))
                if f is None:
                    alts.append(("vanished",))
                else:
                    if f[1] >= e["compiled"] + 1:
                        alts.extend(self._load_alts(e["dir"], u))
                    elif f == e["valid"]:
                        alts.append(("same",))
                    else:
                        alts.append(("same",))
                        alts.extend(self._load_alts(e["dir"], u))
        else:
            d = self._search(u)
            if d is None:
                alts.append(("notfound",))
            else:
                alts.extend(self._load_alts(d, u))
        # ---- match the observation
        matched = None
        detail = None
        for a in alts:
            if a[0] == "same" and obs[0] == "value":
                if kind == "has":
                    ok = obs[1] is True
                else:
                    ok = obs[1] is e["obj"]
                if ok and ncons == 0:
                    matched = a
                    break
            elif a[0] in ("fresh", "stale-mod") and obs[0] == "value":
                if kind == "has":
                    ok = obs[1] is True
                    tobj = dict.get(self.lookup._collection, self.sp(u))
                    tobj = getattr(tobj, "value", tobj) if self.cfg["size"] != -1 else tobj
                else:
                    ok = isinstance(obs[1], self.RealTemplate) and (e is None or obs[1] is not e.get("obj"))
                    tobj = obs[1]
                stamp = getattr(getattr(tobj, "module", None), "_modified_time", None)
                want_stamp = self.clock.now if a[0] == "fresh" else a[3]
                if ok and ncons == 1 and stamp == want_stamp and _render_of(tobj) == marker(a[1], u, a[2]):
                    matched = a
                    break
            elif a[0] == "vanished" and obs[0] in ("lookup-exc", "toplevel") and kind == "get":
                matched = a
                break
            elif a[0] == "vanished" and kind == "has" and obs[0] == "value" and obs[1] is False:
                matched = a
                break
            elif a[0] == "notfound" and kind == "get" and obs[0] == "toplevel":
                matched = a
                break
            elif a[0] == "notfound" and kind == "has" and obs[0] == "value" and obs[1] is False:
                matched = a
                break
            elif a[0] == "compile-exc" and obs[0] == "compile-exc":
                matched = a
                break
            elif a[0] == "read-exc" and obs[0] in ("oserror", "lookup-exc"):
                matched = a
                break
            elif a[0] == "read-exc" and kind == "has" and obs[0] == "value" and obs[1] is False:
                matched = a
                break
        failed_uri = None
        if lost:
            # an evicted put_* entry: "eviction never changes what a lookup returns" still demands the
            # stored entry.  recorded as its own finding; afterwards the model follows the implementation.
            viols.append(
                (
                    "evicted-put-entry-lost",
                    "eviction never changes what a lookup returns (put_string/put_template entry)",
                    "the entry stored under %r" % u,
                    "%s %s" % (obs[0], _desc(obs[1])),
                )
            )
        if matched is None:
            viols.append(
                (
                    "get:%s->%s" % ("|".join(a[0] for a in alts), obs[0] + (":cons=%d" % ncons)),
                    "get/has outcome not among the model's allowed outcomes",
                    [list(map(str, a)) for a in alts],
                    "%s %s constructions=%d" % (obs[0], _desc(obs[1]), ncons),
                )
            )
            return "mismatch", "STOP"
        # ---- update the model from the matched alternative
        a = matched
        if a[0] in ("fresh", "stale-mod", "compile-exc", "read-exc"):
            self.ghost.setdefault(u, set()).add(a[1])
        self.lost_put.discard(u)
        if a[0] == "same":
            if e["kind"] == "file":
                f = self.files.get((e["dir"], u))
                e["valid"] = f
            self.recency[u] = [self.t, self.t]
            exp_marker = put_marker(u, e["version"]) if e["kind"] == "put" else marker(e.get("mdir", e["dir"]), u, e["version"])
            obj = e["obj"]
        elif a[0] in ("fresh", "stale-mod"):
            d, v = a[1], a[2]
            sd = a[4] if a[0] == "stale-mod" else d  # the directory whose file the template stands for
            compiled_at = self.clock.now if a[0] == "fresh" else a[3]
            if a[0] == "fresh" and self.cfg["moddir"]:
                self.moddisk[u] = {"version": v, "dir": d, "compiled": self.clock.now}
            obj = obs[1] if kind == "get" else dict.get(self.lookup._collection, self.sp(u))
            if kind == "has":
                obj = getattr(obj, "value", obj) if self.cfg["size"] != -1 else obj
            self.cache[u] = {
                "kind": "file",
                "version": v,
                "compiled": compiled_at,
                "dir": sd,
                "mdir": d,
                "obj": obj,
                "valid": self.files[(sd, u)],
            }
            self.recency[u] = [self.t, self.t]
            exp_marker = marker(d, u, v)
        else:
            # failed / absent: the lookup must behave as if the call had not happened
            self.cache.pop(u, None)
            self.recency.pop(u, None)
            failed_uri = u
            return a[0], failed_uri
        # invariant: the template renders the version the model says it holds
        if obj is not None:
            try:
                got = obj.render(**RARGS) + "#" + obj.get_def("f").render(**RARGS)
            except BaseException as ex:  # noqa
                got = "EXC %s" % type(ex).__name__
            if got != exp_marker:
                viols.append(("render:%s" % a[0], "returned template renders the version the model holds", exp_marker, got))
                return "render-mismatch", "STOP"
            if kind == "get" and (obj.lookup is not self.lookup or obj.module is None or obj.callable_ is None):
                viols.append(("incomplete-template", "returned Template is completely constructed", "lookup/module/callable_ set", "missing"))
        return a[0], failed_uri

    def _observe_cache(self, viols, pre_keys, failed_uri):
        n = self.cfg["size"]
        impl = self._impl_keys()
        model = set(self.cache)
        if n != -1:
            if len(impl) > 1.5 * n:
                viols.append(("lru:bound", "cache holds at most 1.5n templates", "<= %s" % (1.5 * n), len(impl)))
        evicted = model - impl
        if evicted:
            if n == -1:
                viols.append(("lru:evict-unbounded", "an unbounded lookup never evicts", sorted(model), sorted(impl)))
            else:
                if len(model) <= n:
                    viols.append(("lru:evict-early", "no eviction while at most n templates are held", sorted(model), sorted(impl)))
                survivors = model & impl
                for x in evicted:
                    for s in survivors:
                        if self.recency[x][0] > self.recency[s][1]:
                            viols.append(
                                (
                                    "lru:order",
                                    "every evicted entry was fetched less recently than every survivor",
                                    "evict older than %r" % s,
                                    "evicted %r (fetched later)" % x,
                                )
                            )
            for x in evicted:
                if self.cache[x]["kind"] == "put":
                    self.lost_put.add(x)
                del self.cache[x]
                self.recency.pop(x, None)
        extra = impl - model
        if extra - ({failed_uri} if failed_uri else set()):
            # entries the model cannot explain (e.g. a failed compile left in the cache) are
            # only an observation; behaviourally they show up in later gets
            pass

    # ---- canonical key
    def key(self):
        times = {self.clock.now}
        for v, mt in self.files.values():
            times.add(mt)
        for e in self.cache.values():
            if e["kind"] == "file":
                times.add(e["compiled"])
                if e["valid"]:
                    times.add(e["valid"][1])
        for md in self.moddisk.values():
            times.add(md["compiled"])
        ts = sorted(times)
        m = {}
        acc = 0
        prev = None
        for t in ts:
            if prev is not None:
                acc += min(GAP_CAP, t - prev)
            m[t] = acc
            prev = t
        top = m[self.clock.now]
        rel = {t: top - x for t, x in m.items()}
        files = tuple(sorted((k, v, rel[mt]) for k, (v, mt) in self.files.items()))
        cache = []
        for u, e in sorted(self.cache.items()):
            if e["kind"] == "put":
                cache.append((u, "put", e["version"]))
            else:
                val = e["valid"]
                cache.append((u, "file", e["version"], e["dir"], e.get("mdir", e["dir"]), rel[e["compiled"]], (val[0], rel[val[1]]) if val else None))
        # recency: order of the interval endpoints
        pts = sorted({p for iv in self.recency.values() for p in iv})
        rk = {p: i for i, p in enumerate(pts)}
        rec = tuple(sorted((u, rk[iv[0]], rk[iv[1]]) for u, iv in self.recency.items())) if self.cfg["size"] != -1 else ()
        mods = tuple(sorted((u, md["version"], md["dir"], rel[md["compiled"]]) for u, md in self.moddisk.items()))
        # ghost component: which directories each URI was ever loaded (or failed to load) from.  The model does not
        # use it - a failed or evicted load must leave no trace - but keeping it in the key stops the search from
        # merging "never resolved" with "resolved before, uncached again", which is where a memoised resolution hides.
        ghost = tuple(sorted((u, tuple(sorted(ds))) for u, ds in self.ghost.items())) if self.cfg["dirs"] > 1 else ()
        # what the real lookup holds, observed from outside (part of the key, never an oracle): if an
        # implementation leaves the lookup in another state than the model expects without a visible symptom yet,
        # the search continues from that state instead of merging it with the one the model believes in
        real = (
            tuple(sorted(map(str, dict.keys(self.lookup._collection)))),
            tuple(sorted(map(str, dict.keys(getattr(self.lookup, "_uri_cache", {}))))),
        )
        return (files, tuple(cache), rec, tuple(sorted(self.lost_put)), mods, ghost, real)


def _render_of(t):
    try:
        return t.render(**RARGS) + "#" + t.get_def("f").render(**RARGS)
    except BaseException as ex:  # noqa
        return "EXC %s" % type(ex).__name__


def _desc(x):
    if isinstance(x, BaseException):
        return "%s(%s)" % (type(x).__name__, str(x)[:80])
    return type(x).__name__ if not isinstance(x, bool) else str(x)


def build(cfg, hist):
    w = World(cfg)
    try:
        for ev in hist:
            w.step(tuple(ev))
    except BaseException:
        w.close()
        raise
    return w


def initial_key(cfg):
    w = World(cfg)
    try:
        return w.key()
    finally:
        w.close()


def expand(cfg, hist):
    out = []
    for ev in events(cfg):
        w = build(cfg, hist)
        try:
            outcome, viols = w.step(ev)
            stop = any(True for v in viols) and outcome in ("mismatch", "render-mismatch")
            out.append(
                {
                    "ev": list(ev),
                    "key": w.key(),
                    "outcome": "%s:%s" % (ev[0], outcome),
                    "viol": viols,
                    "nontrivial": bool(w.cache),
                    "steps": len(hist) + 1,
                    "stop": stop,
                }
            )
        finally:
            w.close()
    return out


# --------------------------------------------------------------------------
# alias family (plain enumeration, not BFS): a file-backed Template object registered by put_template under a URI that
# is not its own ("p" for the file "u").  It is served under "p"; with filesystem_checks it follows its source file
# like any other entry (fresh after a modification one whole second later, the very same object while nothing changes),
# without them it keeps being returned.  All histories of <= 4 events after the registration.

ALIAS_EVENTS = ["tick", "write", "get_p", "get_u", "has_p"]


def alias_cases(tier):
    import itertools

    n = 4 if tier == "quick" else 5
    for fs in (True, False):
        for size in (-1, 4):
            for moddir in (False, True):
                for how in ("template-filename", "lookup-get"):
                    cfg = {"mode": "S", "dirs": 1, "uris": 1, "fs_checks": fs, "size": size, "moddir": moddir}
                    for k in range(1, n + 1):
                        for seq in itertools.product(range(len(ALIAS_EVENTS)), repeat=k):
                            if ALIAS_EVENTS[seq[-1]] not in ("get_p", "has_p"):
                                continue  # a history is judged at its gets
                            yield {"kind": "alias", "cfg": cfg, "how": how, "seq": [ALIAS_EVENTS[i] for i in seq]}


def run_alias(case, st):
    from mako import exceptions

    cfg, how = case["cfg"], case["how"]
    w = World(cfg)
    viol = None
    try:
        w.step(("write", 0, "u", "A"))
        w.step(("tick",))
        w.step(("tick",))
        if how == "lookup-get":
            obj = w.lookup.get_template("u")
        else:
            obj = w.RealTemplate(filename=w.path(0, "u"), lookup=w.lookup, uri="u", module_directory=w.moddir)
        w.lookup.put_template("p", obj)
        cur = "A"  # version on disk
        ent = {"obj": obj, "version": "A", "compiled": w.clock.now, "dirty": None}  # dirty: mtime of a write since the compile
        nxt = "B"
        for i, ev in enumerate(case["seq"]):
            st.transitions += 1
            if ev == "tick":
                w.step(("tick",))
            elif ev == "write":
                w.step(("write", 0, "u", nxt))
                cur, nxt = nxt, cur
                ent["dirty"] = w.clock.now
            elif ev == "get_u":
                try:
                    w.lookup.get_template("u")
                except Exception as e:  # noqa
                    viol = ("alias:get of the file's own uri raises", "get_template('u') succeeds", "template", "%s: %s" % (type(e).__name__, e))
                    break
            if ev == "has_p":
                st.evaluations += 1
                try:
                    r = w.lookup.has_template("p")
                except Exception as e:  # noqa
                    r = "%s: %s" % (type(e).__name__, e)
                if r is not True:
                    viol = ("alias:has_template", "a put_template entry is served under its URI (has_template True)", True, r)
                    break
                # has_template is a fetch: it may have re-loaded the entry; the fetch below (same instant) shows which
                # template the lookup holds now and is judged like any other
            if ev in ("get_p", "has_p"):
                st.evaluations += 1
                try:
                    t = w.lookup.get_template("p")
                except Exception as e:  # noqa
                    viol = ("alias:get raises %s" % type(e).__name__, "a put_template entry is served under its URI", "template", "%s: %s" % (type(e).__name__, str(e)[:120]))
                    break
                got = _render_of(t)
                must_fresh = cfg["fs_checks"] and ent["dirty"] is not None and ent["dirty"] >= ent["compiled"] + 1
                may_fresh = cfg["fs_checks"] and ent["dirty"] is not None
                if must_fresh or (may_fresh and t is not ent["obj"]):
                    st.oracles["alias:fresh"] += 1
                    if got != marker(0, "u", cur):
                        viol = ("alias:stale" if t is ent["obj"] or got == marker(0, "u", ent["version"]) else "alias:wrong content", "the entry reflects the current content of its source file (modified one whole second after the compile)", marker(0, "u", cur), got)
                        break
                    ent = {"obj": t, "version": cur, "compiled": w.clock.now, "dirty": None}
                else:
                    st.oracles["alias:stable"] += 1
                    if t is not ent["obj"]:
                        viol = ("alias:another object", "while nothing on disk changes (or without filesystem checks) the very same Template object is returned", "same object", got)
                        break
                    if got != marker(0, "u", ent["version"]):
                        viol = ("alias:wrong content", "the entry renders the version it was compiled from", marker(0, "u", ent["version"]), got)
                        break
    finally:
        w.close()
    st.states += 1
    st.traces += 1
    st.nontrivial += 1
    st.outcomes[("alias", "ok" if viol is None else viol[0])] += 1
    if viol is not None:
        st.violation(viol[0], case, viol[1], expected=viol[2], observed=viol[3])


def plan(tier, seed):
    cases = list(alias_cases(tier))
    n = core.NPROC * 2
    return [{"kind": "alias", "cases": cases[i::n]} for i in range(n)]


def run_job(job):
    st = Stats()
    for c in job["cases"]:
        run_alias(c, st)
    st.extra["alias_histories"] = len(job["cases"])
    return st


def post(tier, seed, st):
    for budget, cfgs in groups(tier):
        bfs.run_bfs("mc.props.c14", cfgs, st, max_depth=99, max_states=150000, deadline_s=budget, label=cfg_label)


def replay(case):
    if case.get("kind") == "alias":
        st = Stats()
        run_alias(case, st)
        if st.violations:
            return False, "reproduced: %r" % (st.violations[0]["observed"],)
        return True, "holds"
    cfg = case["cfg"]
    hist = [tuple(e) for e in case["hist"]]
    w = build(cfg, hist[:-1])
    try:
        outcome, viols = w.step(hist[-1])
    finally:
        w.close()
    if viols:
        return False, "reproduced: %r" % (viols[0],)
    return True, "holds (%s)" % outcome
