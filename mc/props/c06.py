"""C06 - inheritance chains dispatch self/next/parent correctly; blocks render once.

Engine E1.  Every chain of the bounded grids of mc/c06_ir.py (levels choose independently, per member name, one
of absent / def / def calling parent / def calling next / named block / named block calling parent / block nested
in the other block; body chaining; <%page> arguments; anonymous blocks; module attributes; static or dynamic
inherit target) is printed into Mako templates, rendered by the real Template/TemplateLookup/runtime, and compared
with a reference interpreter that implements the class-chain reading of the property statement and never sees
Mako's text.  A second, small grid places named blocks at every pair of positions of one template and checks
the compile-time rejections.
"""

import collections
import hashlib
import json
import os
import sys
import time

from mc import core
from mc import c06_env
from mc import c06_ir as ir
from mc.core import Stats

PROPERTY = "C06"
LEVEL = "model_checking"
ENGINE = "E1"
TECHNIQUE = (
    "bounded exhaustive enumeration of inheritance chains (every level chooses its members independently), each "
    "rendered by the real runtime and compared with a class-chain reference interpreter; position-pair grid for "
    "the compile-time block rules"
)
RULE = (
    "A case is a chain of L level specs (m1, m2, nesting, attribute, page args, anonymous blocks, inherit mode, "
    "body chaining); a grid is the full product of the per-level option lists minus chains that use `next` in the "
    "most-derived / `parent` in the base-most template; canonical form = the tuple of (uri, printed template text) pairs "
    "(de-duplicated per grid; grids differ in their probe lists). Non-trivial = L >= 3, or a member name or the "
    "attribute declared at two or more levels (something is overridden). Error grid: every single position, every "
    "ordered pair of positions x same/different name, block inside block, def+block of one name, pairs of "
    "anonymous blocks; each also as the base of a two-level chain. Family J: a state is an ordered pair of consecutive "
    "renders (base x then base y) of one prefix on one lookup."
)
LEVEL_TEXT = (
    "Every chain of the stated grids is executed on the real code and compared character by character with the "
    "reference output (or error class): quick = all chains of length <= 2 over two member names (6 kinds each, "
    "nesting), length 3 with the second name restricted to 4 kinds, x 3 body-chaining choices per non-leaf level, "
    "length 4 over one member name, plus the page-argument / anonymous block / attribute / dynamic-inherit grids up "
    "to length 3-4, inherit targets read from self.attr (length <= 4) and targets that evaluate to None at any "
    "non-last level (length <= 3); thorough = length <= 3 over two full member names, length 4 over two (uniform chaining), length "
    "4-5 over one, the other grids one level longer. Complete within those bounds; no sampling."
)
LEVEL_NOTE = (
    "Trusted: CPython eval/exec, the ~200-line reference interpreter in mc/c06_ir.py (appendix A5 of DESIGN.md). "
    "Templates of one level text are compiled once per worker and shared by all chains that contain that level "
    "(put_template into a real TemplateLookup); chain state lives in the per-render context."
)
ASSUMPTIONS = [
    "`next` in the most-derived template and `parent` in the base-most one are not defined by the statement: never generated",
    "a dynamic inherit target that evaluates to None means 'no parent' at any level (Mako's behaviour for the rendered template, test_inheritance.test_dynamic; the statement's 'base-most ancestor' is then that level); templates behind it are never reached",
    "Template.get_def(name).render*() on a template that inherits: the def runs as called on that template (self = local = the template, parent = its inherit target, no next), the chain starting at that template; what the context holds under 'parent'/'next' is read with Context.get (documented) through the helper U",
    "a cached def / block is stored per (template it is written in, member name) (DESIGN appendix A7; Template.cache documents one cache per template): its first output is written again by later calls through any of self/local/parent/next, in the same render and in the next render on the same lookup; an exception while it is created stores nothing",
    "<%include>: the included template is rendered as a chain of its own with no page arguments and nothing of the includer's self/local/parent/next (DESIGN appendix A6)",
    "Template objects are shared by the chains a worker renders; a mismatch is re-run on fresh objects: if it disappears there it is reported as history-dependent, with the earlier chain that provokes it as a replayable prelude when one is found among the last 400 chains (else without replay); after 12 analysed mismatches per job the rest is only counted",
    "family G: a relative inherit target is joined to the directory of the template that contains the tag and is not normalised (DESIGN appendix A6, TemplateLookup.adjust_uri's documented behaviour); templates are registered with put_template under exactly that uri, stale registrations of earlier chains are removed from the lookup's collection before each render; uri resolution proper (all mechanisms, missing files) belongs to C07",
    "an inherit target read from context['self'].attr.X sees the levels attached so far, so X is declared at the same or a more-derived level; X declared further toward the base is not generated",
    "an unresolvable member is an AttributeError (documented: hasattr/getattr on namespaces); the probes P/A catch exactly that",
    "a reference evaluation that nests more render callables than the program has (members + bodies) repeats one of them and, callables being stateless, never ends; Mako must then raise RecursionError (the interpreter limit is lowered, during the render only, to current depth + 8 frames per callable + 40)",
    "a top-level def and a block of one name in one template must be a CompileException (documented with the uniqueness rule); a nested def of that name: CompileException or acceptance both allowed",
    "DONT_CARE region: a named-block position that dispatches to a def whose signature takes no keyword arguments while the page has keyword arguments (the position forwards **pageargs; an override with an incompatible signature is the template author's error): only 'terminates' is demanded there. Family A declares its defs (**kw), so the def-overrides-block dispatch itself is checked",
    "member names avoid Namespace's own attributes (name, uri, template, context, module, filename, cache, attr, inherits, callables), which shadow members by construction",
    "level templates are compiled once per (uri, text) and re-used across chains; the lookup is a real TemplateLookup filled with put_template (lookup behaviour itself belongs to C07/C14)",
    "templates are printed on one line, except that every anonymous block of the chain grids starts on a line of its own (newline handling belongs to C01; anonymous blocks sharing a line are the `anon2` cases of the error grid, where commit f98db69 repaired a defect); the seed only picks member/attribute names, filler characters and uri spelling",
]
BOUNDS = {
    "quick": {
        "A": "L<=2: two member names x 6 kinds + nesting; L=3: first name 6 kinds, second name {absent,def,block,block calling parent} + nesting; chaining {none,next.body(),self.body()} per non-leaf level; defs declared (**kw)",
        "B": "L=4, one member name x 6 kinds, same chaining",
        "C": "L<=3, member {absent,def,block} x page args x anonymous blocks x chaining {none,next,self,next(z=),self(z=)}",
        "D": "L<=4, member {absent,def} x module attribute x static/dynamic inherit x chaining {none,next}",
        "E": "L=2..4, module attribute x inherit target {static, context['upN'], context['self'].attr.<layN> declared at any level 0..i} x chaining {none,next}; every level declares an attribute of its own, read through self.attr and local.attr in every body",
        "F": "L=2..3, member {absent,def,block} x inherit target {static, context['upN'], context.get('upN') absent, bound to None} at every non-last level x chaining {none,next,self}",
        "H": "L<=4, the attribute at every level absent / string / None / 0 / '' / False / [], every body chained, read through self/local/parent/next .attr",
        "I": "L<=3, member {absent, def, def calling parent} x attribute x chaining {none,next}; every level declares def card() (local.uri, self.uri, uri of context's parent/next, local/self/parent member, self/local attribute); whole page + get_def('card') and get_def(member) of every level by render_unicode() and render_context()",
        "direct": "a non-leaf template whose inherit expression consults local (module / attr / uri) x chain depth 3-4 x leaf value; an error_handler rendering another inheriting template on the Context it was given: 3 layout relations x 3 raise sites x depth 2-3",
        "J": "histories on one lookup: prefix [leaf] (two member names, 5 kinds each) or [leaf, mid] (one member name, chaining {none,next}) whose last level inherits from ${context['upN']}; 9 bases (each member absent/def/block) under uris of their own; 73 renders per prefix on one set of Template objects such that every ordered pair of distinct bases occurs once as consecutive renders; every render compared with the reference (= a fresh lookup); + 3 histories per prefix in which the inherit target of one or two renders names no template (lookup exception, later renders unaffected)",
        "L": "one lookup holding 32 chains (16 of two levels, 16 of three) whose relatively-naming level lives in /, /a, /a/b, /ab and names b.html, ab.html, bb.html or a/b.html - directory and target strings that coincide when concatenated, same target in different directories; 993 renders on one lookup such that every ordered pair of chains is consecutive once; each compared with the reference (= a fresh lookup)",
        "M": "L<=3, one member name {absent, def, cached def, cached def calling parent, block, cached block, cached block calling parent} x chaining {none,next}, read through self/local/parent/next in every body; dict cache backend (mc/c06_cache.py) emptied per case; two renders on one lookup, the reference keeping (template, name) -> first output",
        "K": "an including chain of 1 (control) or 2 levels, the <%include> in any of its bodies, and an included chain of 1 or 2 levels; one member name {absent, def, block, block calling parent} in every level of both; bodies print self/local/parent member and the uri the context holds under parent and next",
        "G": "L=3: every level in a directory of depth 0/1/2, inherit target spelled absolutely or relatively to the tag's own template (L2.html, sub/L2.html, ../L2.html, ../../site/L2.html ..), decoy templates (where the spelling would lead from any other level) on/off, member {absent,def}, chaining {none,next}; L=4: the same with member def and next.body() everywhere",
        "errors": "11 positions: singles, ordered pairs x same/different name, block-in-block, def+block, anonymous pairs (one line / own lines); standalone, as base of a 2-chain, and as base whose leaf overrides the block",
    },
    "thorough": {
        "A": "L<=3: two member names x 6 kinds + nesting, full chaining; L=4: the same with uniform chaining (all none / all next / all self)",
        "B": "L=4 and L=5, one member name, full chaining",
        "C": "L<=4",
        "D": "L<=5",
        "E": "L<=5",
        "F": "L<=4",
        "H": "L<=5",
        "I": "L<=4",
        "J": "as quick, the [leaf, mid] prefixes also with a second member name (4 patterns)",
        "L": "as quick",
        "M": "L<=4",
        "K": "adds including chains of 3 levels x included chains of 1..3 levels",
        "G": "L=3 and L=4, both with member {absent,def} and chaining {none,next}",
        "errors": "as quick",
    },
}

# --------------------------------------------------------------------------
# running programs on mako

FRAMES_PER_CALLABLE = 8


def _stack_depth():
    f = sys._getframe()
    n = 0
    while f is not None:
        n += 1
        f = f.f_back
    return n


class Runner:
    """one per worker process: a real TemplateLookup, templates cached per (uri, text)"""

    def __init__(self):
        from mako.lookup import TemplateLookup

        from mc import c06_cache

        c06_cache.register()
        self.lookup = TemplateLookup(cache_impl=c06_cache.NAME)
        self.cache = {}
        self.registered = set()
        self.compiles = 0

    def template(self, uri, text):
        from mako.template import Template

        key = (uri, text)
        t = self.cache.get(key)
        if t is None:
            t = Template(text, uri=uri, lookup=self.lookup, cache_impl=self.lookup.template_args["cache_impl"])
            self.cache[key] = t
            self.compiles += 1
        return t

    def render(self, texts, main, ctx, callables=40):
        """('out', text) | ('err', 'recursion') | ('err', 'missing') | ('exc', 'Class: message')

        `callables` = number of distinct render callables of the program: a finite evaluation nests at most that
        many of them, each a handful of Python frames, so the interpreter limit is lowered to make the infinite
        ones cheap (restored afterwards)."""
        try:
            # templates of earlier chains must not stay reachable (a wrongly resolved target has to miss or hit a decoy
            # of *this* program); the collection of an unbounded TemplateLookup is a plain dict
            for uri in self.registered - set(texts):
                self.lookup._collection.pop(uri, None)
            self.registered = set(texts)
            for uri, text in texts.items():
                self.lookup.put_template(uri, self.template(uri, text))
            t = self.lookup.get_template(main)
        except Exception as e:  # noqa
            return ("exc", "compile %s: %s" % (type(e).__name__, str(e)[:200]))
        old = sys.getrecursionlimit()
        sys.setrecursionlimit(_stack_depth() + FRAMES_PER_CALLABLE * (callables + 2) + 40)
        try:
            return ("out", t.render_unicode(**ctx))
        except RecursionError:
            return ("err", "recursion")
        except AttributeError:
            return ("err", "missing")
        except Exception as e:  # noqa
            return ("exc", "%s: %s" % (type(e).__name__, str(e)[:200]))
        finally:
            sys.setrecursionlimit(old)


def _render_def(R, texts, main, ctx, name, via, callables):
    """Template.get_def(name) of template `main`, rendered on its own"""
    try:
        for uri in R.registered - set(texts):
            R.lookup._collection.pop(uri, None)
        R.registered = set(texts)
        for uri, text in texts.items():
            R.lookup.put_template(uri, R.template(uri, text))
        d = R.lookup.get_template(main).get_def(name)
    except Exception as e:  # noqa
        return ("exc", "compile %s: %s" % (type(e).__name__, str(e)[:200]))
    old = sys.getrecursionlimit()
    sys.setrecursionlimit(_stack_depth() + FRAMES_PER_CALLABLE * (callables + 2) + 40)
    try:
        if via == "render_unicode":
            return ("out", d.render_unicode(**ctx))
        import io

        from mako.runtime import Context

        buf = io.StringIO()
        d.render_context(Context(buf, **ctx))
        return ("out", buf.getvalue())
    except RecursionError:
        return ("err", "recursion")
    except AttributeError:
        return ("err", "missing")
    except Exception as e:  # noqa
        return ("exc", "%s: %s" % (type(e).__name__, str(e)[:200]))
    finally:
        sys.setrecursionlimit(old)


_runner = None
_runner_pid = None
_replay_runner = None


def runner():
    global _runner, _runner_pid
    if _runner is None or _runner_pid != os.getpid():
        _runner = Runner()
        _runner_pid = os.getpid()
    return _runner


# --------------------------------------------------------------------------
# signatures


def _first_diff(exp, obs):
    i = 0
    while i < min(len(exp), len(obs)) and exp[i] == obs[i]:
        i += 1
    return i


def _segment(s, i):
    """the probe / marker the position i of an output lies in: text back to the previous space or bracket"""
    if not s:
        return ""
    i = min(i, len(s) - 1)
    j = i
    while j > 0 and s[j - 1] not in " [|":
        j -= 1
    k = i
    while k < len(s) and s[k] not in " ]|":
        k += 1
    return s[j:k]


def chain_sig(exp, obs, al):
    """footprint: which construct's output differs (names and level numbers abstracted)"""
    import re

    def cls(r):
        if r[0] == "out":
            return "output"
        if r[0] == "err":
            return "err:" + r[1]
        return "exception " + r[1].split(":")[0]

    if exp[0] != "out" or obs[0] != "out":
        return "chain:expected %s observed %s" % (cls(exp), cls(obs))
    i = _first_diff(exp[1], obs[1])

    def norm(s):
        s = s.replace(al["n1"], "M").replace(al["n2"], "N").replace(al["attr"] + "@", "ATTR@")
        if al["fill"]:
            s = s.replace(al["fill"], "")
        return re.sub(r"\d+", "#", s)[:60]

    return "chain:diff exp=%s obs=%s" % (norm(_segment(exp[1], i)), norm(_segment(obs[1], i)))


# --------------------------------------------------------------------------
# checking one chain


def check_chain(g, chain, seed, st, R=None, twice=False):
    """g = (family, L, options, probes, def signature).  returns (ok, texts, expected, observed)"""
    fam, probes, defsig = g[0], g[3], g[4]
    if fam == "M":
        return check_cached(g, chain, seed, st, R or runner())
    al = ir.alphabet(seed)
    prog = ir.build_program(chain, al, probes, defsig)
    texts = ir.print_program(prog)
    ctx = c06_env.resolve_ctx(prog["ctx"])
    exp, ref = ir.reference(prog, ctx)
    st.oracles["reference"] += 1
    R = R or runner()
    ncall = ref.callables + ref.included_callables + (4 if ref.included_callables else 0)
    obs = R.render(texts, prog["main"], ctx, ncall)
    st.evaluations += 1
    st.traces += 1
    st.transitions += ref.steps
    kind = exp[0] if exp[0] != "err" else "err:" + exp[1]
    st.outcomes[(fam[:1], len(chain), kind, min(ref.bodies, 3), "suppressed" if ref.suppressed else "-", "overridden" if ref.overridden else "-", "dispatch" if ref.dispatch else "-")] += 1
    case = {"kind": "chain", "family": fam, "seed": seed, "chain": [list(s) for s in chain], "probes": [list(p) for p in probes], "defsig": defsig, "files": texts, "ctx": prog["ctx"]}
    if exp[0] == "dontcare":
        # universal oracle only: an answer or an ordinary exception
        st.oracles["universal"] += 1
        st.extra["dontcare_def_for_block"] = st.extra.get("dontcare_def_for_block", 0) + 1
        return True, texts, exp, obs
    ok = exp == obs
    if not ok and st.extra.get("mismatches_analysed", 0) >= MAX_ANALYSED:
        # plenty analysed in this job already (each analysis compiles fresh templates): count, do not analyse
        st.violation("chain:further mismatches, not analysed", {"kind": "unreplayable", "family": fam, "seed": seed, "chain": [list(x) for x in chain], "files": texts}, "reference: rendered output / error class differs from the class-chain model", expected=list(exp), observed=list(obs))
    elif not ok:
        st.extra["mismatches_analysed"] = st.extra.get("mismatches_analysed", 0) + 1
        # Template objects are shared by the chains of one worker: does the chain fail on objects of its own as well?
        fresh = Runner().render(texts, prog["main"], ctx, ncall)
        if fresh == exp:
            report_order_dependent(g, chain, seed, st, R, case, exp, obs, al)
        else:
            st.violation(chain_sig(exp, obs, al), case, "reference: rendered output / error class differs from the class-chain model", expected=list(exp), observed=list(obs))
    elif twice:
        # state kept between renders would show on a second render of the same Template objects
        st.oracles["rerender"] += 1
        st.evaluations += 1
        obs2 = R.render(texts, prog["main"], ctx, ncall)
        if obs2 != obs:
            ok = False
            st.violation("chain:second render differs", dict(case, twice=True), "rerender: a second render of the same templates differs from the first", expected=list(exp), observed=list(obs2))
    if any(what == "card" for _v, what in probes):
        ok = check_defs(prog, texts, ctx, chain, al, case, st, R) and ok
    HISTORY.append((g, chain))
    return ok, texts, exp, obs


MAX_ANALYSED = 12
def check_cached(g, chain, seed, st, R, analyse=True):
    """family M: the cache backend starts empty; the page is rendered twice on one lookup; the reference keeps its
    own (template, name) -> text store across the two renders"""
    from mc import c06_cache

    fam, probes, defsig = g[0], g[3], g[4]
    al = ir.alphabet(seed)
    prog = ir.build_program(chain, al, probes, defsig)
    texts = ir.print_program(prog)
    ctx = c06_env.resolve_ctx(prog["ctx"])
    c06_cache.STORE.clear()
    store = {}
    ok, exp, obs = True, None, None
    for step in (1, 2):
        exp, ref = ir.reference(prog, ctx, cache=store)
        st.oracles["reference"] += 1
        obs = R.render(texts, prog["main"], ctx, ref.callables)
        st.evaluations += 1
        st.transitions += ref.steps
        st.outcomes[("M", len(chain), step, exp[0] if exp[0] != "err" else "err:" + exp[1], "cached" if store else "-")] += 1
        if exp[0] != "dontcare" and obs != exp:
            ok = False
            break
    st.traces += 1
    c06_cache.STORE.clear()
    if not ok:
        case = {"kind": "chain", "family": fam, "seed": seed, "chain": [list(x) for x in chain], "probes": [list(p) for p in probes], "defsig": defsig, "files": texts, "ctx": prog["ctx"], "render": step}
        sig = chain_sig(exp, obs, al).replace("chain:", "cached:", 1)
        n = st.extra.get("mismatches_analysed", 0)
        st.extra["mismatches_analysed"] = n + 1
        if analyse and n < MAX_ANALYSED:
            st2 = Stats()
            check_cached(g, chain, seed, st2, Runner(), analyse=False)
            if not st2.violations:
                st.violation("history:unlocated " + sig, dict(case, kind="unreplayable"), "rerender: differs only on Template objects that earlier chains have used", expected=list(exp), observed=list(obs))
                HISTORY.append((g, chain))
                return ok, texts, exp, obs
        if analyse and n >= MAX_ANALYSED:
            st.violation("cached:further mismatches, not analysed", dict(case, kind="unreplayable"), "reference: a cached member does not answer with the first output of its own template", expected=list(exp), observed=list(obs))
        else:
            st.violation(sig, case, "reference: a cached def / block must answer with the first output of the member of the template it is written in (render %d of 2 on one lookup)" % step, expected=list(exp), observed=list(obs))
    HISTORY.append((g, chain))
    return ok, texts, exp, obs


HISTORY = collections.deque(maxlen=400)  # (grid, chain) of the chains this worker rendered, most recent last


def _plain_render(g, chain, seed, R):
    al = ir.alphabet(seed)
    prog = ir.build_program(chain, al, g[3], g[4])
    texts = ir.print_program(prog)
    ctx = c06_env.resolve_ctx(prog["ctx"])
    exp, ref = ir.reference(prog, ctx)
    return exp, R.render(texts, prog["main"], ctx, ref.callables + ref.included_callables + 4), texts


def report_order_dependent(g, chain, seed, st, R, case, exp, obs, al):
    """the chain renders correctly on Template objects of its own but not on the worker's shared ones: something
    was kept on a Template / module / lookup by an earlier render.  Look for one earlier chain (sharing a level
    template) after which it fails on fresh objects too, so that the report replays by itself."""
    mine = set(case["files"].items())
    tried = 0
    for hg, hchain in reversed(HISTORY):
        if tried >= 60:
            break
        if hg[0] == "M":
            continue
        R2 = Runner()
        _e, _o, htexts = _plain_render(hg, hchain, seed, R2)
        if not (mine & set(htexts.items())):
            continue
        tried += 1
        e2, o2, _t = _plain_render(g, chain, seed, R2)
        if o2 != e2:
            prelude = [{"kind": "chain", "family": hg[0], "seed": seed, "chain": [list(x) for x in hchain], "probes": [list(x) for x in hg[3]], "defsig": hg[4], "shared": True}]
            st.violation("history:" + chain_sig(exp, o2, al), dict(case, shared=True, prelude=prelude), "rerender: the chain renders differently after an earlier chain was rendered with the same Template objects", expected=list(exp), observed=list(o2))
            return
    # not located: still a failure of this worker (seen on its shared objects, absent on fresh ones); no replay
    st.violation("history:unlocated " + chain_sig(exp, obs, al), {"kind": "unreplayable", "family": g[0], "seed": seed, "chain": [list(x) for x in chain], "files": case["files"]}, "rerender: the chain renders differently on Template objects that earlier chains have used (no single earlier chain reproduces it)", expected=list(exp), observed=list(obs))


def check_defs(prog, texts, ctx, chain, al, case, st, R):
    """entry point Template.get_def(name): for every level j, its card() and its member def are rendered on their own,
    by render_unicode() and by render_context(); the template is then the most-derived one of the chain j..base"""
    ok = True
    uris = list(prog["files"])
    for j, spec in enumerate(chain):
        for name in ["card"] + ([al["n1"]] if spec[0] in ("d", "dp") else []):
            exp, ref = ir.reference_def(prog, ctx, uris[j], name)
            st.oracles["reference_def"] += 1
            st.transitions += ref.steps
            for via in ("render_unicode", "render_context"):
                obs = _render_def(R, texts, uris[j], ctx, name, via, ref.callables)
                st.evaluations += 1
                st.traces += 1
                st.outcomes[("I", "get_def", len(chain) - j, exp[0] if exp[0] != "err" else "err:" + exp[1], via)] += 1
                if exp[0] != "dontcare" and obs != exp:
                    ok = False
                    sig = chain_sig(exp, obs, al).replace("chain:", "get_def:", 1)
                    n = st.extra.get("mismatches_analysed", 0)
                    st.extra["mismatches_analysed"] = n + 1
                    if n >= MAX_ANALYSED or _render_def(Runner(), texts, uris[j], ctx, name, via, ref.callables) == exp:
                        # correct on Template objects of its own: something kept by earlier renders of this worker
                        st.violation("history:unlocated " + sig if n < MAX_ANALYSED else "get_def:further mismatches, not analysed", {"kind": "unreplayable", "family": case["family"], "seed": case["seed"], "chain": case["chain"], "files": texts, "entry": {"level": j, "def": name, "via": via}}, "rerender: a def rendered through Template.get_def() differs on Template objects that earlier renders have used", expected=list(exp), observed=list(obs))
                    else:
                        st.violation(sig, dict(case, entry={"level": j, "def": name, "via": via}), "reference: a def rendered through Template.get_def() differs from the def called on its template", expected=list(exp), observed=list(obs))
    return ok


# --------------------------------------------------------------------------
# family J: histories of two renders on one lookup, the inherit target chosen by the context

J_BASES = [(m1, m2) for m1 in ("-", "d", "b") for m2 in ("-", "d", "b")]


def j_prefixes(tier):
    """the inheriting part: [leaf] with two member names, [leaf, mid] with one (thorough: also with a second);
    the last of them inherits from ${context['upN']}"""
    out = []
    kinds_leaf = ir._kinds("leaf")
    for m1 in kinds_leaf:
        for m2 in kinds_leaf:
            out.append(((m1, m2, 0, 0, 0, 0, "d", "-"),))
    for m1 in kinds_leaf:
        for mm in ir._kinds("mid"):
            for cc in ("-", "n"):
                for a2, b2 in ([("-", "-")] if tier == "quick" else [("-", "-"), ("b", "b"), ("d", "bp"), ("bp", "d")]):
                    out.append(((m1, a2, 0, 0, 0, 0, "s", "-"), (mm, b2, 0, 0, 0, 0, "d", cc)))
    return out


def euler_sequence(n):
    """a closed walk through 0..n-1 in which every ordered pair (x, y), x != y, occurs once as consecutive elements"""
    nxt = {v: [w for w in range(n) if w != v] for v in range(n)}
    stack, walk = [0], []
    while stack:
        v = stack[-1]
        if nxt[v]:
            stack.append(nxt[v].pop(0))
        else:
            walk.append(stack.pop())
    return walk[::-1]


def j_program(prefix, al):
    """files: the prefix levels and every base variant under a uri of its own; ctx chooses among them"""
    L = len(prefix) + 1
    files = {}
    for i, spec in enumerate(prefix):
        files[al["uri"] % i] = ir._memo_file(("J", i, L, spec, al["n1"], al["uri"]), i, L, spec, al, ir.PROBES_M12, "**kw")
    bases = []
    for n, (m1, m2) in enumerate(J_BASES):
        spec = (m1, m2, 0, 0, 0, 0, "s", "n")
        bal = dict(al, fill=al["fill"] + "#%d" % n)
        uri = al["uri"] % (20 + n)
        files[uri] = ir._memo_file(("Jb", n, L, al["n1"], al["uri"]), L - 1, L, spec, bal, ir.PROBES_M12, "**kw")
        bases.append(uri)
    return {"files": files, "main": al["uri"] % 0, "ctx": {"P": "@helper:P", "A": "@helper:A"}}, bases


MISSING = -1  # element of a J history: the inherit target of that render names no template


def check_history(prefix, seq, seed, st, minimise=True):
    """one fresh lookup and one set of Template objects; the page is rendered once per element of seq, the
    inherit target being base seq[k]; every render must be what the reference says (= what a fresh lookup gives).
    returns the number of renders that agreed"""
    al = ir.alphabet(seed)
    if prefix == "L":
        # family L: element b of seq = render chain number b of the collision program
        prog0, mains = ir.collision_program(seed)
        bases = []
        key = None
    else:
        prog0, bases = j_program(prefix, al)
        key = "up%d" % len(prefix)
    texts = ir.print_program(prog0)
    R = Runner()
    for step, b in enumerate(seq):
        if key is not None and b == MISSING:
            # the dynamic inherit target names no template: a lookup exception, and nothing may be left behind
            ctxj = dict(prog0["ctx"], **{key: al["uri"] % 97})
            obs = R.render(texts, prog0["main"], c06_env.resolve_ctx(ctxj), 40)
            st.evaluations += 1
            st.oracles["missing-target"] += 1
            ok = obs[0] == "exc" and obs[1].split(":")[0] in ("TemplateLookupException", "TopLevelLookupException")
            st.outcomes[("J", len(prefix) + 1, "missing-target", "lookup-exception" if ok else "other")] += 1
            if not ok:
                case = {"kind": "history", "seed": seed, "prefix": [list(s) for s in prefix], "seq": list(seq[: step + 1]), "files": dict(texts), "ctx": ctxj}
                st.violation("history:missing inherit target:%s" % obs[0], case, "an unresolvable inherit target raises TemplateLookupException", expected=["exc", "TemplateLookupException"], observed=list(obs))
                return step
            continue
        if key is None:
            prog, ctxj = dict(prog0, main=mains[b]), dict(prog0["ctx"])
        else:
            prog, ctxj = prog0, dict(prog0["ctx"], **{key: bases[b]})
        ctx = c06_env.resolve_ctx(ctxj)
        exp, ref = ir.reference(prog, ctx)
        st.oracles["reference"] += 1
        obs = R.render(texts, prog["main"], ctx, ref.callables)
        st.evaluations += 1
        st.transitions += ref.steps
        st.outcomes[("L" if key is None else "J", 0 if key is None else len(prefix) + 1, "first" if step == 0 else "later", exp[0] if exp[0] != "err" else "err:" + exp[1])] += 1
        if exp[0] == "dontcare" or obs == exp:
            continue
        if key is None:
            used = [l["uri"] for l in ref.levels]
            case = {"kind": "history", "seed": seed, "prefix": "L", "seq": list(seq[: step + 1]), "files": {u: texts[u] for u in used}, "main": prog["main"]}
        else:
            case = {"kind": "history", "seed": seed, "prefix": [list(s) for s in prefix], "seq": list(seq[: step + 1]), "files": {u: t for u, t in texts.items() if u not in bases or u == bases[b]}, "ctx": ctxj}
        if Runner().render(texts, prog["main"], ctx, ref.callables) != exp:
            case["seq"] = [b]
            st.violation(chain_sig(exp, obs, al), case, "reference: rendered output / error class differs from the class-chain model", expected=list(exp), observed=list(obs))
            return step
        if minimise and step > 1:
            # is the render before it enough?
            st2 = Stats()
            check_history(prefix, seq[step - 1 : step + 1], seed, st2, minimise=False)
            if st2.violations:
                st.violation(st2.violations[0]["sig"], st2.violations[0]["case"], st2.violations[0]["oracle"], expected=list(exp), observed=st2.violations[0]["observed"])
                return step
        st.violation("history:" + chain_sig(exp, obs, al), case, "rerender: a render differs from the same render on a fresh lookup after earlier renders on the same lookup and Template objects (state kept between renders)", expected=list(exp), observed=list(obs))
        return step
    return len(seq)


# --------------------------------------------------------------------------
# error grid


def check_grid_case(case, seed, st, mode):
    """mode 'alone': Template(text) ; mode 'base': the text is the base of a two-level chain, compiled through
    TemplateLookup.put_string when the leaf is rendered ; mode 'over': the same, the leaf overriding the block"""
    from mako import exceptions
    from mako.lookup import TemplateLookup
    from mako.template import Template

    al = ir.alphabet(seed)
    f = ir.grid_file(case, al)
    verdict = ir.compile_verdict(f)
    text = ir.print_file(f)
    st.evaluations += 1
    st.traces += 1
    st.transitions += 1
    st.oracles["compile_verdict"] += 1
    ctx = {}
    if mode == "alone":
        prog = {"files": {"g.html": f}, "main": "g.html", "ctx": {}}
    else:
        # 'over': the leaf also overrides the first block name of the grid template
        lbody = [("T", "leaf")] + ([("B", al["n1"], [("T", "{over %s}" % al["n1"])])] if mode == "over" else [])
        leaf = {"page": None, "inherit": ("s", "g.html"), "attrs": [], "body": lbody}
        prog = {"files": {"leaf.html": leaf, "g.html": f}, "main": "leaf.html", "ctx": {}}
    try:
        if mode == "alone":
            out = Template(text, uri="g.html").render_unicode(**ctx)
        else:
            lk = TemplateLookup()
            lk.put_string("g.html", text)
            lk.put_string("leaf.html", ir.print_file(prog["files"]["leaf.html"]))
            out = lk.get_template("leaf.html").render_unicode(**ctx)
        obs = ("out", out)
    except exceptions.CompileException as e:
        obs = ("reject", str(e).split(" in file")[0][:80])
    except Exception as e:  # noqa
        obs = ("exc", "%s: %s" % (type(e).__name__, str(e)[:200]))
    st.outcomes[("grid", mode, verdict, obs[0])] += 1
    cj = {"kind": "grid", "case": list(case), "seed": seed, "mode": mode, "text": text}
    kinds = "%s %s%s%s" % (case[0], case[1], ("+" + case[2]) if case[2] else "", "" if case[0] in ("single", "defblock") else (" same" if case[3] else " different"))
    if verdict == "reject":
        if obs[0] != "reject":
            st.violation("grid:accepted " + kinds, cj, "compile_verdict: duplicate block name / named block inside def or call is not rejected with CompileException", expected="CompileException", observed=list(obs))
            return False
        return True
    if verdict == "dontcare":
        if obs[0] == "exc":
            st.violation("grid:exception " + kinds, cj, "universal: neither CompileException nor a rendering", expected="CompileException or output", observed=list(obs))
            return False
        return True
    exp, _ref = ir.reference(prog, ctx)
    st.oracles["reference"] += 1
    if obs != exp:
        if obs[0] == "reject" and "__M_anon_" in obs[1] and case[0] == "anon2" and case[3]:
            sig = "grid:anonymous blocks starting on one line rejected as duplicates of __M_anon_<line>"
        else:
            sig = "grid:" + ("rejected " if obs[0] == "reject" else "wrong-output ") + kinds
        st.violation(sig, cj, "reference: a legal arrangement of blocks is rejected or renders differently", expected=list(exp), observed=list(obs))
        return False
    return True


# --------------------------------------------------------------------------
# jobs

TARGET_PER_JOB = {"quick": 9000, "thorough": 60000}


def plan(tier, seed):
    jobs = []
    for gi, g in enumerate(ir.grids(tier)):
        n = ir.grid_size(g)
        ns = max(1, min(256, ir.grid_prefixes(g), -(-n // TARGET_PER_JOB[tier])))
        if g[0] == "G":
            ns = 1  # the decoy switch changes nothing when no decoy can be placed: such twins must meet in one job to be counted once
        for sh in range(ns):
            jobs.append({"kind": "chains", "tier": tier, "seed": seed, "grid": gi, "shard": sh, "nshards": ns, "size": n})
    jobs.append({"kind": "grid", "tier": tier, "seed": seed})
    jobs.append({"kind": "direct", "tier": tier, "seed": seed})
    jobs.append({"kind": "collisions", "tier": tier, "seed": seed, "size": 40000})
    npre = len(j_prefixes(tier))
    nsj = 4 if tier == "quick" else 16
    for sh in range(nsj):
        jobs.append({"kind": "pairs", "tier": tier, "seed": seed, "shard": sh, "nshards": nsj, "size": npre * 73 * 4})
    # biggest first, so that the pool ends evenly; seed permutes nothing else
    jobs.sort(key=lambda j: -(j.get("size", 0) // j.get("nshards", 1)))
    return jobs


def run_direct(st):
    from mc import c06_direct as D

    n = 0
    for c in D.cases():
        r = D.run(c)
        n += 1
        st.states += 1
        st.traces += 1
        st.evaluations += 2
        st.transitions += 2
        st.nontrivial += 1
        st.oracles["direct:" + c["kind"]] += 1
        st.outcomes[("direct", c["kind"], "ok" if r is None else "bad")] += 1
        if r is not None:
            st.violation(r[0], dict(c, kind="direct", dkind=c["kind"]), r[1], expected=r[2], observed=r[3])
    st.extra["direct_cases"] = n


def run_job(job):
    st = Stats()
    if job["kind"] == "direct":
        run_direct(st)
        return st
    t0 = time.process_time()
    w0 = time.time()
    try:
        return _run_job(job, st)
    finally:
        st.extra["cpu_s"] = round(time.process_time() - t0, 2)
        st.extra["job_wall_s"] = round(time.time() - w0, 2)


def _run_job(job, st):
    seed = job["seed"]
    if job["kind"] == "grid":
        cases = ir.grid_cases(job["tier"])
        seen = set()
        for case in cases:
            for mode in ("alone", "base", "over"):
                check_grid_case(case, seed, st, mode)
            key = ir.print_file(ir.grid_file(case, ir.alphabet(seed)))
            if key not in seen:
                seen.add(key)
                st.states += 1
                st.nontrivial += 1
        st.extra["grid_cases"] = len(seen)
        st.sample({"kind": "grid", "case": list(cases[20]), "text": ir.print_file(ir.grid_file(cases[20], ir.alphabet(seed)))})
        return st
    if job["kind"] == "collisions":
        nchains = len(ir.collision_program(seed)[1])
        seq = euler_sequence(nchains)
        done = check_history("L", seq, seed, st)
        st.traces += 1
        st.states += max(0, done - 1)
        st.nontrivial += max(0, done - 1)
        st.extra["pairs_L"] = max(0, done - 1)
        st.sample({"family": "L", "chains on one lookup": nchains, "renders": len(seq), "files": sorted(ir.collision_program(seed)[0]["files"])[:12]})
        return st
    if job["kind"] == "pairs":
        seq = euler_sequence(len(J_BASES))
        n = 0
        for pi, prefix in enumerate(j_prefixes(job["tier"])):
            if pi % job["nshards"] != job["shard"]:
                continue
            done = check_history(prefix, seq, seed, st)
            st.traces += 1
            n += max(0, done - 1)
            # a failing render (unresolvable target) between good ones: first / in the middle / twice in a row
            for fseq in ([MISSING, 1, 2], [1, MISSING, 1, 2], [4, MISSING, MISSING, 5, 4]):
                n += max(0, check_history(prefix, fseq, seed, st) - 1)
                st.traces += 1
            if pi % 29 == 0:
                st.sample({"family": "J", "prefix": [list(s) for s in prefix], "bases (m1, m2)": [list(b) for b in J_BASES], "renders": len(seq)})
        st.states += n  # ordered pairs of consecutive renders (every ordered pair of distinct bases occurs once)
        st.nontrivial += n
        st.extra["pairs_J"] = n
        return st
    g = ir.grids(job["tier"])[job["grid"]]
    fam, L = g[0], g[1]
    sh, ns = job["shard"], job["nshards"]
    R = runner()
    seen = set()
    level_texts = set()
    nchains = 0
    for chain in ir.grid_chains(g, sh, ns):
        nchains += 1
        ok, texts, exp, obs = check_chain(g, chain, seed, st, R, twice=(nchains % 64 == 1))
        key = hashlib.blake2b("\x00".join(u + "\x01" + t for u, t in texts.items()).encode("utf-8", "surrogatepass"), digest_size=10).digest()
        level_texts.update(texts.items())
        if key not in seen:
            seen.add(key)
            st.states += 1
            if ir.chain_nontrivial(chain):
                st.nontrivial += 1
        if nchains % 2503 == 1:
            st.sample({"family": fam, "L": L, "chain": [list(s) for s in chain], "files": texts, "expected": list(exp)})
    st.extra["chains_" + fam[:1] + str(L)] = nchains
    # each distinct level text is compiled once per worker and shared by the chains that contain it; counted per
    # job (deterministic), whatever the worker's cache already held
    st.extra["level_templates"] = len(level_texts)
    st.evaluations += len(level_texts)
    return st


# --------------------------------------------------------------------------


def replay(case):
    core.bind_repo()
    st = Stats()
    if case["kind"] == "direct":
        from mc import c06_direct as D

        r = D.run(dict(case, kind=case["dkind"]))
        return (True, "holds") if r is None else (False, "reproduced: %r" % (r,))
    if case["kind"] == "unreplayable":
        return None, "seen on Template objects shared with earlier chains of a worker; no replay"
    if case["kind"] == "grid":
        check_grid_case(tuple(case["case"]), case["seed"], st, case["mode"])
    elif case["kind"] == "history":
        check_history("L" if case["prefix"] == "L" else tuple(tuple(s) for s in case["prefix"]), list(case["seq"]), case["seed"], st, minimise=False)
    else:
        chain = tuple(tuple(s) for s in case["chain"])
        g = (case["family"], len(chain), None, [tuple(p) for p in case["probes"]], case.get("defsig", ""))
        if case.get("shared"):
            # an order-dependent case and its prelude: one lookup and one set of Template objects for the whole
            # sequence of replays of this interpreter
            global _replay_runner
            if _replay_runner is None:
                _replay_runner = Runner()
            exp, obs, _t = _plain_render(g, chain, case["seed"], _replay_runner)
            if obs != exp:
                return False, "reproduced: expected=%r observed=%r" % (exp, obs)
            return True, "holds"
        check_chain(g, chain, case["seed"], st, Runner(), twice=bool(case.get("twice")))  # fresh lookup and templates
    if st.violations:
        v = st.violations[0]
        return False, "reproduced: sig=%s expected=%r observed=%r" % (v["sig"], v["expected"], v["observed"])
    return True, "holds"


# --------------------------------------------------------------------------
# corpus for the cross-path property C08


def corpus(limit=400):
    """representative programs of the smallest non-trivial bound (L <= 3), simplest first, round-robin over the
    grids (member dispatch, body chaining / page args / anonymous blocks, attributes / dynamic inherit) and the legal
    cases of the block-position grid.  expected = reference output, or None when the reference expects an error."""
    seed = 0
    al = ir.alphabet(seed)
    streams = []

    def chain_stream(g, stride):
        for n, chain in enumerate(ir.grid_chains(g)):
            if n % stride:
                continue
            prog = ir.build_program(chain, al, g[3], g[4])
            exp, _ = ir.reference(prog, c06_env.resolve_ctx(prog["ctx"]))
            if exp[0] == "dontcare" or exp == ("err", "recursion"):
                continue  # answer not fixed / depends on the interpreter's recursion limit
            yield {"files": ir.print_program(prog), "main": prog["main"], "ctx": dict(prog["ctx"]), "expected": exp[1] if exp[0] == "out" else None, "template_kwargs": {}}

    for g in ir.grids("quick"):
        if g[1] in (2, 3) and g[0] in ("A", "C", "D", "E", "F", "G", "H"):  # I, K print uris; J is a history
            n = ir.grid_size(g)
            streams.append(chain_stream(g, max(1, n // 97) | 1))  # odd stride: spread over all option positions

    def grid_stream():
        for case in ir.grid_cases("quick"):
            f = ir.grid_file(case, al)
            if ir.compile_verdict(f) != "accept":
                continue
            prog = {"files": {"g.html": f}, "main": "g.html", "ctx": {}}
            exp, _ = ir.reference(prog, {})
            yield {"files": ir.print_program(prog), "main": "g.html", "ctx": {}, "expected": exp[1] if exp[0] == "out" else None, "template_kwargs": {}}

    streams.append(grid_stream())
    out, seen = [], set()
    live = [iter(s) for s in streams]
    while live and len(out) < limit:
        nxt = []
        for it in live:
            try:
                p = next(it)
            except StopIteration:
                continue
            nxt.append(it)
            key = json.dumps(p["files"], sort_keys=True)
            if key not in seen and len(out) < limit:
                seen.add(key)
                out.append(p)
        live = nxt
    return out


READY = True
