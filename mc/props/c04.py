"""C04 - names resolve through scopes, module, imports, context, builtins, UNDEFINED.

Engine E1.  Ten exhaustively enumerated families, each case executed on the
real Template / TemplateLookup and compared with an independent oracle:

  res       binding-site subsets x read sites x read styles x strict_undefined:
            IR programs (mc/c04_ir.py), expected result from the reference
            interpreter (mc/c04_ref.py: the template translated to nested Python
            functions, CPython decides locals/closures, `symtable` decides what is
            free, the documented order resolves the free names)
  stmt      every Python statement form of a stated list inside <% %>, compared
            with the same statements executed natively (same reference)
  reread    every form that binds a name in an inner scope only (lambda / def parameters of every kind,
            function locals, comprehension variables inside a lambda / def) followed or preceded by a free
            read of the SAME name in the same piece of Python (<% %> block, ${} expression, control line,
            tag attribute), name present in / absent from the context, strict on/off; same reference
  reserved  reserved names x render entry points, x assignment forms x scopes x
            enable_loop configurations: NameConflictError demanded
  kwargs    context.kwargs at every kind of position x entry points
  flagname  the variable spelled like each escape flag (x h u n trim entity unicode decode str) + a control
            spelling x 24 read sites (nested-def, top-level-def and def-in-<%call> defaults, keyword-only defaults, cache_key / cache_* attribute
            expressions of defs, blocks and the page, expressions, code, control lines, call tags) x present /
            absent x strict on/off; oracle = direct formula
  sentinel  builtin-named variables bound (render argument / <%page> argument / <% %>) to UNDEFINED, None or the
            object the read passes as explicit default; read by bare name, context.get / [] / keys(), in the body
            and in a def called from it; formula oracle ("context before builtins")
  attrs     tags whose attributes hold several expressions, each reading its own name (include file/args, call
            tags, cache_key / cache_* of defs, blocks, page, filter arguments, namespace / inherit with explicit
            context) x placement x each name absent x strict; formula oracle
  cached    cached def / block / page whose body reads a free name, render sequences of one template against a
            dict cache backend (present then absent, new key, ...) x strict: a render served from the cache reads nothing
  imports   compile history in one process: templates binding names through imports= (Template / TemplateLookup)
            or <%! %>, before and after templates that read the same names from the context (6 read sites x
            present/absent x strict); each operation has a history-free oracle, failures carry their prelude
"""

import itertools
import json
import time

from mc import core
from mc import c04_env as env
from mc import c04_ir as ir
from mc import c04_ref as ref
from mc.core import Stats

PROPERTY = "C04"
LEVEL = "model_checking"
ENGINE = "E1"
READY = True

BINDS = ["ctx", "page", "assign", "defarg", "encl", "for", "module", "import"]
SITES = [
    "body", "def", "selfdef", "nested", "anon@body", "anon@def", "named", "callbody@body", "callbody@def",
    "ctl@body", "ctl@def", "attr@body", "attr@def", "filter@body", "filter@def",
    # a top-level def called by its bare name ONLY from a closure written in the body (and, as control, also directly)
    "def<callbody", "def<anon", "def<anon-def", "def<calldef",
    "def<callbody+direct", "def<anon+direct", "def<anon-def+direct", "def<calldef+direct",
]
STYLES = ["V", "O", "C"]
# callable kind of the reader, used in signatures
SITE_KIND = {
    "body": "body", "def": "topdef", "selfdef": "selfdef", "nested": "nested", "anon@body": "anon", "anon@def": "anon",
    "named": "named", "callbody@body": "callbody", "callbody@def": "callbody", "ctl@body": "body", "ctl@def": "topdef",
    "attr@body": "body", "attr@def": "topdef", "filter@body": "body", "filter@def": "topdef",
    "def<callbody": "topdef-called-only-from-call-body", "def<anon": "topdef-called-only-from-anonymous-block",
    "def<anon-def": "topdef-called-only-from-def-in-anonymous-block", "def<calldef": "topdef-called-only-from-def-in-call",
    "def<callbody+direct": "topdef-called-from-body-and-call-body", "def<anon+direct": "topdef-called-from-body-and-anonymous-block",
    "def<anon-def+direct": "topdef-called-from-body-and-def-in-anonymous-block", "def<calldef+direct": "topdef-called-from-body-and-def-in-call",
}
TAGS = {"ctx": "C", "page": "P", "assign": "A", "defarg": "D", "encl": "E", "for": "L", "module": "M", "import": "N"}

BOUNDS = {
    "quick": {
        "res": "all subsets of <=2 of the 8 binding sites x {plain, builtin} name x 22 read sites x styles {value, or-default, call} (the 7 called-from-a-closure sites: or-default and call, their controls or-default only) x strict on/off; "
               "+ re-assignment variant for every subset holding a body assignment",
        "stmt": "49 statement forms x placement {body, top-level def} x context {r, r+b, neither} x strict on/off",
        "reread": "16 expression binders x pieces {block later statement, block same statement, ${} expression, control line, tag attribute} x read "
                  "{after, before} + 23 statement binders x {after, before}; x container {body, top-level def} x name {present, absent} x strict on/off",
        "reserved": "4 names x 6 entry points x 3 enable_loop configurations; 4 names x 15 assignment forms x 3 scopes x 3 configurations",
        "kwargs": "10 positions x 4 entry points x 3 argument sets",
        "sentinel": "6 names (5 builtins + control) x {render argument, page argument, <% %>} x {UNDEFINED, None, default object} x {body, def} x 6 read forms (+strict for bare reads)",
        "attrs": "15 multi-expression tags x placements {body, def, anonymous block, call body} x {all present, each name absent} x strict on/off",
        "cached": "6 cached sections x 4 key forms x 4 render sequences x strict on/off",
        "rebind": "9 value sequences of 4 steps (equal objects of different type, equal containers, controls) x first binding {<% %>, page argument, render argument} x call form {${f()}, capture(f), <%call>, inside % for} x strict on/off; + in-place mutation, augmented assignment and other-name sequences; each Template rendered twice",
        "nsdef": "reads in a def written inside <%namespace name=>: 2 names (plain, builtin) x 10 subsets of {module block, imports=, render argument, body assignment} x 5 shapes x strict on/off; UNDEFINED / STOP_RENDERING probes x 5 shapes x strict on/off",
        "shadowdef": "a def nested in a def named like a top-level def / context variable / builtin / module-level name: 5 x depth 1-2 x 4 call forms x strict on/off",
        "imports": "one sequence per run: 28 reader operations, 20 binder operations, the readers again, the binders again (96 operations in one process)",
        "flagname": "24 read sites x 10 spellings (9 escape-flag names + control) x {present, absent} x strict on/off, minus str-present",
    },
    "thorough": {
        "res": "all 256 subsets of the 8 binding sites x {plain, builtin} x 22 read sites x 3 styles x strict on/off x binding statement "
               "{before, after} the read for body/enclosing assignments x re-assignment variant",
        "stmt": "49 statement forms x placement {body, top-level def, nested def, anonymous block, call body} x context {r, r+b, neither} x strict on/off",
        "reread": "as quick x container {body, top-level def, nested def, anonymous block, call body}",
        "reserved": "as quick + 5 scopes",
        "kwargs": "as quick",
        "sentinel": "6 names (5 builtins + control) x {render argument, page argument, <% %>} x {UNDEFINED, None, default object} x {body, def} x 6 read forms (+strict for bare reads)",
        "attrs": "15 multi-expression tags x placements {body, def, anonymous block, call body} x {all present, each name absent} x strict on/off",
        "cached": "6 cached sections x 4 key forms x 4 render sequences x strict on/off",
        "rebind": "9 value sequences of 4 steps (equal objects of different type, equal containers, controls) x first binding {<% %>, page argument, render argument} x call form {${f()}, capture(f), <%call>, inside % for} x strict on/off; + in-place mutation, augmented assignment and other-name sequences; each Template rendered twice",
        "nsdef": "reads in a def written inside <%namespace name=>: 2 names (plain, builtin) x 10 subsets of {module block, imports=, render argument, body assignment} x 5 shapes x strict on/off; UNDEFINED / STOP_RENDERING probes x 5 shapes x strict on/off",
        "shadowdef": "a def nested in a def named like a top-level def / context variable / builtin / module-level name: 5 x depth 1-2 x 4 call forms x strict on/off",
        "imports": "one sequence per run: 28 reader operations, 20 binder operations, the readers again, the binders again (96 operations in one process)",
        "flagname": "24 read sites x 10 spellings (9 escape-flag names + control) x {present, absent} x strict on/off, minus str-present",
    },
}

TECHNIQUE = (
    "bounded exhaustive enumeration of IR programs (binding-site subsets x read sites x styles x strict_undefined; statement forms; "
    "reserved-name grids), each rendered by the real library and compared with a reference interpreter that runs the same program "
    "as nested native Python functions"
)
LEVEL_TEXT = (
    "Every program of the stated product is compiled and rendered by the real code through render_unicode and through render_context "
    "with a caller-owned Context; output or exception class (and, under strict_undefined, the variable named) must equal the reference; "
    "the caller's Context must hold the same data afterwards and context.kwargs must be the render arguments. Complete within the bounds."
)
LEVEL_NOTE = (
    "Trusted: CPython exec/symtable, the ~350-line reference (c04_ref.py) and the IR printer (c04_ir.py). The reference encodes the "
    "resolution order of the statement / DESIGN Appendix A2; Python's own scoping is not re-implemented but executed."
)
RULE = (
    "res: one program per (set of simultaneously present binding sites, plain|builtin name, read site, read style, strict flag[, position, "
    "re-assignment]); canonical = printed template text(s) + context keys + strict flag, de-duplicated. stmt: one program per (statement "
    "form, placement, context variant, strict flag). reread: one program per (inner-scope binder, piece of Python, read before|after, container, "
    "name present|absent, strict flag). reserved/kwargs: one case per grid cell. Non-trivial = at least two sources for the "
    "name are present at once (precedence is observable), or the statement form binds and reads different names, or a reserved name meets "
    "an entry point / assignment form."
)
ASSUMPTIONS = [
    "the reference interpreter implements the order given in the statement (DESIGN Appendix A2); CPython exec, symtable and str are trusted",
    "a def reached through self. and a named block see the plain render context (documented), only defs called by bare name from the body see the overlay",
    "test names never collide with def names, default-filter names or the names self/local/parent/next/caller/capture/pageargs",
    "process history: workers are long-lived; order dependence is examined in the imports family only (names bound by imports= / <%! %> in "
    "one template, read from the context by another, both orders, one process); a failing operation is re-run in a fresh interpreter alone "
    "and after each earlier operation (core.find_prelude) and is reported with that prelude",
    "hash order fixed (PYTHONHASHSEED=0); one render per entry point per compiled template",
    "DONT_CARE: a def/page/block parameter spelled like a reserved name is not an assignment in the statement's sense: not generated",
    "DONT_CARE: under strict_undefined only the class NameError and the quoted variable name are demanded, not the place in the callable "
    "(or enclosing callable) where it is raised; when several names of one callable are unresolvable any of them may be named",
    "DONT_CARE: passing loop to a render entry point of a template constructed with enable_loop=False whose <%page> tag re-enables the loop "
    "context (documentation: 'it's safe to pass the name loop to render' with enable_loop=False; mako's own tests do it)",
    "DONT_CARE: <%inherit file> / <%namespace file> expressions see only `context` and module-level names (documented: 'the context must be "
    "named explicitly'): bare context names are not generated there; a cached BLOCK served from the cache under strict_undefined may still raise "
    "the strict NameError from the enclosing callable (block names are fetched there on entry); which error a missing include target gives (C07)",
    "DONT_CARE (not generated): a context variable called str (it shadows the name the default filter is written with: C02); "
    "a top-level def called by its bare name from a closure written in the body (call body, anonymous block, def inside them) counts as "
    "called from the body: it sees the page arguments and current <% %> values; from a named block or another top-level def: not generated",
    "DONT_CARE (not generated): a def called by its bare name from another top-level def or a named block; a body-level loop target that is also assigned in a <% %> block "
    "while a def called by name reads it; value-style reads of an imported def (its text form holds addresses); filters that return non-strings",
    "the dict given to render(**d) cannot be reached by the library (keyword call), so 'caller's data unchanged' is checked on a caller-owned "
    "Context passed to render_context (data, kwargs, key set) and through a plain-context witness read at the end of every program",
]

# --------------------------------------------------------------------------
# data alphabet (the only thing VERIF_SEED changes)


class Alpha:
    def __init__(self, seed):
        k = seed % 4
        self.seed = seed
        self.sfx = env.SUFFIX_POOL[k]
        self.name = env.NAME_POOL[k]
        self.name2 = env.NAME2_POOL[k]
        self.builtin = env.BUILTIN_POOL[k]
        self.ctx_callable = "@helper:tag_C%d" % k
        self.r_callable = "@helper:tag_R%d" % k

    def val(self, tag, style):
        """template source of the value bound at the site tagged `tag`"""
        if style == "C":
            return "(lambda s: %r + s)" % (tag + self.sfx + ":")
        return repr(tag + self.sfx)

    def ctxval(self, style):
        return self.ctx_callable if style == "C" else "C" + self.sfx


# --------------------------------------------------------------------------
# family res: builder


def T(s):
    return ["text", s]


def E(py, flt=None):
    return ["expr", py, list(flt or [])]


def read_expr(name, style, tag="r"):
    if style == "V":
        return name
    if style == "O":
        return "%s or 'U'" % name
    return "%s(%r)" % (name, tag)


def benign_read(name, style, tag):
    """a read that never fails on UNDEFINED (for secondary readers)"""
    if style == "C":
        return "(%s or (lambda s: 'U:' + s))(%r)" % (name, tag)
    return "%s or 'U'" % name


def build_res(al, p):
    """p: {"binds": [...], "builtin": bool, "site": s, "style": s, "late": [...], "twice": bool} -> (program, ctx)"""
    binds, site, style = set(p["binds"]), p["site"], p["style"]
    impform = p.get("impform", "name")
    late = set(p.get("late") or [])
    nm = al.builtin if p["builtin"] else al.name
    V = lambda tag: al.val(tag, style)  # noqa
    base, _, where = site.partition("@")
    in_def = site in ("def", "selfdef", "nested") or where == "def" or site.startswith("def<")

    # --- the reading statements, in the reader's own callable
    if base == "filter":
        core_read = [T("["), E(repr("r"), [nm]), T("]")]
    elif base == "ctl":
        core_read = [["ctl", [["for it in [%s]:" % read_expr(nm, style), [T("["), E("it"), T("]")]]], "endfor"]]
    elif base == "attr":
        core_read = [["nscall", "self", "show", [["v", read_expr(nm, style)]], []]]
    else:
        core_read = [T("["), E(read_expr(nm, style)), T("]")]
    if "for" in binds:
        core_read = [["ctl", [["for %s in [%s]:" % (nm, V("L")), core_read]], "endfor"]]

    defs = []  # top-level defs, printed after the body statements
    pre = []  # body statements before the reader
    post = []

    def assign(tag):
        return ["code", "%s = %s" % (nm, V(tag))]

    body_assign_early = "assign" in binds and "assign" not in late
    body_assign_late = "assign" in binds and "assign" in late
    if body_assign_early:
        pre.append(assign("A"))

    def sibling_defs():
        # binding sites that cannot enclose the reader exist in a sibling def: they must not leak
        if "defarg" in binds:
            defs.append(["def", "sib", nm, [T("("), E(benign_read(nm, style, "s")), T(")")]])
            pre.append(E("sib(%s)" % V("D")))
        if "encl" in binds:
            defs.append(["def", "sib2", "", [assign("E"), T("("), E(benign_read(nm, style, "t")), T(")")]])
            pre.append(E("sib2()"))

    def with_encl(stmts):
        if "encl" not in binds:
            return stmts
        if "encl" in late:
            return stmts + [assign("E")]
        return [assign("E")] + stmts

    invoke = None  # body statements that run the reader
    invoke_again = None  # the same once more (re-assignment variant) when def names must differ
    if base in ("body", "ctl", "attr", "filter") and not in_def:
        sibling_defs()
        invoke = core_read
    elif base in ("def", "selfdef") or (base in ("ctl", "attr", "filter") and in_def):
        params = nm if "defarg" in binds else ""
        args = V("D") if "defarg" in binds else ""
        defs.append(["def", "f", params, with_encl(core_read)])
        invoke = [E(("self.f(%s)" if base == "selfdef" else "f(%s)") % args)]
    elif base.startswith("def<"):
        via = base[4:].split("+")[0]
        params = nm if "defarg" in binds else ""
        args = V("D") if "defarg" in binds else ""
        defs.append(["def", "f", params, with_encl(core_read)])
        callf = E("f(%s)" % args)

        def via_closure(k):
            inner, w2 = "inner" + k, "w2" + k
            if via == "callbody":
                if not k:
                    defs.append(["def", "w", "", [E("caller.body()")]])
                return [["call", "w()", None, [callf]]]
            if via == "anon":
                return [["block", None, [callf]]]
            if via == "anon-def":
                return [["block", None, [["def", inner, "", [callf]], E(inner + "()")]]]
            if via == "calldef":
                defs.append(["def", w2, "", [E("caller.%s()" % inner)]])
                return [["call", w2 + "()", None, [["def", inner, "", [callf]]]]]
            raise ValueError(site)

        direct = [callf] if base.endswith("+direct") else []
        invoke = direct + via_closure("")
        invoke_again = direct + via_closure("b") if p.get("twice") else None
    elif base == "nested":
        params = nm if "defarg" in binds else ""
        args = V("D") if "defarg" in binds else ""
        inner = ["def", "inner", params, core_read]
        defs.append(["def", "f", "", with_encl([inner, E("inner(%s)" % args)])])
        invoke = [E("f()")]
    elif base == "anon":
        blk = ["block", None, core_read]
        if in_def:
            params = nm if "defarg" in binds else ""
            args = V("D") if "defarg" in binds else ""
            defs.append(["def", "f", params, with_encl([blk])])
            invoke = [E("f(%s)" % args)]
        else:
            sibling_defs()
            invoke = [blk]
    elif base == "named":
        sibling_defs()
        invoke = [["block", "nb", core_read]]
    elif base == "callbody":
        if "defarg" in binds:
            call = ["call", "w()", nm, core_read]
            defs.append(["def", "w", "", [E("caller.body(%s=%s)" % (nm, V("D")))]])
        else:
            call = ["call", "w()", None, core_read]
            defs.append(["def", "w", "", [E("caller.body()")]])
        if in_def:
            defs.append(["def", "f", "", with_encl([call])])
            invoke = [E("f()")]
        else:
            if "encl" in binds:
                defs.append(["def", "sib2", "", [assign("E"), T("("), E(benign_read(nm, style, "t")), T(")")]])
                pre.append(E("sib2()"))
            invoke = [call]
    else:
        raise ValueError(site)
    if base == "attr":
        defs.append(["def", "show", "v", [T("["), E("v"), T("]")]])

    body = pre + invoke
    if body_assign_late:
        body.append(assign("A"))
    if p.get("twice"):
        # (two anonymous blocks may not start on the same line: their generated names would collide)
        body += [T("/\n"), ["code", "%s = %s" % (nm, V("A2"))]] + (invoke_again or invoke)
    if in_def:
        # a sibling def called by its bare name: sees the context (+ the body's values), never f's locals or arguments
        defs.append(["def", "g", "", [T("{"), E(benign_read(nm, style, "g")), T("}")]])
        post.append(E("g()"))
    # witness through self.: the plain render context and the render arguments
    if style == "C":
        wit = "context.get(%r, lambda s: 'U:' + s)('w')" % nm
    else:
        wit = "context.get(%r, 'U')" % nm
    defs.append(["def", "wit", "", [T("<"), E(wit), T(";"), E("sorted(context.kwargs)"), T(">")]])
    body += post + [T("|"), E("self.wit()")]

    main = {
        "page": ("%s=%s" % (nm, V("P"))) if "page" in binds else None,
        "module": ["%s = %s" % (nm, V("M"))] if "module" in binds else [],
        "nsimport": [["ns.html", {"name": nm, "star+inherited": "*, " + nm, "inherited+star": nm + ", *", "inherited": nm}[impform]] + ([] if impform == "name" else ["nsbase.html"])] if "import" in binds else [],
        "body": body + defs,
    }
    files = {"main.html": main}
    if "import" in binds:
        ndef = ["def", nm, "s", [T("N" + al.sfx + ":"), E("s")]]
        if impform == "name":
            files["ns.html"] = {"body": [ndef]}
        else:
            # the imported def is one the namespace's template INHERITS: '*' does not cover it, the explicit name does
            files["ns.html"] = {"inherit": "nsbase.html", "body": [["def", "own_of_ns", "", [T("own")]]]}
            files["nsbase.html"] = {"body": [ndef]}
    ctx = {}
    if "ctx" in binds:
        ctx[nm] = al.ctxval(style)
    return {"files": files, "main": "main.html"}, ctx


# Fails on the unchanged tree (a top-level def called only from a def written inside <%call> gets the bare context): reported;
# enumerated once the finding is registered (signature prefix "res:topdef-called-only-from-def-in-call:") or the fix is applied
RES_SITES_PENDING = []


def res_params(tier):
    """the enumeration, simplest first"""
    maxk = 2 if tier == "quick" else len(BINDS)
    for k in range(0, maxk + 1):
        for binds in itertools.combinations(BINDS, k):
            for builtin in (False, True):
                for site in SITES:
                    if site in RES_SITES_PENDING:
                        continue
                    for style in STYLES:
                        if site.startswith("filter") and style != "C":
                            continue  # a filter is called: only callables are meaningful there
                        if "import" in binds and style != "C":
                            continue  # an imported def is a callable whose text form holds addresses
                        if tier == "quick" and site.startswith("def<"):
                            # quick budget: the called-only-from-a-closure sites without the plain value style,
                            # their also-called-from-the-body controls with the or-default style only
                            if style == "V" or (site.endswith("+direct") and style != "O"):
                                continue
                        lates = [[]]
                        if tier != "quick":
                            cand = [b for b in ("assign", "encl") if b in binds]
                            lates = [list(c) for n in range(len(cand) + 1) for c in itertools.combinations(cand, n)]
                        for late in lates:
                            # a named block can be written only once: no second reading of it
                            for twice in ((False, True) if "assign" in binds and site != "named" else (False,)):
                                yield {"binds": list(binds), "builtin": builtin, "site": site, "style": style, "late": late, "twice": twice}
                                if "import" in binds and not twice and not late:
                                    for impform in ("star+inherited", "inherited+star", "inherited"):
                                        yield {"binds": list(binds), "builtin": builtin, "site": site, "style": style, "late": late, "twice": twice, "impform": impform}


# --------------------------------------------------------------------------
# family stmt: Python statement forms inside <% %>

# (label, code, bound name role, [use expressions evaluated after the block]).  {b} = the name the form binds (or seems to bind),
# {r} = the name it only reads.  `sh` renders any value deterministically; `cm` is a context manager factory (both context values).
STMT_FORMS = [
    ("assign", "{b} = {r}", []),
    ("assign.chain", "{b} = zq = {r}", ["sh(zq)"]),
    ("assign.tuple", "{b}, zq = {r}, 1", []),
    ("assign.star", "{b}, *zq = [{r}, 1, 2]", ["sh(zq)"]),
    ("assign.nested-target", "({b}, [zq, zp]) = ({r}, [1, 2])", ["sh(zp)"]),
    ("assign.attribute-subscript", "zq = [0]\nzq[0] = {r}\n{b} = zq[0]", []),
    ("augmented", "{b} = ''\n{b} += {r}", []),
    ("augmented.unbound", "{b} += {r}", []),
    ("annotated", "{b}: str = {r}", []),
    ("annotated.no-value", "{b}: str\nzq = {r}", ["sh(zq)"]),
    ("walrus", "zq = ({b} := {r})", ["sh(zq)"]),
    ("for", "for {b} in [{r}]:\n    pass", []),
    ("for.else", "for zq in []:\n    pass\nelse:\n    {b} = {r}", []),
    ("while", "while True:\n    {b} = {r}\n    break", []),
    ("if", "if {r}:\n    {b} = {r}\nelse:\n    {b} = 'no'", []),
    ("try.except-as", "try:\n    raise ValueError({r})\nexcept ValueError as {b}:\n    zq = {b}.args[0]", ["sh(zq)"]),
    ("try.finally", "try:\n    zq = 1\nfinally:\n    {b} = {r}", []),
    ("try.else", "try:\n    zq = 1\nexcept Exception:\n    pass\nelse:\n    {b} = {r}", []),
    ("with-as", "with cm({r}) as {b}:\n    pass", []),
    ("with-as.tuple", "with cm(({r}, 1)) as ({b}, zq):\n    pass", []),
    ("import", "import {mod}", []),
    ("import.dotted", "import {mod}.path", []),
    ("import.dotted3", "import xml.sax.saxutils", ["sh(xml.sax.saxutils.escape('<'))"]),
    ("import.as", "import {mod}.path as {b}", []),
    ("from-import", "from {mod}.path import sep as {b}", []),
    ("from-import.plain", "from {mod}.path import sep\n{b} = sep + {r}", []),
    ("def.positional", "def {b}(p, q='d'):\n    return 'f(' + p + q + {r} + ')'", ["{b}('1')"]),
    ("def.all-parameter-kinds",
     "def {b}(p, /, q, *va, k, **kw):\n    return 'f(' + p + q + ''.join(va) + k + ''.join(sorted(kw)) + {r} + ')'",
     ["{b}('1', '2', '3', k='4', z='5')"]),
    ("def.default-reads", "def {b}(p={r}):\n    return 'f(' + p + ')'", ["{b}()"]),
    ("def.local-shadows", "def {b}():\n    {r} = 'inner'\n    return {r}", ["{b}()"]),
    ("def.keyword-only-default-reads", "def {b}(*, k={r}):\n    return 'f(' + k + ')'", ["{b}()"]),
    ("def.decorator-reads", "@ident\ndef {b}():\n    return 'f(' + {r} + ')'", ["{b}()"]),
    ("def.annotation-reads", "def {b}(p: {r} = 'd') -> {r}:\n    return 'f(' + p + ')'", ["{b}()", "sh({b}.__annotations__['p'])"]),
    ("def.own-locals-stay-inside", "def {b}():\n    zq = {r}\n    return 'f(' + zq + ')'", ["{b}()", "sh(zq)"]),
    ("lambda", "{b} = lambda p: 'l(' + p + {r} + ')'", ["{b}('1')"]),
    ("lambda.default-reads", "{b} = lambda p={r}: 'l(' + p + ')'", ["{b}()"]),
    ("lambda.star-parameters", "{b} = lambda *va, **kw: 'l(' + ''.join(va) + ''.join(sorted(kw)) + {r} + ')'", ["{b}('1', z='2')"]),
    ("comprehension.list", "zq = [{b} for {b} in [{r}]]", ["sh(zq)"]),
    ("comprehension.set", "zq = sorted({{{b} for {b} in [{r}]}})", ["sh(zq)"]),
    ("comprehension.dict", "zq = {{{b}: 1 for {b} in [{r}]}}", ["sh(sorted(zq))"]),
    ("comprehension.generator", "zq = list({b} for {b} in [{r}])", ["sh(zq)"]),
    ("comprehension.condition-reads", "zq = [zp for zp in ['a', 'b'] if zp != {r}]\n{b} = {r}", ["sh(zq)"]),
    ("class", "class {b}:\n    pass\nzq = {r}", ["sh(zq)"]),
    ("class.body-reads", "class {b}:\n    v = {r}", ["sh({b}.v)"]),
    ("class.base-reads", "class {b}({r}base):\n    pass", ["sh({b}.__mro__[1])"]),
    ("match.capture", "match [{r}]:\n    case [{b}]:\n        pass", []),
    ("match.as-star-mapping", "match {{'k': [{r}, 1]}}:\n    case {{'k': [{b}, *zq], **zp}}:\n        pass", ["sh(zq)", "sh(sorted(zp))"]),
    ("del", "{b} = {r}\ndel {b}", []),
    ("global", "global {b}\n{b} = {r}", []),
]
STMT_PLACES_Q = ["body", "def"]
STMT_PLACES_T = ["body", "def", "nested", "anon", "callbody"]
STMT_CTX = ["r", "r+b", "none"]


def build_stmt(al, p):
    label = p["form"]
    form = [f for f in STMT_FORMS if f[0] == label][0]
    b, r = al.name, al.name2
    mod = "os"
    if label in ("import", "import.dotted"):
        b = mod  # the name an `import a.b` binds is the top package
    if label == "import.dotted3":
        b = "xml"  # ... also for three components
    fmt = {"b": b, "r": r, "mod": mod}
    code = form[1].format(**fmt)
    uses = [u.format(**fmt) for u in form[2]]
    stmts = [["code", code], T("["), E("sh(%s)" % b), T("]")]
    for u in uses:
        stmts += [T("("), E(u), T(")")]
    place = p["place"]
    defs = []
    if place == "body":
        # a def called by its bare name sees the current values of the names the block assigned
        body = stmts + [T("{"), E("g()"), T("}")]
        defs.append(["def", "g", "", [E("sh(%s)" % b)]])
    elif place == "def":
        defs.append(["def", "f", "", stmts])
        body = [E("f()")]
    elif place == "nested":
        defs.append(["def", "f", "", [["def", "inner", "", stmts], E("inner()")]])
        body = [E("f()")]
    elif place == "anon":
        body = [["block", None, stmts]]
    elif place == "callbody":
        defs.append(["def", "w", "", [E("caller.body()")]])
        body = [["call", "w()", None, stmts]]
    else:
        raise ValueError(place)
    defs.append(["def", "wit", "", [T("<"), E("sh(context.get(%r, 'U'))" % b), T(";"), E("sorted(context.kwargs)"), T(">")]])
    body += [T("|"), E("self.wit()")]
    ctx = {"sh": "@helper:show", "cm": "@helper:cm", "ident": "@helper:ident"}
    if label == "class.base-reads":
        ctx[r + "base"] = "@helper:Base"
        if p["ctx"] == "none":
            del ctx[r + "base"]
    elif p["ctx"] in ("r", "r+b"):
        ctx[r] = "R" + al.sfx
    if p["ctx"] == "r+b":
        ctx[b] = "CB" + al.sfx
    return {"files": {"main.html": {"body": body + defs}}, "main": "main.html"}, ctx


def stmt_params(tier):
    places = STMT_PLACES_Q if tier == "quick" else STMT_PLACES_T
    for form in STMT_FORMS:
        for place in places:
            for c in STMT_CTX:
                yield {"form": form[0], "place": place, "ctx": c}


# --------------------------------------------------------------------------
# family reread: a name bound in an inner scope only, then read as a free name later in the same piece of Python

# expression binders: {n} is bound only inside the lambda / comprehension written in the expression.
# flag "braces": the expression contains { } and is used inside <% %> blocks only (brace matching of ${ } is C02/C19)
REREAD_EXPRS = [
    ("lambda.positional", "(lambda {n}: {n} + '!')('a')", ""),
    ("lambda.positional-only", "(lambda {n}, /: {n} + '!')('a')", ""),
    ("lambda.default", "(lambda {n}='d': {n} + '!')()", ""),
    ("lambda.second-parameter", "(lambda p, {n}: p + {n})('a', 'b')", ""),
    ("lambda.vararg", "(lambda *{n}: ''.join({n}))('a', 'b')", ""),
    ("lambda.keyword-only", "(lambda *, {n}: {n} + '!')({n}='a')", ""),
    ("lambda.keyword-only-default", "(lambda *, {n}='d': {n} + '!')()", ""),
    ("lambda.kwarg", "(lambda **{n}: ''.join(sorted({n})))(a='1', b='2')", ""),
    ("lambda.nested-inner-parameter", "(lambda p: (lambda {n}: {n} + p)('b'))('a')", ""),
    ("lambda.nested-outer-parameter", "(lambda {n}: (lambda p: {n} + p)('b'))('a')", ""),
    ("lambda.walrus-local", "(lambda p: ({n} := p + '!'))('a')", ""),
    ("lambda.comprehension-variable", "(lambda p: [{n} + '!' for {n} in [p]])('a')[0]", ""),
    ("lambda.generator-variable", "(lambda p: ''.join({n} for {n} in [p, p]))('a')", ""),
    ("lambda.set-comprehension-variable", "(lambda p: sorted({{{n} for {n} in [p]}}))('a')[0]", "braces"),
    ("lambda.dict-comprehension-variable", "(lambda p: sorted({{{n}: 1 for {n} in [p]}}))('a')[0]", "braces"),
    ("lambda.two-in-a-row", "(lambda {n}: {n})('a') + (lambda p: p)('b')", ""),
]
# statement binders (inside <% %> only): {n} is a parameter / local of a function or class written in the block; zq = its result
REREAD_STMTS = [
    ("def.positional", "def zf({n}):\n    return {n} + '!'\nzq = zf('a')"),
    ("def.positional-only", "def zf({n}, /):\n    return {n} + '!'\nzq = zf('a')"),
    ("def.default", "def zf({n}='d'):\n    return {n} + '!'\nzq = zf()"),
    ("def.vararg", "def zf(*{n}):\n    return ''.join({n})\nzq = zf('a', 'b')"),
    ("def.keyword-only", "def zf(*, {n}):\n    return {n} + '!'\nzq = zf({n}='a')"),
    ("def.kwarg", "def zf(**{n}):\n    return ''.join(sorted({n}))\nzq = zf(a='1')"),
    ("def.local", "def zf():\n    {n} = 'i'\n    return {n}\nzq = zf()"),
    ("def.local-tuple-target", "def zf():\n    {n}, zp = 'i', 'j'\n    return {n} + zp\nzq = zf()"),
    ("def.local-walrus", "def zf():\n    return ({n} := 'i')\nzq = zf()"),
    ("def.local-for-target", "def zf():\n    for {n} in ['i']:\n        pass\n    return {n}\nzq = zf()"),
    ("def.local-with-as", "def zf():\n    with cm('i') as {n}:\n        return {n}\nzq = zf()"),
    ("def.local-except-as", "def zf():\n    try:\n        raise ValueError('i')\n    except ValueError as {n}:\n        return {n}.args[0]\nzq = zf()"),
    ("def.local-import-as", "def zf():\n    import os.path as {n}\n    return {n}.sep\nzq = zf()"),
    ("def.local-nested-def", "def zf():\n    def {n}():\n        return 'i'\n    return {n}()\nzq = zf()"),
    ("def.local-class", "def zf():\n    class {n}:\n        v = 'i'\n    return {n}.v\nzq = zf()"),
    ("def.comprehension-variable", "def zf(p):\n    return [{n} + '!' for {n} in [p]][0]\nzq = zf('a')"),
    ("def.inner-lambda-parameter", "def zf(p):\n    return (lambda {n}: {n} + p)('b')\nzq = zf('a')"),
    ("def.nested-def-parameter", "def zf(p):\n    def zg({n}):\n        return {n} + p\n    return zg('b')\nzq = zf('a')"),
    ("def.two-in-a-row", "def zf({n}):\n    return {n}\ndef zg(p):\n    return p\nzq = zf('a') + zg('b')"),
    ("class.method-parameter", "class zc:\n    def m(self, {n}):\n        return {n} + '!'\nzq = zc().m('a')"),
    ("class.method-local", "class zc:\n    def m(self):\n        {n} = 'i'\n        return {n}\nzq = zc().m()"),
    ("lambda-assigned.parameter", "zf = lambda {n}: {n} + '!'\nzq = zf('a')"),
    ("lambda-assigned.star-parameters", "zf = lambda *{n}, **zp: ''.join({n})\nzq = zf('a')"),
]
REREAD_PIECES = ["block-later-statement", "block-same-statement", "expression", "control-line", "tag-attribute"]
REREAD_CONTAINERS_Q = ["body", "def"]
REREAD_CONTAINERS_T = ["body", "def", "nested", "anon", "callbody"]


def reread_params(tier):
    conts = REREAD_CONTAINERS_Q if tier == "quick" else REREAD_CONTAINERS_T
    for cont in conts:
        for present in (True, False):
            for label, _e, flag in REREAD_EXPRS:
                for piece in REREAD_PIECES:
                    if flag == "braces" and not piece.startswith("block"):
                        continue
                    for order in (("after",) if piece == "block-later-statement" else ("after", "before")):
                        yield {"form": label, "piece": piece, "order": order, "container": cont, "present": present}
            for label, _c in REREAD_STMTS:
                for order in ("after", "before"):
                    yield {"form": label, "piece": "block-later-statement", "order": order, "container": cont, "present": present}


def build_reread(al, p):
    n = al.name
    label, piece, order = p["form"], p["piece"], p["order"]
    ex = [f for f in REREAD_EXPRS if f[0] == label]
    defs = []
    if ex:
        b = ex[0][1].format(n=n)
        two = ("sh(%s)" % b, "sh(%s)" % n) if order == "after" else ("sh(%s)" % n, "sh(%s)" % b)
        if piece == "block-later-statement":
            stmts = [["code", "zq = %s\nzr = %s" % (b, n)], T("["), E("sh(zq)"), T("]("), E("sh(zr)"), T(")")]
        elif piece == "block-same-statement":
            stmts = [["code", "zq = %s + '+' + %s" % two], T("["), E("zq"), T("]")]
        elif piece == "expression":
            stmts = [T("["), E("%s + '+' + %s" % two), T("]")]
        elif piece == "control-line":
            stmts = [["ctl", [["for it in [%s, %s]:" % two, [T("("), E("it"), T(")")]]], "endfor"]]
        elif piece == "tag-attribute":
            stmts = [["nscall", "self", "show", [["v", "%s + '+' + %s" % two]], []]]
            defs.append(["def", "show", "v", [T("["), E("v"), T("]")]])
        else:
            raise ValueError(piece)
    else:
        code = [f for f in REREAD_STMTS if f[0] == label][0][1].format(n=n)
        if order == "after":
            code = code + "\nzr = %s" % n
        else:
            code = "zr = %s\n" % n + code
        stmts = [["code", code], T("["), E("sh(zq)"), T("]("), E("sh(zr)"), T(")")]
    cont = p["container"]
    if cont == "body":
        body = stmts
    elif cont == "def":
        defs.append(["def", "f", "", stmts])
        body = [E("f()")]
    elif cont == "nested":
        defs.append(["def", "f", "", [["def", "inner", "", stmts], E("inner()")]])
        body = [E("f()")]
    elif cont == "anon":
        body = [["block", None, stmts]]
    elif cont == "callbody":
        defs.append(["def", "w", "", [E("caller.body()")]])
        body = [["call", "w()", None, stmts]]
    else:
        raise ValueError(cont)
    ctx = {"sh": "@helper:show", "cm": "@helper:cm"}
    if p["present"]:
        ctx[n] = "CB" + al.sfx
    return {"files": {"main.html": {"body": body + defs}}, "main": "main.html"}, ctx


def _reread_symptom(al, exp, obs):
    if obs[0] == "exc" and obs[1] == "NameError" and al.name in _quoted(obs[2]):
        return "NameError(inner-scope-name)"
    return "exp=%s:obs=%s" % (exp[1] if exp[0] == "exc" else "out", obs[1] if obs[0] == "exc" else "out")


# --------------------------------------------------------------------------
# running a program on mako


def run_mako(texts, main, ctx, strict, extra=None):
    """compile once, render through render_unicode and through render_context with a caller-owned Context.
    -> (obs_unicode, obs_context, post); obs = ("out", text) | ("exc", class, message);
    post = observations on the caller-owned Context after render_context"""
    from mako.lookup import TemplateLookup
    from mako.runtime import Context
    from mako import util

    try:
        lk = TemplateLookup(strict_undefined=strict, **(extra or {}))
        for u, s in texts.items():
            lk.put_string(u, s)
        t = lk.get_template(main)
    except Exception as e:  # noqa
        o = ("exc", type(e).__name__, str(e))
        return o, o, None
    try:
        obs1 = ("out", t.render_unicode(**ctx))
    except Exception as e:  # noqa
        obs1 = ("exc", type(e).__name__, str(e))
    post = None
    try:
        buf = util.FastEncodingBuffer()
        c = Context(buf, **ctx)
        before = sorted(c.keys())
        try:
            t.render_context(c, **ctx)
        finally:
            sentinel = object()
            post = {
                "kwargs_equal": c.kwargs == ctx and all(c.kwargs[k] is ctx[k] for k in ctx),
                "data_equal": all(c.get(k, sentinel) is v for k, v in ctx.items()),
                "no_new_keys": sorted(k for k in c.keys() if k not in ("self", "local", "parent", "next")) == before,
            }
        obs2 = ("out", buf.getvalue())
    except Exception as e:  # noqa
        obs2 = ("exc", type(e).__name__, str(e))
    return obs1, obs2, post


def agrees(exp, obs, strict):
    if exp[0] != obs[0]:
        return False
    if exp[0] == "out":
        return exp[1] == obs[1]
    if exp[1] != obs[1]:
        return False
    if len(exp) > 3:
        # strict_undefined: a NameError naming one of the variables that cannot be resolved in that callable
        # (which of several is named first is not fixed by the statement)
        return any(n in exp[3] for n in _quoted(obs[2]))
    return True


def _quoted(msg):
    parts = msg.split("'")
    return parts[1::2]


def _winner(al, res):
    """coarse label of a result for signatures / outcome classes"""
    if res[0] == "exc":
        return res[1]
    s = res[1]
    i = s.find("[")
    j = s.find("]", i)
    if i < 0 or j < 0:
        return "out"
    core_ = s[i + 1 : j]
    for tag in ("A2", "CB", "C", "P", "A", "D", "E", "L", "M", "N", "R", "U"):
        if core_.startswith(tag):
            return tag
    return "builtin" if core_ else "empty"


def _stmt_symptom(al, p, exp, obs):
    """footprint of a statement-form failure: which kind of name a NameError complains about, else the two result classes"""
    if obs[0] == "exc" and obs[1] == "NameError":
        q = _quoted(obs[2])
        b = "os" if p["form"] in ("import", "import.dotted") else ("xml" if p["form"] == "import.dotted3" else al.name)
        if q and q[0] == b:
            role = "bound-name"
        elif q and q[0] in (al.name2, al.name2 + "base", "ident"):
            role = "read-name"
        elif q and q[0] in ("p", "q", "va", "k", "kw"):
            role = "parameter"
        elif q and q[0] in ("zq", "zp"):
            role = "bound-name"
        else:
            role = "other"
        return "NameError(%s)" % role
    if exp[0] == "out" and obs[0] == "out":
        # which observation differs: [read after the block] (use) {def called by its bare name} <plain context>
        import re

        parts = []
        for label, pat in (("read", r"\[(.*?)\]"), ("use", r"\((.*?)\)"), ("def-by-name-view", r"\{(.*?)\}"), ("plain-context", r"<(.*?)>")):
            if re.findall(pat, exp[1], re.S) != re.findall(pat, obs[1], re.S):
                parts.append(label)
        return "differs:" + ("+".join(parts) or "other")
    return "exp=%s:obs=%s" % (_winner(al, exp), _winner(al, obs))


def check_program(al, fam, p, strict, st):
    if fam == "res":
        prog, ctxspec = build_res(al, p)
    elif fam == "reread":
        prog, ctxspec = build_reread(al, p)
    else:
        prog, ctxspec = build_stmt(al, p)
    prog = ir.normalize(prog)
    texts = ir.print_program(prog)
    key = (json.dumps(texts, sort_keys=True), json.dumps(sorted(ctxspec.items())), strict)
    ctx = env.build_ctx(ctxspec)
    exp = ref.run(prog, dict(ctx), strict)
    st.oracles["reference"] += 1
    given = dict(ctx)
    obs, obs2, post = run_mako(texts, prog["main"], ctx, strict)
    st.oracles["caller-dict-unchanged"] += 1
    if list(ctx) != list(given) or any(ctx[k] is not given[k] for k in given):
        st.violation("caller-dict-changed", {"fam": fam, "p": p, "strict": strict, "seed": al.seed}, "the dict given to render is unchanged", expected=sorted(given), observed=sorted(ctx))
    st.evaluations += 2
    st.transitions += 2
    st.traces += 1
    case = {"fam": fam, "p": p, "strict": strict, "seed": al.seed, "template": texts, "ctx": ctxspec}
    we, wo = _winner(al, exp), _winner(al, obs)
    st.outcomes[(fam, "exp=" + we, "obs=" + wo)] += 1
    viol = []
    if not agrees(exp, obs, strict):
        viol.append(("render_unicode", exp, obs))
    st.oracles["entry-points-agree"] += 1
    if not agrees(exp, obs2, strict):
        if not viol:
            viol.append(("render_context", exp, obs2))
    for what, e_, o_ in viol:
        if fam == "res":
            sig = "res:%s:exp=%s:obs=%s" % (SITE_KIND[p["site"]], we, _winner(al, o_))
        elif fam == "reread":
            sig = "reread:%s:%s" % (p["form"], _reread_symptom(al, e_, o_))
        else:
            sig = "stmt:%s:%s" % (p["form"], _stmt_symptom(al, p, e_, o_))
        if what != "render_unicode":
            sig += ":" + what
        st.violation(sig, case, "reference interpreter (%s)" % what, expected=list(e_), observed=list(o_))
    if post is not None:
        st.oracles["context-after-render"] += 1
        for k, ok in post.items():
            if not ok:
                st.violation("context-after-render:%s" % k, case, "caller-owned Context after render_context", expected=True, observed=False)
    return key, exp, texts, ctxspec


# --------------------------------------------------------------------------
# family reserved

RESERVED = ["context", "UNDEFINED", "STOP_RENDERING", "loop"]
LOOPCFG = ["on", "off", "off+page-on"]
ENTRIES = ["render", "render_unicode", "render_context", "get_def.render", "get_def.render_unicode", "lookup.render"]
# assignment forms; {n} the reserved name.  kind: code = inside <% %>, ctl = control line construct
ASSIGN_FORMS = [
    ("assign", "code", "{n} = 1"),
    ("augmented", "code", "{n} += 1"),
    ("annotated", "code", "{n}: int = 1"),
    ("walrus", "code", "zq = ({n} := 1)"),
    ("tuple-target", "code", "zq, {n} = 1, 2"),
    ("import-as", "code", "import os as {n}"),
    ("from-import-as", "code", "from os import sep as {n}"),
    ("def", "code", "def {n}():\n    pass"),
    ("class", "code", "class {n}:\n    pass"),
    ("for-in-code", "code", "for {n} in [1]:\n    pass"),
    ("with-in-code", "code", "with cm(1) as {n}:\n    pass"),
    ("except-in-code", "code", "try:\n    pass\nexcept Exception as {n}:\n    pass"),
    ("for-line", "ctl", [["for {n} in [1]:", [["text", "x"]]]], "endfor"),
    ("with-line", "ctl", [["with cm(1) as {n}:", [["text", "x"]]]], "endwith"),
    ("except-line", "ctl", [["try:", [["text", "x"]]], ["except Exception as {n}:", [["text", "y"]]]], "endtry"),
]
SCOPES_Q = ["body", "def", "nested"]
SCOPES_T = ["body", "def", "nested", "anon", "callbody"]


def _loop_kwargs(cfg):
    return {"enable_loop": cfg == "on"}, ({"enable_loop": "True"} if cfg == "off+page-on" else {})


def reserved_cases(tier):
    for n in RESERVED:
        for cfg in LOOPCFG:
            for ent in ENTRIES:
                yield {"kind": "entry", "name": n, "cfg": cfg, "entry": ent}
            for form in ASSIGN_FORMS:
                for scope in (SCOPES_Q if tier == "quick" else SCOPES_T):
                    yield {"kind": "assign", "name": n, "cfg": cfg, "form": form[0], "scope": scope}


def build_reserved_assign(c, name=None, readers=False):
    form = [f for f in ASSIGN_FORMS if f[0] == c["form"]][0]
    n = name or c["name"]
    if form[1] == "code":
        stmt = ["code", form[2].format(n=n)]
    else:
        stmt = ["ctl", [[h.format(n=n), b] for h, b in form[2]], form[3]]
    scope = c["scope"]
    defs = []
    stmts = [T("a"), stmt]
    if readers:
        # the name is read after the statement: in place, by a top-level def called from there, by a closure
        stmts += [T("["), E("str(%s)[:12]" % n), T("]"), E("rd19()"), ["def", "cl19", "", [T("("), E("str(%s)[:12]" % n), T(")")]], E("cl19()")]
        defs.append(["def", "rd19", "", [T("{"), E("str(%s)[:12]" % n), T("}")]])
    if scope == "body":
        body = stmts
    elif scope == "def":
        defs.append(["def", "f", "", stmts])
        body = [E("f()")]
    elif scope == "nested":
        defs.append(["def", "f", "", [["def", "inner", "", stmts], E("inner()")]])
        body = [E("f()")]
    elif scope == "anon":
        body = [["block", None, stmts]]
    else:
        defs.append(["def", "w", "", [E("caller.body()")]])
        body = [["call", "w()", None, stmts]]
    _, pattrs = _loop_kwargs(c["cfg"])
    f = {"body": body + defs}
    if pattrs:
        f["page_attrs"] = pattrs
    prog = ir.normalize({"files": {"main.html": f}, "main": "main.html"})
    return ir.print_program(prog)["main.html"]


def run_reserved(c):
    """-> (reserved: bool, observed (class, message) or ("ok", output))"""
    from mako.template import Template
    from mako.lookup import TemplateLookup
    from mako.runtime import Context
    from mako import util

    tk, pattrs = _loop_kwargs(c["cfg"])
    n = c["name"]
    must = not (n == "loop" and c["cfg"] == "off")
    if n == "loop" and c["cfg"] == "off+page-on" and c["kind"] == "entry":
        # documented (runtime.rst, "Migrating Legacy Templates that Use the Word loop"): with enable_loop=False on the
        # Template/TemplateLookup "it's safe to pass the name loop to the Template.render method"; a template that turns
        # the loop context back on in its <%page> tag is rendered by the same callers.  The statement ("loop while
        # enabled") and the documentation disagree here: DONT_CARE.
        must = None
    try:
        if c["kind"] == "assign":
            src = build_reserved_assign(c)
            t = Template(src, **tk)
            out = t.render_unicode(cm=env.cm)
            if must is False:
                # an ordinary name: the same program with readers of the name must give what it gives with any other name
                def _twin(nm):
                    s_ = build_reserved_assign(c, name=nm, readers=True)
                    try:
                        return s_, ("ok", Template(s_, **tk).render_unicode(cm=env.cm))
                    except Exception as e_:  # noqa
                        return s_, (type(e_).__name__, str(e_)[:80].replace(nm, "NAME"))
                s1, o1 = _twin(n)
                s2, o2 = _twin("item19")
                if o1 != o2:
                    return must, ("differs-from-an-ordinary-name", {"with loop": o1, "with item19": o2}), s1
            return must, ("ok", out), src
        page = "<%page enable_loop=\"True\"/>" if pattrs else ""
        src = page + "x<%def name=\"f()\">y</%def>"
        ent = c["entry"]
        if ent == "lookup.render":
            lk = TemplateLookup(**tk)
            lk.put_string("m.html", src)
            t = lk.get_template("m.html")
            out = t.render(**{n: 1})
        else:
            t = Template(src, **tk)
            if ent == "render":
                out = t.render(**{n: 1})
            elif ent == "render_unicode":
                out = t.render_unicode(**{n: 1})
            elif ent == "render_context":
                buf = util.FastEncodingBuffer()
                t.render_context(Context(buf, **{n: 1}))
                out = buf.getvalue()
            elif ent == "get_def.render":
                out = t.get_def("f").render(**{n: 1})
            else:
                out = t.get_def("f").render_unicode(**{n: 1})
        if isinstance(out, bytes):
            out = out.decode()
        return must, ("ok", out), src
    except Exception as e:  # noqa
        return must, (type(e).__name__, str(e)), src


def check_reserved(c, st):
    must, obs, src = run_reserved(c)
    st.evaluations += 1
    st.transitions += 1
    st.traces += 1
    st.oracles["reserved-name"] += 1
    st.outcomes[("reserved", c["kind"], {True: "must", False: "free", None: "dontcare"}[must], obs[0])] += 1
    if must is None:
        st.extra["dontcare_reserved_entry_loop_reenabled_by_page"] = st.extra.get("dontcare_reserved_entry_loop_reenabled_by_page", 0) + 1
        return
    case = {"fam": "reserved", "c": c, "template": src}
    what = c.get("entry") or ("%s@%s" % (c["form"], c["scope"]))
    if must:
        if obs[0] != "NameConflictError":
            st.violation(
                "reserved:%s:%s:cfg=%s:no-NameConflictError" % (c["kind"], c["name"], c["cfg"]),
                case,
                "reserved name must raise NameConflictError (%s)" % what,
                expected="NameConflictError",
                observed=list(obs),
            )
        elif c["name"] not in obs[1]:
            st.violation("reserved:message-does-not-name:%s" % c["name"], case, "NameConflictError names the word", expected=c["name"], observed=list(obs))
    else:
        # loop disabled: an ordinary name
        if obs[0] == "differs-from-an-ordinary-name":
            st.violation("reserved:loop-disabled-not-an-ordinary-name:%s" % what, case, "loop is an ordinary name while disabled: read after its assignment in place, by a top-level def, by a closure", expected=obs[1]["with item19"], observed=obs[1]["with loop"])
        elif obs[0] == "NameConflictError":
            st.violation("reserved:loop-disabled-still-reserved:%s" % c["kind"], case, "loop is an ordinary name while disabled", expected="no NameConflictError", observed=list(obs))


# --------------------------------------------------------------------------
# shared: an in-process cache backend (no mako import at module level)


def _install_cache_plugin():
    from mako import cache
    from mako.cache import CacheImpl

    if "c04dict" in cache._cache_plugins.impls:
        return

    class C04DictCache(CacheImpl):
        """echoes the key (or the cache_tag argument) it is given in front of the created content; stores nothing"""

        def __init__(self, c):
            self.cache = c

        def get_or_create(self, key, creation_function, **kw):
            return "{" + env.show(kw.get("tag", key)) + "}" + creation_function()

        def set(self, key, value, **kw):
            pass

        def get(self, key, **kw):
            return None

        def invalidate(self, key, **kw):
            pass

    class C04StoreCache(CacheImpl):
        """a real cache: one dict per Template"""

        def __init__(self, c):
            self.cache = c
            self.store = {}

        def get_or_create(self, key, creation_function, **kw):
            if key not in self.store:
                self.store[key] = creation_function()
            return self.store[key]

        def set(self, key, value, **kw):
            self.store[key] = value

        def get(self, key, **kw):
            return self.store.get(key)

        def invalidate(self, key, **kw):
            self.store.pop(key, None)

    cache._cache_plugins.impls["c04dict"] = lambda: C04DictCache
    cache._cache_plugins.impls["c04store"] = lambda: C04StoreCache


def _wrap_place(place, frag):
    """put a fragment into the body / a top-level def / an anonymous block / a call body"""
    if place == "body":
        return frag
    if place == "def":
        return '<%def name="pf()">' + frag + "</%def>${pf()}"
    if place == "anon":
        return "<%block>" + frag + "</%block>"
    if place == "callbody":
        return '<%call expr="pw()">' + frag + '</%call><%def name="pw()">${caller.body()}</%def>'
    raise ValueError(place)


# --------------------------------------------------------------------------
# family sentinel: "context before builtins" when the context VALUE is the lookup's own default.  A name that is a
# Python builtin is bound (render argument / <%page> argument / <% %> assignment) to UNDEFINED, None or the object that
# the read passes as explicit default, and read by bare name and through context.get / [] / keys().  Formula oracle.

SENT_BUILTINS = ["id", "format", "max", "filter", "type"]
SENT_READS = {
    "bare": "sh(N)",
    "get": "sh(context.get('N'))",
    "get-UNDEFINED": "sh(context.get('N', UNDEFINED))",
    "get-default": "sh(context.get('N', dfl))",
    "item": "sh(context['N'])",
    "in-keys": "'N' in context.keys()",
}
SENT_VALUES = {"U": "UNDEFINED", "None": "None", "D": "dfl"}


def sentinel_cases(al):
    names = SENT_BUILTINS + [al.name]  # the same structure for every seed
    for name in names:
        for bind in ("ctx", "page", "assign"):
            for val in SENT_VALUES:
                if val == "D" and bind == "page":
                    continue  # a <%page> default is evaluated when the module is imported: no context object there
                for loc in ("body", "def"):
                    for read in SENT_READS:
                        for strict in ((False, True) if read == "bare" else (False,)):
                            yield {"name": name, "bind": bind, "val": val, "loc": loc, "read": read, "strict": strict}


def check_sentinel(al, c, st):
    import builtins
    from mako.template import Template
    from mako.runtime import UNDEFINED

    name, bind, val, loc, read = c["name"], c["bind"], c["val"], c["loc"], c["read"]
    head = ""
    if bind == "page":
        head = '<%%page args="%s=%s"/>' % (name, SENT_VALUES[val])
    elif bind == "assign":
        head = "<%% %s = %s %%>" % (name, SENT_VALUES[val])
    expr = SENT_READS[read].replace("N", name)
    if loc == "body":
        src = head + "[${%s}]" % expr
    else:
        src = head + '${f()}<%def name="f()">[${' + expr + "}]</%def>"
    ctx = {"sh": env.show, "dfl": env.DEFAULT}
    realval = {"U": UNDEFINED, "None": None, "D": env.DEFAULT}[val]
    if bind == "ctx":
        ctx[name] = realval
    shown = {"U": "U", "None": env.show(None), "D": env.show(env.DEFAULT)}[val]
    # oracle.  Where is the binding visible?  a render argument: everywhere.  A page argument / body assignment: as a
    # Python local in the body, and through the context of a def called by its bare name from the body.
    if read == "bare":
        visible = bind == "ctx" or loc == "def" or loc == "body"
    else:
        visible = bind == "ctx" or loc == "def"
    isb = name in builtins.__dict__
    if read == "in-keys":
        exp = ("out", "[%s]" % visible)
    elif visible:
        exp = ("out", "[%s]" % shown)
    elif isb:
        exp = ("out", "[%s]" % env.show(builtins.__dict__[name]))
    elif read == "bare":
        exp = ("exc", "NameError", "'%s' is not defined" % name, [name]) if c["strict"] else ("out", "[U]")
    elif read == "item":
        exp = ("exc", "KeyError", repr(name))
    else:
        exp = ("out", "[%s]" % {"get": env.show(None), "get-UNDEFINED": "U", "get-default": env.show(env.DEFAULT)}[read])
    st.evaluations += 1
    st.transitions += 1
    st.traces += 1
    st.oracles["sentinel"] += 1
    try:
        obs = ("out", Template(src, strict_undefined=c["strict"]).render_unicode(**ctx))
    except Exception as e:  # noqa
        obs = ("exc", type(e).__name__, str(e))
    ok = agrees(exp, obs, c["strict"])
    st.outcomes[("sentinel", "builtin-name" if isb else "ordinary-name", val, "ok" if ok else "differs")] += 1
    if not ok:
        sig = "sentinel:%s:%s-bound-to-%s:read-%s" % ("builtin-name" if isb else "ordinary-name", bind, SENT_VALUES[val].replace("dfl", "the-default-object"), read)
        st.violation(sig, {"fam": "sentinel", "c": c, "seed": al.seed, "template": src}, "context before builtins (formula)", expected=list(exp), observed=list(obs))
    if st.evaluations % 197 == 1:
        st.sample({"fam": "sentinel", "c": c, "template": src, "expected": list(exp)})


# --------------------------------------------------------------------------
# family attrs: tag attributes (and other pieces) holding SEVERAL expressions; each expression reads its own name,
# read nowhere else in the scope.  Every name has to be fetched.  Formula oracle.

ATTR_FILES = {
    "/d/i.html": "[inc]",
    "/d/q.html": '<%page args="q"/>[${q}]',
    "/d/n.html": '<%def name="p()">[ns]</%def>',
    "/d/t.html": "[T:${self.body()}]",
}
# tag -> (fragment, names, expected when all present, result class when a name is absent and not strict, file-level only)
ATTR_TAGS = {
    "include-file": ('<%include file="/${a}/${b}.html"/>', "ab", "[inc]", "TypeError", False),
    "include-file-3": ('<%include file="/${a}/${b}.${c}"/>', "abc", "[inc]", "TypeError", False),
    "include-file-adjacent": ('<%include file="/${a}${e}/${b}.html"/>', "aeb", "[inc]", "TypeError", False),
    "include-args": ('<%include file="/d/q.html" args="q=a + b"/>', "ab", "[di]", "TypeError", False),
    "include-file-and-args": ('<%include file="/${a}/q.html" args="q=b"/>', "ab", "[i]", None, False),
    "call-tag-attribute": ('<%self:show v="${a}-${b}"/>', "ab", "[d-i]", "TypeError", False),
    "call-tag-two-attributes": ('<%self:show2 v="${a}" w="${b}"/>', "ab", "[d|i]", "U", False),
    "call-expr": ('<%call expr="show(a + \'-\' + b)"></%call>', "ab", "[d-i]", "TypeError", False),
    "def-cache_key": ('<%def name="cf()" cached="True" cache_key="${a}-${b}">[c]</%def>${cf()}', "ab", "{d-i}[c]", "TypeError", False),
    "def-cache_key-and-argument": ('<%def name="cf()" cached="True" cache_key="${a}" cache_tag="${b}">[c]</%def>${cf()}', "ab", "{i}[c]", "U", False),
    "block-cache_key": ('<%block cached="True" cache_key="${a}-${b}">[c]</%block>', "ab", "{d-i}[c]", "TypeError", False),
    "expression-filter-arguments": ("[${'v' | tagf(a), tagf(b)}]", "ab", "[i(d(v))]", "TypeError", False),
    "page-cache_key": ('<%page cached="True" cache_key="${a}-${b}"/>[c]', "ab", "{d-i}[c]", "TypeError", True),
    "namespace-file-explicit-context": (
        "<%namespace name=\"ns\" file=\"/${context['a']}/${context['b']}.html\"/>${ns.p()}", "ab", "[ns]", "KeyError", True),
    "inherit-file-explicit-context": ("<%inherit file=\"/${context['a']}/${context['b']}.html\"/>x", "ab", "[T:x]", "KeyError", True),
}
ATTR_VALUES = {"a": "d", "b": "i", "c": "html", "e": ""}
ATTR_VALUES_BY_TAG = {"namespace-file-explicit-context": {"a": "d", "b": "n"}, "inherit-file-explicit-context": {"a": "d", "b": "t"}}
ATTR_PLACES = ["body", "def", "anon", "callbody"]


def attrs_cases():
    for tag, (_f, names, _e, _a, filelevel) in ATTR_TAGS.items():
        for place in (["body"] if filelevel else ATTR_PLACES):
            absents = [""] + list(names)
            for absent in absents:
                for strict in (False, True):
                    yield {"tag": tag, "place": place, "absent": absent, "strict": strict}


def check_attrs(al, c, st):
    from mako.lookup import TemplateLookup

    _install_cache_plugin()
    frag, names, exp_all, absent_class, _fl = ATTR_TAGS[c["tag"]]
    # spell the names after the seed's alphabet (a -> a_<name> ...): interchangeable identifiers
    spelled = {n: "%s_%s" % (n, al.name) for n in names}
    for n in names:
        frag = frag.replace("${%s}" % n, "${%s}" % spelled[n]).replace("context['%s']" % n, "context['%s']" % spelled[n])
    if c["tag"] in ("include-args", "call-expr"):
        frag = frag.replace("a + ", spelled["a"] + " + ").replace("+ b", "+ " + spelled["b"])
    if c["tag"] == "include-file-and-args":
        frag = frag.replace("q=b", "q=" + spelled["b"])
    if c["tag"] == "expression-filter-arguments":
        frag = frag.replace("tagf(a)", "tagf(%s)" % spelled["a"]).replace("tagf(b)", "tagf(%s)" % spelled["b"])
    src = _wrap_place(c["place"], frag)
    src += '<%def name="show(v)">[${v}]</%def><%def name="show2(v, w)">[${sh(v)}|${sh(w)}]</%def>'
    vals = dict(ATTR_VALUES, **ATTR_VALUES_BY_TAG.get(c["tag"], {}))
    ctx = {"sh": env.show, "tagf": env.tagf}
    for n in names:
        if n != c["absent"]:
            ctx[spelled[n]] = vals[n]
    if not c["absent"]:
        exp = ("out", exp_all)
    elif absent_class == "KeyError":
        exp = ("exc", "KeyError", repr(spelled[c["absent"]]))
    elif c["strict"]:
        exp = ("exc", "NameError", "'%s' is not defined" % spelled[c["absent"]], [spelled[c["absent"]]])
    elif absent_class == "U":
        exp = ("out", exp_all.replace(vals[c["absent"]], "U", 1) if c["tag"] != "def-cache_key-and-argument" else ("{U}[c]" if c["absent"] == "b" else exp_all))
    elif absent_class is None:
        exp = None  # which error a missing include target / argument gives is C07's business
    else:
        exp = ("exc", absent_class, "")
    st.evaluations += 1
    st.transitions += 1
    st.traces += 1
    st.oracles["attrs"] += 1
    try:
        lk = TemplateLookup(strict_undefined=c["strict"], cache_impl="c04dict")
        for u, text in ATTR_FILES.items():
            lk.put_string(u, text)
        lk.put_string("/main.html", src)
        obs = ("out", lk.get_template("/main.html").render_unicode(**ctx))
    except Exception as e:  # noqa
        obs = ("exc", type(e).__name__, str(e))
    if exp is None:
        st.outcomes[("attrs", "dontcare", obs[0])] += 1
        return
    ok = agrees(exp, obs, c["strict"])
    st.outcomes[("attrs", exp[1] if exp[0] == "exc" else "out", "ok" if ok else (obs[1] if obs[0] == "exc" else "out"))] += 1
    if not ok:
        if obs[0] == "exc" and obs[1] == "NameError" and obs[2].startswith("name '"):
            sym = "NameError(not-fetched)"
        else:
            sym = "exp=%s:obs=%s" % (exp[1] if exp[0] == "exc" else "out", obs[1] if obs[0] == "exc" else "out")
        st.violation("attrs:%s:%s" % (c["tag"], sym), {"fam": "attrs", "c": c, "seed": al.seed, "template": src}, "every expression of an attribute reads its name (formula)", expected=list(exp), observed=list(obs))
    if st.evaluations % 97 == 1:
        st.sample({"fam": "attrs", "c": c, "template": src, "expected": list(exp)})


# --------------------------------------------------------------------------
# family cached: a cached section whose body reads a free name; renders of ONE template in sequence against a real
# (dict) cache backend.  A render served from the cache does not read the name: no NameError under strict_undefined.

CACHED_SECTIONS = {
    "toplevel-def": '<%def name="cf()" cached="True"@KEY@>[${sh(@T@)}]</%def>${cf()}',
    "nested-def": '<%def name="o()"><%def name="cf()" cached="True"@KEY@>[${sh(@T@)}]</%def>${cf()}</%def>${o()}',
    "def-in-anonymous-block": '<%block><%def name="cf()" cached="True"@KEY@>[${sh(@T@)}]</%def>${cf()}</%block>',
    "anonymous-block": '<%block cached="True"@KEY@>[${sh(@T@)}]</%block>',
    "named-block": '<%block name="nb" cached="True"@KEY@>[${sh(@T@)}]</%block>',
    "page": '<%page cached="True"@KEY@/>[${sh(@T@)}]',
}
CACHED_KEYS = {"default-key": "", "literal-key": ' cache_key="lit"', "literal-key-and-argument": ' cache_key="lit" cache_tag="x"', "expression-key": ' cache_key="${@K@}"'}
# render sequences: (T present?, key value)
CACHED_SEQS = {
    "present-then-absent": [(True, "k1"), (False, "k1")],
    "present-then-absent-then-new-key": [(True, "k1"), (False, "k1"), (False, "k2")],
    "absent-then-present": [(False, "k1"), (True, "k1")],
    "present-twice-other-value": [(True, "k1"), ("other", "k1")],
}


def cached_cases():
    for sec in CACHED_SECTIONS:
        for key in CACHED_KEYS:
            for seq in CACHED_SEQS:
                for strict in (False, True):
                    yield {"section": sec, "key": key, "seq": seq, "strict": strict}


def check_cached(al, c, st):
    from mako.template import Template

    _install_cache_plugin()
    T, K = "t_" + al.name, "k_" + al.name2
    src = CACHED_SECTIONS[c["section"]].replace("@KEY@", CACHED_KEYS[c["key"]]).replace("@T@", T).replace("@K@", K)
    st.evaluations += 1
    st.traces += 1
    st.oracles["cached"] += 1
    case = {"fam": "cached", "c": c, "seed": al.seed, "template": src}
    try:
        t = Template(src, strict_undefined=c["strict"], cache_impl="c04store")
    except Exception as e:  # noqa
        st.violation("cached:%s:does-not-compile" % c["section"], case, "cached section compiles", expected="compiles", observed="%s: %s" % (type(e).__name__, e))
        return
    store = {}
    for i, (present, kval) in enumerate(CACHED_SEQS[c["seq"]]):
        ctx = {"sh": env.show, K: kval}
        if present:
            ctx[T] = "T1" + al.sfx if present is True else "T2" + al.sfx
        ckey = kval if c["key"] == "expression-key" else "fixed"
        # model: a stored text is returned as it is; otherwise the body runs: value / U / strict NameError (nothing stored)
        if ckey in store:
            exp = ("out", store[ckey])
        elif present:
            exp = ("out", "[%s]" % ctx[T])
        elif c["strict"]:
            exp = ("exc", "NameError", "'%s' is not defined" % T, [T])
        else:
            exp = ("out", "[U]")
        if exp[0] == "out":
            store[ckey] = exp[1]
        st.transitions += 1
        try:
            obs = ("out", t.render_unicode(**ctx))
        except Exception as e:  # noqa
            obs = ("exc", type(e).__name__, str(e))
        ok = agrees(exp, obs, c["strict"])
        if (
            not ok
            and c["strict"]
            and not present
            and c["section"] in ("anonymous-block", "named-block")
            and agrees(("exc", "NameError", "", [T]), obs, True)
        ):
            # DONT_CARE: the names a block reads are fetched by the callable the block is written in (the body), on its
            # entry; under strict_undefined a name absent from the context is reported there although the block itself
            # would have been served from the cache.  Where the strict NameError is raised is not fixed by the statement.
            st.outcomes[("cached", "render-%d" % (i + 1), "dontcare: strict NameError from the enclosing callable of a cached block")] += 1
            continue
        st.outcomes[("cached", "render-%d" % (i + 1), exp[1] if exp[0] == "exc" else "out", "ok" if ok else (obs[1] if obs[0] == "exc" else "out"))] += 1
        if not ok:
            served = "served-from-cache" if (ckey in store and exp[0] == "out" and i > 0 and store.get(ckey) == exp[1] and not (present and exp[1] == "[%s]" % ctx.get(T))) else "body-runs"
            sig = "cached:%s:%s:%s:exp=%s:obs=%s" % (c["section"], c["key"], served, exp[1] if exp[0] == "exc" else "out", obs[1] if obs[0] == "exc" else "out")
            st.violation(sig, dict(case, render=i + 1), "cached section (dict model)", expected=list(exp), observed=list(obs))
            return


# --------------------------------------------------------------------------
# family flagname: the tested variable is spelled like one of the escape flags (x, h, u, n, trim, entity, unicode,
# decode, str).  After '|' or in filter="..." these words are filter names; read anywhere else they are ordinary
# variables.  Oracle: a direct formula (context value -> builtin -> UNDEFINED | strict NameError), no mako code.

FLAG_NAMES = ["x", "h", "u", "n", "trim", "entity", "unicode", "decode", "str"]
# site -> template; NAME = the variable, sh = the show helper, {v} in the expected text = show(resolved value)
FLAG_SITES = {
    "nested-def-default": ('<%def name="outer()"><%def name="inner(k=NAME)">[${sh(k)}]</%def>${inner()}</%def>${outer()}', "[{v}]"),
    "nested-def-second-default": ('<%def name="outer()"><%def name="inner(j=1, k=NAME)">[${sh(k)}]</%def>${inner()}</%def>${outer()}', "[{v}]"),
    "nested-def-default-expression": ('<%def name="outer()"><%def name="inner(k=[NAME, 1][0])">[${sh(k)}]</%def>${inner()}</%def>${outer()}', "[{v}]"),
    "nested-def-keyword-only-default": ('<%def name="outer()"><%def name="inner(*, k=NAME)">[${sh(k)}]</%def>${inner()}</%def>${outer()}', "[{v}]"),
    "nested-def-default-also-read-outside": (
        '<%def name="outer()"><%def name="inner(k=NAME)">[${sh(k)}]</%def>${inner()}(${sh(NAME)})</%def>${outer()}', "[{v}]({v})"),
    "doubly-nested-def-default": (
        '<%def name="outer()"><%def name="mid()"><%def name="inner(k=NAME)">[${sh(k)}]</%def>${inner()}</%def>${mid()}</%def>${outer()}', "[{v}]"),
    "def-in-anonymous-block-default": ('<%block><%def name="inner(k=NAME)">[${sh(k)}]</%def>${inner()}</%block>', "[{v}]"),
    "def-in-anonymous-block-keyword-only-default": ('<%block><%def name="inner(*, k=NAME)">[${sh(k)}]</%def>${inner()}</%block>', "[{v}]"),
    "def-in-named-block-default": ('<%block name="nb"><%def name="inner(k=NAME)">[${sh(k)}]</%def>${inner()}</%block>', "[{v}]"),
    "toplevel-def-cache_key": ('<%def name="f()" cached="True" cache_key="${NAME}">[c]</%def>${f()}', "{{{v}}}[c]"),
    "toplevel-def-cache-argument": ('<%def name="f()" cached="True" cache_tag="${NAME}">[c]</%def>${f()}', "{{{v}}}[c]"),
    "nested-def-cache_key": (
        '<%def name="outer()"><%def name="inner()" cached="True" cache_key="${NAME}">[c]</%def>${inner()}</%def>${outer()}', "{{{v}}}[c]"),
    "nested-def-cache-argument": (
        '<%def name="outer()"><%def name="inner()" cached="True" cache_tag="${NAME}">[c]</%def>${inner()}</%def>${outer()}', "{{{v}}}[c]"),
    "anonymous-block-cache_key": ('<%block cached="True" cache_key="${NAME}">[c]</%block>', "{{{v}}}[c]"),
    "named-block-cache_key": ('<%block name="nb" cached="True" cache_key="${NAME}">[c]</%block>', "{{{v}}}[c]"),
    "page-cache_key": ('<%page cached="True" cache_key="${NAME}"/>[c]', "{{{v}}}[c]"),
    "body-expression": ("[${sh(NAME)}]", "[{v}]"),
    "toplevel-def-expression": ('<%def name="f()">[${sh(NAME)}]</%def>${f()}', "[{v}]"),
    "code-block": ("<% zq = NAME %>[${sh(zq)}]", "[{v}]"),
    "control-line": ("% for it in [NAME]:\n[${sh(it)}]\n% endfor\n", "[{v}]\n"),
    "call-tag-attribute": ('<%self:show v="${NAME}"/><%def name="show(v)">[${sh(v)}]</%def>', "[{v}]"),
    "call-tag-expr": ('<%call expr="show(NAME)"></%call><%def name="show(v)">[${sh(v)}]</%def>', "[{v}]"),
}
# Sites that fail on the unchanged tree for EVERY spelling: two open known findings (C04-toplevel-def-default-reads-context,
# C04-def-in-call-default-reads-context, matched on the signature prefix "flagname:<site>:"); enumerated like the others
FLAG_SITES_KNOWN = {
    "toplevel-def-default": ('<%def name="f(k=NAME)">[${sh(k)}]</%def>${f()}', "[{v}]"),
    "def-in-call-default": (
        '<%call expr="w()"><%def name="inner(k=NAME)">[${sh(k)}]</%def>${inner()}</%call><%def name="w()">${caller.body()}</%def>', "[{v}]"),
}
FLAG_SITES.update(FLAG_SITES_KNOWN)


def flag_cases(al):
    for site in FLAG_SITES:
        for name in FLAG_NAMES + [al.name]:
            for present in (True, False):
                if name == "str" and present:
                    # a context variable called str shadows the name the default filter is written with in the generated
                    # module: that is the filter pipeline's business (C02), DONT_CARE here
                    continue
                for strict in (False, True):
                    yield {"site": site, "name": name, "present": present, "strict": strict}


def check_flag(al, c, st, sites=None):
    import builtins
    from mako.template import Template

    _install_cache_plugin()
    tpl, fmt = (sites or FLAG_SITES)[c["site"]]
    name = c["name"]
    src = tpl.replace("NAME", name)
    ctx = {"sh": env.show}
    if c["present"]:
        ctx[name] = "CB" + al.sfx
    # the oracle: context value, else builtin, else UNDEFINED / NameError naming the variable
    if c["present"]:
        exp = ("out", fmt.format(v="CB" + al.sfx))
    elif name in builtins.__dict__:
        exp = ("out", fmt.format(v=env.show(builtins.__dict__[name])))
    elif c["strict"]:
        exp = ("exc", "NameError", "'%s' is not defined" % name, [name])
    else:
        exp = ("out", fmt.format(v="U"))
    st.evaluations += 1
    st.transitions += 1
    st.traces += 1
    st.oracles["flagname"] += 1
    try:
        t = Template(src, strict_undefined=c["strict"], cache_impl="c04dict")
        obs = ("out", t.render_unicode(**ctx))
    except Exception as e:  # noqa
        obs = ("exc", type(e).__name__, str(e))
    ok = agrees(exp, obs, c["strict"])
    st.outcomes[("flagname", "flag" if name in FLAG_NAMES else "control", exp[1] if exp[0] == "exc" else "out", "ok" if ok else obs[1][:20])] += 1
    if not ok:
        if obs[0] == "exc" and obs[1] == "NameError" and obs[2].startswith("name '"):
            sym = "NameError(not-fetched)"
        else:
            sym = "exp=%s:obs=%s" % (exp[1] if exp[0] == "exc" else "out", obs[1] if obs[0] == "exc" else "out")
        sig = "flagname:%s:%s:%s" % (c["site"], "escape-flag-spelling" if name in FLAG_NAMES else "ordinary-spelling", sym)
        case = {"fam": "flagname", "c": c, "seed": al.seed, "template": src, "ctx": sorted(ctx)}
        st.violation(sig, case, "a variable spelled like an escape flag resolves like any name", expected=list(exp), observed=list(obs))
    if st.evaluations % 97 == 1:
        st.sample({"fam": "flagname", "c": c, "template": src, "expected": list(exp)})


# --------------------------------------------------------------------------
# family imports: compile history inside one process.  Templates whose module-level names come from the `imports=`
# option (of Template / of TemplateLookup) or from a <%! %> block are compiled before and after templates that read
# the SAME names from the context.  Every operation has its own, history-free oracle (a formula); one job runs the
# whole sequence readers, binders, readers, binders in a single worker.  A failing operation is located with
# core.find_prelude (fresh interpreter: alone, then after each earlier operation) and carries that prelude.

MODNAME = "mc.props.c04"
IMP_READ_SITES = {
    "body": "[${sh(N)}]",
    "toplevel-def": '${f()}<%def name="f()">[${sh(N)}]</%def>',
    "nested-def": '${f()}<%def name="f()"><%def name="inner()">[${sh(N)}]</%def>${inner()}</%def>',
    "code-block": "<% zq = N %>[${sh(zq)}]",
    "control-line": "% for it in [N]:\n[${sh(it)}]\n% endfor\n",
    "body-with-own-module-block": "<%! zz = 1 %>[${sh(N)}]",
}
IMP_BINDERS = ["template-imports", "template-imports+module-block", "lookup-imports", "lookup-imports+module-block", "module-block"]


def imports_ops(al):
    n1, n2 = "i" + al.name, "j" + al.name2
    readers = []
    for site in IMP_READ_SITES:
        for which in ((1, 2) if site == "body" else (1,)):
            for present in (True, False):
                for strict in (False, True):
                    readers.append({"role": "reader", "site": site, "which": which, "present": present, "strict": strict})
    binders = []
    for kind in IMP_BINDERS:
        for reads in (True, False):
            for present in (True, False):
                binders.append({"role": "binder", "kind": kind, "reads": reads, "present": present})
    # clean readers, binders after readers, readers after binders, binders after binders and readers
    return readers + binders + readers + binders, (n1, n2)


def check_imports_op(al, op, st):
    """run one operation against its history-free oracle.  -> None | (sig-part, expected, observed, source)"""
    import builtins
    from mako.template import Template
    from mako.lookup import TemplateLookup

    n1, n2 = "i" + al.name, "j" + al.name2
    st.evaluations += 1
    st.transitions += 1
    st.oracles["imports"] += 1
    ctx = {"sh": env.show}
    if op["role"] == "reader":
        name = n1 if op["which"] == 1 else n2
        src = IMP_READ_SITES[op["site"]].replace("N", name)
        if op["present"]:
            ctx[name] = "CB" + al.sfx
            exp = ("out", "[CB%s]" % al.sfx)
        elif op["strict"]:
            exp = ("exc", "NameError", "'%s' is not defined" % name, [name])
        else:
            exp = ("out", "[U]")
        if op["site"] == "control-line" and exp[0] == "out":
            exp = ("out", exp[1] + "\n")
        try:
            obs = ("out", Template(src, strict_undefined=op["strict"]).render_unicode(**ctx))
        except Exception as e:  # noqa
            obs = ("exc", type(e).__name__, str(e))
        what = "reader:" + op["site"]
    else:
        kind = op["kind"]
        lines = ["from os import sep as %s" % n1, "import os.path as %s" % n2]
        block = "<%%! %s = 'M' %%>" % n1 if kind == "module-block" else ("<%! zz = 1 %>" if kind.endswith("+module-block") else "")
        src = block + ("[${sh(%s)}]" % n1 if op["reads"] else "[a]")
        if op["present"]:
            ctx[n1] = "CB" + al.sfx
        # a module-level name (imports= or <%! %>) wins over the context
        import os

        val = "M" if kind == "module-block" else os.sep
        exp = ("out", "[%s]" % val if op["reads"] else "[a]")
        try:
            if kind.startswith("template-imports"):
                t = Template(src, imports=lines)
            elif kind.startswith("lookup-imports"):
                lk = TemplateLookup(imports=lines)
                lk.put_string("m.html", src)
                t = lk.get_template("m.html")
            else:
                t = Template(src)
            obs = ("out", t.render_unicode(**ctx))
        except Exception as e:  # noqa
            obs = ("exc", type(e).__name__, str(e))
        what = "binder:" + kind
    st.outcomes[("imports", op["role"], exp[1] if exp[0] == "exc" else "out", obs[1] if obs[0] == "exc" else "out")] += 1
    if agrees(exp, obs, op.get("strict", False)):
        return None
    if obs[0] == "exc" and obs[1] == "NameError" and obs[2].startswith("name '"):
        sym = "NameError(not-fetched)"
    else:
        sym = "exp=%s:obs=%s" % (exp[1] if exp[0] == "exc" else "out", obs[1] if obs[0] == "exc" else "out")
    return (what + ":" + sym, exp, obs, src)


def run_imports_family(al, st):
    ops, _names = imports_ops(al)
    history = []
    per_sig = {}
    explained = []
    for op in ops:
        case = {"fam": "imports", "op": op, "seed": al.seed}
        r = check_imports_op(al, op, st)
        st.states += 1
        st.nontrivial += 1
        st.traces += 1
        if r is not None:
            part, exp, obs, src = r
            per_sig[part] = per_sig.get(part, 0) + 1
            if per_sig[part] <= 2:
                # does it fail alone, or only after an earlier operation of this process?  candidates, least promising
                # first (find_prelude walks the list backwards): the few most recent operations, every earlier binder,
                # one binder of each kind, and whatever already explained another failure of this run
                binders = [h for h in history if h["op"]["role"] == "binder"]
                reps = []
                for kind in IMP_BINDERS:
                    reps += [h for h in binders if h["op"]["kind"] == kind][:1]
                cand = []
                for h in history[-3:] + binders + reps + explained:
                    if h in cand:
                        cand.remove(h)
                    cand.append(h)
                prelude = core.find_prelude(MODNAME, case, cand, max_tries=len(cand))
                if prelude:
                    explained.append(prelude[0])
                if prelude is None:
                    st.extra.setdefault("harness_errors", []).append("imports: failure not reproducible in a fresh interpreter: %r" % (case,))
                else:
                    after = ":after an earlier " + (prelude[0]["op"].get("kind") or "reader") if prelude else ""
                    st.violation("imports:" + part + after, dict(case, prelude=prelude, template=src), "history-free formula", expected=list(exp), observed=list(obs))
            else:
                st.extra["imports_failures_not_listed"] = st.extra.get("imports_failures_not_listed", 0) + 1
        history.append(case)
    st.extra["imports_ops"] = len(ops)
    st.sample({"fam": "imports", "sequence": "readers, binders, readers, binders", "ops": len(ops), "first_binder": ops[[o["role"] for o in ops].index("binder")]})


# --------------------------------------------------------------------------
# family kwargs

KW_POS = ["body", "def", "selfdef", "nested", "anon", "named", "callbody", "nsdef", "include", "after-mutation"]
KW_ARGS = [{}, {"a": 1, "b": "x"}, {"a": 1, "zz": [1, 2], "b": "x"}]
KW_ENTRIES = ["render_unicode", "render", "render_context", "get_def.render_unicode"]
PROBE = "${sorted(context.kwargs.items())}"


def build_kwargs(pos):
    files = {}
    head = "<%page args=\"a=0\"/><% loc = 5 %>"
    if pos == "body":
        src = head + "[" + PROBE + "]"
    elif pos == "def":
        src = head + "${f()}<%def name=\"f()\">[" + PROBE + "]</%def>"
    elif pos == "selfdef":
        src = head + "${self.f()}<%def name=\"f()\">[" + PROBE + "]</%def>"
    elif pos == "nested":
        src = head + "${f()}<%def name=\"f()\"><%def name=\"i()\">[" + PROBE + "]</%def>${i()}</%def>"
    elif pos == "anon":
        src = head + "<%block>[" + PROBE + "]</%block>"
    elif pos == "named":
        src = head + "<%block name=\"nb\">[" + PROBE + "]</%block>"
    elif pos == "callbody":
        src = head + "<%call expr=\"w()\">[" + PROBE + "]</%call><%def name=\"w()\">${caller.body()}</%def>"
    elif pos == "nsdef":
        src = "<%namespace name=\"ns\" file=\"ns.html\"/>" + head + "${ns.p()}"
        files["ns.html"] = "<%def name=\"p()\">[" + PROBE + "]</%def>"
    elif pos == "include":
        src = head + "<%include file=\"inc.html\" args=\"q=5\"/>"
        files["inc.html"] = "<%page args=\"q=1\"/>[" + PROBE + "]"
    else:
        src = head + "<% context.kwargs['extra'] = 1 %><% context.kwargs.clear() %>[" + PROBE + "]"
    # a def that get_def can render
    src += "<%def name=\"top()\">[" + PROBE + "]</%def>"
    files["main.html"] = src
    return files


def check_kwargs(c, st):
    from mako.lookup import TemplateLookup
    from mako.runtime import Context
    from mako import util

    files = build_kwargs(c["pos"])
    args = KW_ARGS[c["args"]]
    exp = "[" + repr(sorted(args.items())) + "]"
    st.evaluations += 1
    st.transitions += 1
    st.traces += 1
    st.oracles["kwargs"] += 1
    case = {"fam": "kwargs", "c": c, "template": files}
    try:
        lk = TemplateLookup()
        for u, s in files.items():
            lk.put_string(u, s)
        t = lk.get_template("main.html")
        ent = c["entry"]
        post_ok = True
        given = dict(args)
        if ent == "render_unicode":
            out = t.render_unicode(**args)
        elif ent == "render":
            out = t.render(**args)
            out = out.decode() if isinstance(out, bytes) else out
        elif ent == "render_context":
            buf = util.FastEncodingBuffer()
            cobj = Context(buf, **args)
            t.render_context(cobj)
            out = buf.getvalue()
            post_ok = cobj.kwargs == given
        else:
            out = t.get_def("top").render_unicode(**args)
        obs = ("out", out)
        ok = out == exp and post_ok and args == given
    except Exception as e:  # noqa
        obs = ("exc", type(e).__name__, str(e))
        ok = False
    st.outcomes[("kwargs", c["pos"] if not ok else "ok", obs[0])] += 1
    if not ok:
        st.violation("kwargs:%s:%s" % (c["pos"], obs[0] if obs[0] == "exc" else "differs"), case, "context.kwargs == render arguments", expected=exp, observed=list(obs))


def kwargs_cases():
    for pos in KW_POS:
        for a in range(len(KW_ARGS)):
            for ent in KW_ENTRIES:
                yield {"pos": pos, "args": a, "entry": ent}


# --------------------------------------------------------------------------
# family rebind: "defs called by name from the body see the CURRENT values of its <% %> assignments" along a sequence of
# re-bindings in one render.  The values of a sequence are chosen so that a snapshot compared by equality, by hash or by
# identity would each be fooled once: equal objects of different type (1, True, 1.0), equal containers holding them, one
# object mutated in place, and plain changing controls.  Formula oracle: the concatenation of [type:repr] of every step.

REBIND_SEQS = {
    "equal-numbers-of-different-type": ["1", "True", "1.0", "1"],
    "equal-zeroes-of-different-type": ["0", "False", "0.0", "-0.0"],
    "equal-tuples-of-different-content": ["(1, 0)", "(True, False)", "(1.0, 0.0)", "(1, 0)"],
    "equal-lists-of-different-content": ["[1]", "[True]", "[1.0]", "[1]"],
    "equal-dicts-of-different-content": ["{'k': 1}", "{'k': True}", "{True: 1}", "{1.0: 1.0}"],
    "equal-strings-control": ["'a'", "'b'", "'a'", "'b'"],
    "changing-numbers-control": ["1", "2", "3", "1"],
    "same-value-control": ["7", "7", "7", "7"],
    "None-and-UNDEFINED": ["None", "UNDEFINED", "None", "0"],
}
REBIND_FIRST = ["assign", "page", "ctx"]  # how the first value is bound; the later ones are <% %> assignments
REBIND_CALLS = {"direct": "${f()}", "capture": "${capture(f)}", "call-tag": "<%call expr=\"f()\"></%call>", "in-for": "\n% for zi in [0]:\n${f()}\n% endfor\n"}
REBIND_KINDS = ["rebind", "mutate", "augment", "other-name"]


def rebind_cases():
    for seq in REBIND_SEQS:
        for first in REBIND_FIRST:
            for call in REBIND_CALLS:
                for strict in (False, True):
                    yield {"kind": "rebind", "seq": seq, "first": first, "call": call, "strict": strict}
    for kind in REBIND_KINDS[1:]:
        for first in REBIND_FIRST:
            if (kind, first) in (("mutate", "page"), ("augment", "ctx")):
                continue  # a mutable <%page> default is shared between renders as in Python; += on a name never assigned before
            for call in REBIND_CALLS:
                yield {"kind": kind, "seq": "", "first": first, "call": call, "strict": False}


def check_rebind(al, c, st):
    from mako.template import Template
    from mako.runtime import UNDEFINED

    n, m = al.name, al.name2
    kind, first, call = c["kind"], c["first"], REBIND_CALLS[c["call"]]
    if kind == "rebind":
        vals = REBIND_SEQS[c["seq"]]
        steps = ["%s = %s" % (n, v) for v in vals]
        v0 = vals[0]
    elif kind == "mutate":  # one list object, changed in place between the calls, re-bound to an equal copy at the end
        v0 = "[]"
        steps = ["%s = []" % n, "%s.append(1)" % n, "%s.append(True)" % n, "%s = list(%s)" % (n, n)]
        if first == "ctx":
            steps = steps[:3] + ["%s.append(1.0)" % n]  # never assigned in the body: stays a context name, the object changes
    elif kind == "augment":
        v0 = "(1,)"
        steps = ["%s = (1,)" % n, "%s += (True,)" % n, "%s = %s[:1]" % (n, n), "%s = (1.0,) + %s[1:]" % (n, n)]
    else:  # another body variable changes while this one stays: both are shown
        v0 = "1"
        steps = ["%s = 1" % n, "%s = True" % m, "%s = 1.0" % m, "%s = 1" % m]
    head, ctx = "", {}
    if first == "page":
        head = '<%%page args="%s=%s"/>\n' % (n, v0)
        steps = steps[1:]
    elif first == "ctx":
        steps = steps[1:]
    src = head + ("" if first == "assign" else call)
    for s_ in steps:
        src += "<%% %s %%>" % s_ + call
    src += '<%%def name="f()">[${type(%s).__name__}:${repr(%s)}|${type(%s).__name__}:${repr(%s)}]</%%def>' % (n, n, m, m)
    st.oracles["rebind"] += 1
    t = None
    exp = None
    for rnd in (1, 2):  # the same Template object rendered twice; oracle: plain Python, fresh values per render
        g = {"UNDEFINED": UNDEFINED}
        scope = {m: "k"}
        shown = []

        def show():
            shown.append("[%s:%r|%s:%r]" % (type(scope[n]).__name__, scope[n], type(scope[m]).__name__, scope[m]))

        ctx = {m: "k"}
        if first != "assign":
            scope[n] = eval(v0, g)
            if first == "ctx":
                ctx[n] = eval(v0, g)  # its own object: the template changes it in place
            show()
        for s_ in steps:
            exec(s_, g, scope)
            show()
        exp = "".join(shown)
        st.evaluations += 1
        st.transitions += len(shown)
        try:
            t = t or Template(src, strict_undefined=c["strict"])
            obs = t.render_unicode(**ctx)
            obs = "".join(obs.split("\n"))
        except Exception as e:  # noqa
            obs = "%s: %s" % (type(e).__name__, e)
        ok = obs == exp
        st.outcomes[("rebind", kind, "ok" if ok else "differs")] += 1
        if not ok:
            sig = "rebind:%s:%s:first-%s" % (kind, c["seq"] or "-", first)
            st.violation(sig, {"fam": "rebind", "c": c, "seed": al.seed, "template": src, "render": rnd}, "a def called by name from the body sees the current values (formula)", expected=exp, observed=obs)
            break
    st.traces += 1
    if st.traces % 97 == 1:
        st.sample({"fam": "rebind", "c": c, "template": src, "expected": exp})


# --------------------------------------------------------------------------
# family nsdef: reads inside a def written in a <%namespace name=...> tag (a callable of its own, reached as ns.f(); it
# is no closure of the body).  Sources: module-level <%! %> assignment, Template(imports=), render argument, builtin; the
# body's <% %> assignment of the same name is a distractor (not visible: the def is not called by bare name).
# Also the reserved module-level names UNDEFINED and STOP_RENDERING.  Formula oracle.

NSDEF_SUBSETS = [(), ("module",), ("imports",), ("ctx",), ("module", "ctx"), ("imports", "ctx"), ("module", "imports"), ("assign",), ("assign", "ctx"), ("assign", "module")]
NSDEF_SHAPES = ["plain", "with-import-star-namespace", "two-defs", "nested-in-nsdef", "control-line"]


def nsdef_cases(al):
    for names in (al.name, al.builtin):
        for sub in NSDEF_SUBSETS:
            for shape in NSDEF_SHAPES:
                for strict in (False, True):
                    yield {"kind": "name", "name": names, "binds": list(sub), "shape": shape, "strict": strict}
    for shape in NSDEF_SHAPES:
        for probe in ("UNDEFINED-identity", "UNDEFINED-as-default", "STOP_RENDERING-return", "STOP_RENDERING-identity"):
            for strict in (False, True):
                yield {"kind": "reserved", "probe": probe, "shape": shape, "strict": strict}


def check_nsdef(al, c, st):
    import builtins
    from mako.lookup import TemplateLookup
    from mako import runtime

    shape, strict = c["shape"], c["strict"]
    head, kw, ctx = "", {}, {"sh": env.show}
    if c["kind"] == "name":
        n = c["name"]
        binds = c["binds"]
        if "module" in binds:
            head += "<%%! %s = 'M%s' %%>" % (n, al.sfx)
        if "imports" in binds:
            kw["imports"] = ["%s = 'N%s'" % (n, al.sfx)]
        if "ctx" in binds:
            ctx[n] = "C" + al.sfx
        pre = "<%% %s = 'A%s' %%>" % (n, al.sfx) if "assign" in binds else ""
        inner = "[${sh(%s)}]" % n
        isb = n in builtins.__dict__
        if "module" in binds:
            exp = ("out", "[M%s]" % al.sfx)
        elif "imports" in binds:
            exp = ("out", "[N%s]" % al.sfx)
        elif "ctx" in binds:
            exp = ("out", "[C%s]" % al.sfx)
        elif isb:
            exp = ("out", "[%s]" % env.show(builtins.__dict__[n]))
        elif strict:
            exp = ("exc", "NameError", "'%s' is not defined" % n, [n])
        else:
            exp = ("out", "[U]")
        if "module" in binds and "imports" in binds:
            exp = None  # which of two module-level bindings is the later one is not fixed by the statement
    else:
        pre = ""
        inner, out = {
            "UNDEFINED-identity": ("[${UNDEFINED is witness_u}]", "[True]"),
            "UNDEFINED-as-default": ("[${sh(context.get('zz_absent', UNDEFINED))}]", "[U]"),
            "STOP_RENDERING-return": ("[a<% return STOP_RENDERING %>b]", "[a"),
            "STOP_RENDERING-identity": ("[${STOP_RENDERING is witness_s}]", "[True]"),
        }[c["probe"]]
        ctx["witness_u"] = runtime.UNDEFINED
        ctx["witness_s"] = runtime.STOP_RENDERING
        exp = ("out", out)
    files = {}
    nsattr = ""
    if shape == "with-import-star-namespace":
        files["/lib.html"] = '<%def name="libdef()">L</%def>'
        head += '<%namespace file="/lib.html" import="*"/>'
        body_def = '<%def name="nf()">' + inner + "</%def>"
    elif shape == "two-defs":
        body_def = '<%def name="other()">o</%def><%def name="nf()">' + inner + "</%def>"
    elif shape == "nested-in-nsdef":
        body_def = '<%def name="nf()"><%def name="deep()">' + inner + "</%def>${deep()}</%def>"
    elif shape == "control-line":
        body_def = '<%def name="nf()">\n% if True:\n' + inner + "\n% endif\n</%def>"
    else:
        body_def = '<%def name="nf()">' + inner + "</%def>"
    src = head + '<%namespace name="nsx"' + nsattr + ">" + body_def + "</%namespace>" + pre + "${nsx.nf()}"
    files["/main.html"] = src
    st.evaluations += 1
    st.transitions += 1
    st.traces += 1
    st.oracles["nsdef"] += 1
    try:
        lk = TemplateLookup(strict_undefined=strict, **kw)
        for u, t_ in files.items():
            lk.put_string(u, t_)
        obs = ("out", "".join(lk.get_template("/main.html").render_unicode(**ctx).split("\n")))
    except Exception as e:  # noqa
        obs = ("exc", type(e).__name__, str(e))
    if exp is None:
        st.outcomes[("nsdef", "dont-care")] += 1
        return
    ok = agrees(exp, obs, strict)
    st.outcomes[("nsdef", c["kind"], "ok" if ok else "differs")] += 1
    if not ok:
        what = "+".join(c["binds"]) or "unbound" if c["kind"] == "name" else c["probe"]
        sig = "nsdef:%s:%s:obs=%s" % (c["kind"], what, obs[1] if obs[0] == "exc" else "out")
        st.violation(sig, {"fam": "nsdef", "c": c, "seed": al.seed, "template": files}, "names read in a def written inside <%namespace> (formula)", expected=list(exp), observed=list(obs))
    if st.traces % 67 == 1:
        st.sample({"fam": "nsdef", "c": c, "template": files, "expected": list(exp)})


# --------------------------------------------------------------------------
# family shadowdef: a def nested in a def is a binding of the enclosing scope (Python's closure rules): inside the enclosing
# def its name means the nested def, whatever else is called so (a top-level def of the template, a context variable, a
# builtin, an imported def); outside, the other meaning is untouched.  Closed form.

SHADOW_OTHERS = ["topdef", "ctx", "builtin", "module", "topdef+ctx"]
SHADOW_DEPTHS = [1, 2]
SHADOW_CALLS = ["expr", "capture", "calltag", "in-control-line"]


def shadowdef_cases(al):
    for other in SHADOW_OTHERS:
        for depth in SHADOW_DEPTHS:
            for call in SHADOW_CALLS:
                for strict in (False, True):
                    yield {"other": other, "depth": depth, "call": call, "strict": strict}


def check_shadowdef(al, c, st):
    from mako.template import Template

    name = "len" if c["other"] == "builtin" else al.name
    other, depth = c["other"], c["depth"]
    callsrc = {"expr": "${%s()}" % name, "capture": "${capture(%s)}" % name, "calltag": '<%%call expr="%s()"></%%call>' % name,
               "in-control-line": "\\\n%% if %s() == '':\nseen\\\n%% endif\n" % name}[c["call"]]
    nested = '<%%def name="%s()">NESTED</%%def>' % name
    if depth == 1:
        outer = '<%def name="outer()">' + nested + "[" + callsrc + "]</%def>"
    else:
        outer = '<%def name="outer()"><%def name="mid()">' + nested + "[" + callsrc + "]</%def>(${mid()})</%def>"
    head, ctx = "", {}
    outside = "U"
    if "topdef" in other:
        head += '<%%def name="%s()">TOP</%%def>' % name
        outside = "TOP"
    if other == "module":
        head += "<%%! %s = lambda: 'MOD' %%>" % name
        outside = "MOD"
    if "ctx" in other:
        ctx[name] = lambda: "CTX"
        if "topdef" not in other:
            outside = "CTX"
    if other == "builtin":
        tail = "|${%s('ab')}" % name
        exp_tail = "|2"
    elif other == "ctx" or "topdef" in other or other == "module":
        tail = "|${%s()}" % name
        exp_tail = "|" + outside
    inner = "NESTED" if c["call"] != "in-control-line" else "NESTEDseen"
    exp = ("[%s]" % inner if depth == 1 else "([%s])" % inner) + exp_tail
    src = head + outer + "${outer()}" + tail
    st.evaluations += 1
    st.transitions += 1
    st.traces += 1
    st.oracles["shadowdef"] += 1
    try:
        obs = "".join(Template(src, strict_undefined=c["strict"]).render_unicode(**ctx).split("\n"))
    except Exception as e:  # noqa
        obs = "%s: %s" % (type(e).__name__, str(e)[:120])
    ok = obs == exp
    st.outcomes[("shadowdef", other, "ok" if ok else "differs")] += 1
    if not ok:
        st.violation("shadowdef:nested def named like a %s" % other, {"fam": "shadowdef", "c": c, "seed": al.seed, "template": src}, "a def nested in a def binds its name in the enclosing def (formula)", expected=exp, observed=obs)
    if st.traces % 41 == 1:
        st.sample({"fam": "shadowdef", "c": c, "template": src, "expected": exp})


# --------------------------------------------------------------------------
# jobs


def plan(tier, seed):
    n = core.NPROC * 2
    jobs = [{"kind": "res", "tier": tier, "seed": seed, "shard": i, "nshards": n} for i in range(n)]
    jobs += [{"kind": "stmt", "tier": tier, "seed": seed, "shard": i, "nshards": 4} for i in range(4)]
    jobs += [{"kind": "reread", "tier": tier, "seed": seed, "shard": i, "nshards": 4} for i in range(4)]
    jobs.append({"kind": "reserved", "tier": tier, "seed": seed})
    jobs.append({"kind": "kwargs", "tier": tier, "seed": seed})
    jobs.append({"kind": "flagname", "tier": tier, "seed": seed})
    jobs.append({"kind": "imports", "tier": tier, "seed": seed})
    jobs += [{"kind": "sentinel", "tier": tier, "seed": seed, "shard": i, "nshards": 3} for i in range(3)]
    jobs += [{"kind": "attrs", "tier": tier, "seed": seed, "shard": i, "nshards": 2} for i in range(2)]
    jobs.append({"kind": "cached", "tier": tier, "seed": seed})
    jobs.append({"kind": "rebind", "tier": tier, "seed": seed})
    jobs.append({"kind": "nsdef", "tier": tier, "seed": seed})
    jobs.append({"kind": "shadowdef", "tier": tier, "seed": seed})
    return jobs


def run_job(job):
    st = Stats()
    t0 = time.process_time()
    w0 = time.time()
    try:
        _run_job(job, st)
    finally:
        st.extra["cpu_s"] = round(time.process_time() - t0, 2)
        st.extra["cpu_s_" + job["kind"]] = round(time.process_time() - t0, 2)
        st.extra["job_wall_max_s_" + job["kind"]] = 0  # filled by post() from job_walls
        st.extra.setdefault("job_walls", []).append([job["kind"], job.get("shard", 0), round(time.time() - w0, 1)])
    return st


def _run_job(job, st):
    al = Alpha(job["seed"])
    kind = job["kind"]
    if kind in ("res", "stmt", "reread"):
        gen = {"res": res_params, "stmt": stmt_params, "reread": reread_params}[kind](job["tier"])
        seen = set()
        for i, p in enumerate(gen):
            if i % job["nshards"] != job["shard"]:
                continue
            for strict in (False, True):
                key, exp, texts, ctxspec = check_program(al, kind, p, strict, st)
                if key in seen:
                    st.extra["duplicates"] = st.extra.get("duplicates", 0) + 1
                    continue
                seen.add(key)
                st.states += 1
                if kind == "res":
                    if len(p["binds"]) + (1 if p["builtin"] else 0) >= 2:
                        st.nontrivial += 1
                else:
                    st.nontrivial += 1
                if st.states % 499 == 1:
                    st.sample({"fam": kind, "p": p, "strict": strict, "template": texts, "ctx": ctxspec, "expected": list(exp)})
        st.extra["programs_" + kind] = len(seen)
    elif kind == "reserved":
        for c in reserved_cases(job["tier"]):
            check_reserved(c, st)
            st.states += 1
            st.nontrivial += 1
        st.extra["reserved_cases"] = st.states
    elif kind == "kwargs":
        for c in kwargs_cases():
            check_kwargs(c, st)
            st.states += 1
            st.nontrivial += 1
        st.extra["kwargs_cases"] = st.states
    elif kind == "imports":
        run_imports_family(al, st)
    elif kind in ("sentinel", "attrs", "cached", "rebind", "nsdef", "shadowdef"):
        gen = {"sentinel": lambda: sentinel_cases(al), "attrs": attrs_cases, "cached": cached_cases, "rebind": rebind_cases, "nsdef": lambda: nsdef_cases(al), "shadowdef": lambda: shadowdef_cases(al)}[kind]()
        fn = {"sentinel": check_sentinel, "attrs": check_attrs, "cached": check_cached, "rebind": check_rebind, "nsdef": check_nsdef, "shadowdef": check_shadowdef}[kind]
        n = 0
        for i, c in enumerate(gen):
            if i % job.get("nshards", 1) != job.get("shard", 0):
                continue
            fn(al, c, st)
            st.states += 1
            st.nontrivial += 1
            n += 1
        st.extra[kind + "_cases"] = n
    elif kind == "flagname":
        for c in flag_cases(al):
            check_flag(al, c, st)
            st.states += 1
            if c["name"] in FLAG_NAMES:
                st.nontrivial += 1
        st.extra["flagname_cases"] = st.states
    return st


def post(tier, seed, st):
    walls = st.extra.pop("job_walls", [])
    for k in ("res", "stmt", "reread", "reserved", "kwargs", "flagname", "imports", "sentinel", "attrs", "cached", "rebind", "nsdef", "shadowdef"):
        st.extra.pop("job_wall_max_s_" + k, None)
    st.extra["slowest_job_wall_s"] = max([w[2] for w in walls] or [0])
    st.extra["alphabet"] = {k: v for k, v in Alpha(seed).__dict__.items()}


# --------------------------------------------------------------------------


def replay(case):
    st = Stats()
    fam = case["fam"]
    if fam in ("res", "stmt", "reread"):
        check_program(Alpha(case["seed"]), fam, case["p"], case["strict"], st)
    elif fam == "reserved":
        check_reserved(case["c"], st)
    elif fam == "kwargs":
        check_kwargs(case["c"], st)
    elif fam == "flagname":
        check_flag(Alpha(case["seed"]), case["c"], st)
    elif fam in ("sentinel", "attrs", "cached", "rebind", "nsdef", "shadowdef"):
        {"sentinel": check_sentinel, "attrs": check_attrs, "cached": check_cached, "rebind": check_rebind, "nsdef": check_nsdef, "shadowdef": check_shadowdef}[fam](Alpha(case["seed"]), case["c"], st)
    elif fam == "imports":
        r = check_imports_op(Alpha(case["seed"]), case["op"], st)
        if r is not None:
            return False, "reproduced: %r" % (r,)
        return True, "holds"
    else:
        return None, "unknown case"
    if st.violations:
        return False, "reproduced: %r" % (st.violations[0],)
    return True, "holds"


# --------------------------------------------------------------------------
# corpus for the cross-path property


def corpus(limit=400):
    """<= limit representative programs of the smallest non-trivial bound (<=2 simultaneous binding sites), simplest
    first (no binding, one, two), spread over all binding sites, read sites, read styles, plain/builtin names and both
    strict_undefined settings.  Deterministic.  Each item: {"files": {uri: text}, "main": uri, "ctx": {name: json |
    "@helper:<name in mc/c04_env.py>"}, "expected": render_unicode() output | None, "template_kwargs": {...}}."""
    al = Alpha(0)
    groups = {}
    for p in res_params("quick"):
        if p["twice"]:
            continue
        groups.setdefault((len(p["binds"]), tuple(p["binds"])), []).append(p)
    quota = {0: max(1, limit // 10), 1: (limit * 4) // 10}
    out = []
    seen = set()

    def emit(p, strict, budget_end):
        prog, ctxspec = build_res(al, p)
        prog = ir.normalize(prog)
        texts = ir.print_program(prog)
        key = (json.dumps(texts, sort_keys=True), json.dumps(sorted(ctxspec.items())), strict)
        if key in seen or len(out) >= budget_end:
            return
        exp = ref.run(prog, env.build_ctx(ctxspec), strict)
        if exp[0] != "out" and len([o for o in out if o["expected"] is None]) * 8 >= max(8, len(out)):
            return  # keep programs whose expected result is an exception to about one in eight
        seen.add(key)
        out.append(
            {
                "files": texts,
                "main": prog["main"],
                "ctx": dict(ctxspec),
                "expected": exp[1] if exp[0] == "out" else None,
                "template_kwargs": {"strict_undefined": strict},
            }
        )

    for size in (0, 1, 2):
        end = limit if size == 2 else min(limit, len(out) + quota[size])
        gs = [groups[k] for k in sorted(groups) if k[0] == size]
        # inside a group walk with a stride coprime to its length, so that consecutive picks differ in read site and style
        strides = []
        for g in gs:
            strides.append([q for q in (7, 11, 13, 17, 1) if len(g) % q != 0 or q == 1][0])
        step = 0
        while len(out) < end and step < max(len(g) for g in gs):
            for g, q in zip(gs, strides):
                if step < len(g):
                    emit(g[(step * q) % len(g)], step % 3 == 2, end)
            step += 1
    return out[:limit]
