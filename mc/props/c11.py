"""C11 - compile-time errors name the template and the line of the fault.

Engine E1, fault planting.  Two completely enumerated spaces:

  (A) layout prefix (leading blank lines x LF/CRLF x preceding text x column
      placement) x fault construct (one planted fault, ~120 constructs with
      their line variants) x tail x construction path (string, file, lookup,
      lookup + module directory);
  (B) every program (ordered forest of template nodes) of weight <= k, every
      node boundary of it, every applicable fault construct planted there.

The planter marks, inside each fault construct, where the construct begins
(line L, column C) and which line holds the offending Python (L').  The
expected location is computed from those marks on the final document text, by
counting line feeds - never by asking Mako.  Each document is then compiled by
the real library and the exception is compared with the expectation.
"""

import html as _html
import itertools
import os
import re
import time
import zlib

from mc import core
from mc.core import Stats

PROPERTY = "C11"
LEVEL = "model_checking"
ENGINE = "E1"
TECHNIQUE = (
    "exhaustive fault planting: every fault construct x every layout prefix x every construction path, and every "
    "fault at every node boundary of every template program up to a weight bound, compiled by the real library and "
    "compared with planter-computed line/column/filename/source"
)
RULE = (
    "(A) every combination of layout (0-2 leading blank lines x LF/CRLF x {no text, one line, three lines, text ending "
    "in a backslash continuation} x {column 1, indented 4, after 3 characters of text}) x planted fault construct x "
    "tail x construction path {string, file, lookup, lookup+module_directory} and, for a stated subset, the nested routes "
    "{include, inherit, namespace file=, include inside a def} x {memory, module_directory} from a healthy rendering template; (B) every ordered forest of template "
    "nodes up to the weight bound x every node boundary x every applicable fault construct (string path). Canonical "
    "case = (document text, path), de-duplicated. Non-trivial = the expected location differs from line 1 column 1, "
    "i.e. something precedes the fault or the faulty Python line is not the construct's first line."
)
ASSUMPTIONS = [
    "expected line = 1 + number of LF before the planter's mark, expected column = 1-based offset of the construct within its line (code points)",
    "only Python faults whose CPython-reported line is unambiguous are planted (an operator pair 'x +* 1', 'b = = 2', a bad clause); never unclosed brackets",
    "for a control line the construct may be taken to begin at the start of the line or at its '%': both columns are accepted",
    "an unclosed tag at the end of input is outside the statement's list: only exception class, filename and source are demanded",
    "the error templates are rendered inside the except block from one Template object per worker (text_error_template(), html_error_template())",
    "the html error template is checked through the pygments formatter's markup when pygments is installed, else only for containing the escaped source line",
    "CPython's parser/compiler, str, os and html.unescape are trusted",
]
BOUNDS = {
    "quick": {
        "layouts": "72 + 6 with one / two characters in front of the construct + 12 whose first line is a latin-1 / cp1251 / shift_jis / koi8-r coding comment with non-ASCII text (stored in that codec for the file paths) + 21 with a line-break look-alike (FF VT FS NEL LS PS lone-CR) in the preceding text",
        "far_down_far_right": "the fault on line 99 / 100 / 1000 (98, 99, 999 text lines before it) and in column 300+ (5 layouts; thorough 40)",
        "tails": "2 (blank-region variants behind the 72 plain layouts: without tail only)",
        "paths": "4 direct + 8 nested (include / inherit / namespace file= / include inside a def from a rendering template, in memory and with module_directory) for LF column-1 plain-layout documents without tail",
        "html_error_template": "nested include route; string path, LF documents without tail; look-alike layouts without tail: string path, and file path for the LF column-1 ones; blank-region variants only there",
        "richtraceback_and_text_error_template": "string and file paths (all four thorough)",
        "programs": [
            {"weights": [0, 1, 2], "node_kinds": 13, "faults": "all"},
            {"weights": [3], "node_kinds": 6, "faults": "core"},
        ],
    },
    "thorough": {
        "layouts": "72 + 16 one/two-character prefixes + 24 non-UTF-8 coding-comment layouts + 54 with a line-break look-alike (FF VT FS GS RS NEL LS PS lone-CR) in the preceding text",
        "tails": 3,
        "paths": "4 direct + 8 nested routes for every document without tail",
        "html_error_template": "all direct paths, all documents; nested include and inherit+module_directory routes",
        "programs": [
            {"weights": [0, 1, 2, 3], "node_kinds": 14, "faults": "all"},
            {"weights": [4], "node_kinds": 9, "faults": "core"},
        ],
    },
}

A = "\x01"  # where the offending construct begins
B = "\x02"  # somewhere on the line that holds the offending Python
ALT = "\x03"  # a second place at which the offending construct may be taken to begin

POOL_IDS = [("x", "y", "z"), ("foo", "bar", "baz"), ("alpha", "b2", "c_3"), ("item", "row", "col")]
POOL_TXT = [
    ("hello", "ab", "wor ld"),
    ("héllo", "éb", "wör ld"),
    ("жук", "ж中", "中 文"),
    ("\U0001d11elef", "\U0001f600b", "a \U00010348"),
]

PATHS = ("string", "file", "lookup", "moddir")
# the same documents behind a preprocessor that makes the text longer (its first line "~" becomes a 60-character line):
# positions and exception.source refer to the processed text
PRE_PATHS = ("string:pre", "lookup:pre")
PRE_RAW, PRE_LINE = "~", "~" * 60


def _grow(t):
    return PRE_LINE + t[len(PRE_RAW):] if t.startswith(PRE_RAW + "\n") else t


def _pre_shift(exp):
    e = dict(exp, L=exp["L"] + 1, lineno=exp["lineno"] + 1)
    if exp.get("alt"):
        e["alt"] = [exp["alt"][0] + 1, exp["alt"][1]]
    return e
# nested routes: the template with the planted fault is compiled lazily through a TemplateLookup while a healthy
# template is being rendered, so the traceback passes through the frames of the calling template
NEST_CALLERS = {
    "include": "caller one\ncaller two\n<%include file='broken.html'/>\ncaller four\n",
    "inherit": "<%inherit file='broken.html'/>\ncaller two\n",
    "namespace": "caller one\n<%namespace name='ns' file='broken.html'/>\ncaller three ${ns.foo()}\n",
    "definclude": "one\n<%def name='d()'>\n  in def\n  <%include file='broken.html'/>\n</%def>\nsix ${d()}\n",
}
NEST_PATHS = tuple("nest:" + r + m for r in NEST_CALLERS for m in ("", ":mod"))
# the faults planted one weight deeper in space B: one per mechanism that computes a location
CORE_FAULTS = (
    "expr_ml_line2", "expr_nextline", "filter", "if_cont_line2", "elif", "else", "except", "py_own_line2",
    "py_same_line2", "mod_own_line2", "def_sig_ml", "nscall_attr", "unterm_expr", "unterm_py", "unknown_tag",
    "close_mismatch", "end_mismatch", "bad_ternary_for_elif", "unterm_ctl_if", "dup_block", "block_in_def",
    "missing_attr_include", "unclosed_def",
)
MAKO_ERRORS = ("SyntaxException", "CompileException")


# --------------------------------------------------------------------------
# fault constructs


def fault_table(seed):
    """[{name, group, snip, fixed, ctl, family, ctx, forbid, core}]

    group: py     - syntax error in embedded Python: lineno = line of mark B
           struct - structural fault: lineno = line of mark A
           eof    - unclosed tag at end of input: class / filename / source only
    family: the label used in violation signatures (one per defect footprint)
    ctx (space B): any | toptags (no enclosing def/call/block tag) | noctl (no enclosing control block)
    base: False = the repaired construct is not compiled (it trips over an unrelated defect, see the report)
    forbid: substrings that must not follow the construct (they would terminate it)
    """
    V, W, Z = POOL_IDS[seed % len(POOL_IDS)]
    F = []

    def add(name, group, snip, fixed, family=None, ctx="any", forbid=(), base=True, spaceb=True, variant=False):
        body = snip.replace(A, "").replace(B, "").replace(ALT, "")
        first = snip.split("\n")[0].replace(A, "").replace(B, "").replace(ALT, "")
        cline = [l for l in snip.split("\n") if A in l][0]
        F.append(
            {
                "name": name,
                "group": group,
                "snip": snip,
                "fixed": fixed,
                "lead": first.lstrip().startswith("%") and not first.lstrip().startswith("%%"),
                "ctl": cline[cline.index(A) + 1 :].replace(B, "").startswith("%"),
                "family": family or name,
                "ctx": ctx,
                "forbid": tuple(forbid),
                "base": base,
                "spaceb": spaceb,
                "variant": variant,  # a layout variant of a class planted elsewhere: thinner crossing in the quick tier
            }
        )
        assert A in snip and body != fixed, name
        assert group != "py" or B in snip, name

    # ---- Python faults: expressions
    add("expr", "py", A + "${" + B + V + " +* 1}", "${" + V + " + 1}")
    add("expr_spaced", "py", A + "${ " + B + V + " +* 1 }", "${ " + V + " + 1 }")
    ml_fixed = "${(" + V + ",\n " + W + ",\n 3)}"
    add("expr_ml_line1", "py", A + "${(" + B + V + " +* 1,\n " + W + ",\n 3)}", ml_fixed)
    add("expr_ml_line2", "py", A + "${(" + V + ",\n " + B + W + " +* 1,\n 3)}", ml_fixed)
    add("expr_ml_line3", "py", A + "${(" + V + ",\n " + W + ",\n " + B + "3 +* 1)}", ml_fixed)
    add("expr_nextline", "py", A + "${\n " + B + V + " +* 1\n}", "${\n " + V + " + 1\n}")
    add("expr_next2lines", "py", A + "${\n\n  " + B + V + " +* 1}", "${\n\n  " + V + " + 1}")
    add("expr_nextline_ml2", "py", A + "${\n (" + V + ",\n " + B + W + " +* 1)\n}", "${\n (" + V + ",\n " + W + ")\n}")
    add("expr_ml2_goodfilter", "py", A + "${(" + V + ",\n " + B + W + " +* 1) | h}", "${(" + V + ",\n " + W + ") | h}")
    add("expr_str_ml", "py", A + "${('''p\nq''',\n " + B + W + " +* 1)}", "${('''p\nq''',\n " + W + ")}")
    # ---- an expression that is exactly one Python keyword
    for kw_ in ("class", "import", "while", "del", "not", "in", "else", "pass"):
        add("expr_keyword_" + kw_, "py", A + "${" + B + kw_ + "}", "${" + V + "}", family="expression-is-a-keyword", variant=kw_ != "class", spaceb=kw_ == "class")
    add("expr_keyword_spaced", "py", A + "${ " + B + "import }", "${ " + V + " }", family="expression-is-a-keyword", variant=True, spaceb=False)
    add("expr_keyword_filtered", "py", A + "${" + B + "not | h}", "${" + V + " | h}", family="expression-is-a-keyword", variant=True, spaceb=False)
    add("attr_keyword", "py", A + '<%include file="${' + B + 'while}"/>', '<%include file="${' + V + '}"/>', family="expression-is-a-keyword", variant=True, spaceb=False)
    add("call_keyword", "py", A + '<%call expr="' + B + 'del"></%call>', '<%call expr="' + V + '()"></%call>', family="expression-is-a-keyword", variant=True, spaceb=False)
    # ---- filter lists
    add("filter", "py", A + "${" + V + " | " + B + "h, +* u}", "${" + V + " | h, u}")
    add("filter_nospace", "py", A + "${" + V + "|" + B + "h +* u}", "${" + V + "|h, u}")
    add(
        "filter_ml_sameline_as_end", "py", A + "${(" + V + ",\n " + W + ") | " + B + "h +* u}",
        "${(" + V + ",\n " + W + ") | h}", family="filter-list-on-later-line",
    )
    add(
        "filter_on_nextline", "py", A + "${" + V + "\n | " + B + "h +* u}", "${" + V + "\n | h}",
        family="filter-list-on-later-line",
    )
    add(
        "filter_after_newline", "py", A + "${" + V + " |\n " + B + "h +* u}", "${" + V + " |\n h}",
        family="filter-list-on-later-line",
    )
    # ---- the closing brace is on a later line than the end of the filter list (1 or 2 line breaks, with and without
    # indentation), for a filter list that starts on the "${" line / on the next line / after the "|" / after a
    # multi-line expression, with the fault on the first or the second line of the filter list
    fstarts = (
        ("sameline", "${" + V + " | "), ("nextline", "${" + V + "\n | "), ("afterbar", "${" + V + " |\n "),
        ("mlexpr", "${(" + V + ",\n " + W + ") | "),
    )
    fbodies = (("l1", B + "h +* u", "h, u"), ("l2", "h,\n" + B + "+* u", "h,\nu"))  # a 2nd line of a filter list cannot be indented
    fcloses = (("nl", "\n}"), ("nl_indent", "\n  }"), ("nl2", "\n\n}"), ("nl2_indent", "\n \n\t}"))
    for sname, start in fstarts:
        for bname, fbody, ffixed in fbodies:
            for cname, close in fcloses:
                add("filter_%s_%s_close_%s" % (sname, bname, cname), "py", A + start + fbody + close, start + ffixed + close,
                    variant=True, spaceb=(sname, bname, cname) in (("sameline", "l1", "nl"), ("nextline", "l2", "nl2_indent")))
    # ---- control lines
    add("if", "py", A + "% if " + B + V + " +* 1:\n% endif", "% if " + V + " + 1:\n% endif")
    add("if_nospace", "py", A + "%if " + B + V + " +* 1:\n%endif", "%if " + V + " + 1:\n%endif")
    add("if_comment", "py", A + "% if " + B + V + " +* 1: # c\n% endif", "% if " + V + " + 1: # c\n% endif")
    add("if_cont_line2", "py", A + "% if (" + V + ", \\\n  " + B + "+* " + W + "):\n% endif",
        "% if (" + V + ", \\\n  " + W + "):\n% endif")
    add("if_cont_line1", "py", A + "% if " + B + V + " +* 1 and (" + V + ", \\\n  " + W + "):\n% endif",
        "% if " + V + " + 1 and (" + V + ", \\\n  " + W + "):\n% endif")
    add("if_nocolon", "py", A + "% if " + B + V + "\n% endif", "% if " + V + ":\n% endif")
    add("for", "py", A + "% for i in " + B + "+* " + V + ":\n% endfor", "% for i in " + V + ":\n% endfor")
    add("while", "py", A + "% while " + B + V + " +* 1:\n% endwhile", "% while " + V + " + 1:\n% endwhile")
    add("with", "py", A + "% with " + B + V + " +* as " + W + ":\n% endwith", "% with " + V + " as " + W + ":\n% endwith")
    IF = "% if " + V + ":\n"
    add("elif", "py", IF + A + "% elif " + B + W + " +* 1:\n% endif", IF + "% elif " + W + " + 1:\n% endif")
    add("elif_after_text", "py", IF + "  t\n  t\n" + A + "% elif " + B + W + " +* 1:\n  t\n% endif",
        IF + "  t\n  t\n% elif " + W + " + 1:\n  t\n% endif")
    add("elif_indented", "py", IF + "    " + A + "% elif " + B + W + " +* 1:\n% endif", IF + "    % elif " + W + " + 1:\n% endif")
    add("elif_cont_line2", "py", IF + A + "% elif (" + V + ", \\\n  " + B + "+* " + W + "):\n% endif",
        IF + "% elif (" + V + ", \\\n  " + W + "):\n% endif", base=False)
    add("else", "py", IF + A + "% else " + B + "+* 1:\n% endif", IF + "% else:\n% endif")
    add("for_else", "py", "% for i in " + V + ":\n" + A + "% else " + B + "+* 1:\n% endfor", "% for i in " + V + ":\n% else:\n% endfor")
    add("except", "py", "% try:\n" + A + "% except " + B + "+* 1:\n% endtry", "% try:\n% except " + V + ":\n% endtry")
    add("except_cont_line2", "py", "% try:\n" + A + "% except (" + V + ", \\\n  " + B + "+* " + W + "):\n% endtry",
        "% try:\n% except (" + V + ", \\\n  " + W + "):\n% endtry", base=False)
    # ---- <% %> and <%! %> blocks
    add("py_inline", "py", A + "<% " + B + V + " = = 2 %>", "<% " + V + " = 2 %>")
    own = "<%\n  " + V + " = 2\n  " + W + " = 1\n  " + Z + " = 1\n%>"
    add("py_own_line1", "py", A + "<%\n  " + B + V + " = = 2\n  " + W + " = 1\n  " + Z + " = 1\n%>", own)
    add("py_own_line2", "py", A + "<%\n  " + V + " = 2\n  " + B + W + " = = 1\n  " + Z + " = 1\n%>", own)
    add("py_own_line3", "py", A + "<%\n  " + V + " = 2\n  " + W + " = 1\n  " + B + Z + " = = 1\n%>", own)
    same = "<% " + V + " = 2\n " + W + " = 1\n " + Z + " = 1\n%>"
    add("py_same_line1", "py", A + "<% " + B + V + " = = 2\n " + W + " = 1\n " + Z + " = 1\n%>", same)
    add("py_same_line2", "py", A + "<% " + V + " = 2\n " + B + W + " = = 1\n " + Z + " = 1\n%>", same)
    add("py_same_line3", "py", A + "<% " + V + " = 2\n " + W + " = 1\n " + B + Z + " = = 1\n%>", same)
    add("py_blank_first", "py", A + "<%\n\n  " + B + V + " = = 2\n%>", "<%\n\n  " + V + " = 2\n%>")
    add("py_after_mlstring", "py", A + "<%\n  " + W + " = '''p\nq'''\n  " + B + V + " = = 2\n%>",
        "<%\n  " + W + " = '''p\nq'''\n  " + V + " = 2\n%>")
    add("py_after_comment", "py", A + "<%\n  # c %>\n  " + B + V + " = = 2\n%>", "<%\n  # c %>\n  " + V + " = 2\n%>")
    add("py_nested", "py", A + "<%\n  if " + W + ":\n      " + B + V + " = = 2\n%>", "<%\n  if " + W + ":\n      " + V + " = 2\n%>")
    add("mod_inline", "py", A + "<%! " + B + V + " = = 2 %>", "<%! " + V + " = 2 %>")
    add("mod_own_line2", "py", A + "<%!\n  " + W + " = 1\n  " + B + V + " = = 2\n%>", "<%!\n  " + W + " = 1\n  " + V + " = 2\n%>")
    # ---- the blank region between the opening delimiter and the first statement is not strictly empty:
    # a space / TAB after the delimiter before the line break, whitespace-only (auto-indented) lines, or both
    gaps = (
        ("trailsp", " \n"), ("trailtab", "\t\n"), ("wsline", "\n    \n"), ("wslines", "\n  \n\t\n"),
        ("trailsp_wsline", " \n  \t\n"), ("trailtab_wslines", "\t\n \n\t \n"),
    )
    bodies = (
        # (name, opener, body with marks, repaired body)
        ("py_own_line1", "<%", "  " + B + V + " = = 2\n  " + W + " = 1\n  " + Z + " = 1\n%>", "  " + V + " = 2\n  " + W + " = 1\n  " + Z + " = 1\n%>"),
        ("py_own_line2", "<%", "  " + V + " = 2\n  " + B + W + " = = 1\n  " + Z + " = 1\n%>", "  " + V + " = 2\n  " + W + " = 1\n  " + Z + " = 1\n%>"),
        ("py_own_line3", "<%", "  " + V + " = 2\n  " + W + " = 1\n  " + B + Z + " = = 1\n%>", "  " + V + " = 2\n  " + W + " = 1\n  " + Z + " = 1\n%>"),
        ("py_nested", "<%", "  if " + W + ":\n      " + B + V + " = = 2\n%>", "  if " + W + ":\n      " + V + " = 2\n%>"),
        ("py_after_mlstring", "<%", "  " + W + " = '''p\nq'''\n  " + B + V + " = = 2\n%>", "  " + W + " = '''p\nq'''\n  " + V + " = 2\n%>"),
        ("py_after_comment", "<%", "  # c %>\n  " + B + V + " = = 2\n%>", "  # c %>\n  " + V + " = 2\n%>"),
        ("mod_own_line1", "<%!", "  " + B + V + " = = 2\n  " + W + " = 1\n%>", "  " + V + " = 2\n  " + W + " = 1\n%>"),
        ("mod_own_line2", "<%!", "  " + W + " = 1\n  " + B + V + " = = 2\n%>", "  " + W + " = 1\n  " + V + " = 2\n%>"),
        ("expr_nextline", "${", " " + B + V + " +* 1\n}", " " + V + " + 1\n}"),
        ("expr_nextline_ml2", "${", " (" + V + ",\n " + B + W + " +* 1)\n}", " (" + V + ",\n " + W + ")\n}"),
        ("expr_nextline_ml3", "${", " (" + V + ",\n " + W + ",\n " + B + "3 +* 1)}", " (" + V + ",\n " + W + ",\n 3)}"),
    )
    for bname, opener, body, fixed_body in bodies:
        for gname, gap in gaps:
            add(bname + "_gap_" + gname, "py", A + opener + gap + body, opener + gap + fixed_body, variant=True,
                spaceb=(bname, gname) in (("py_own_line2", "trailsp_wsline"), ("expr_nextline", "trailtab_wslines"), ("mod_own_line2", "wsline")))
    # ---- signatures and attribute expressions
    add("def_sig", "py", A + '<%def name="f(a, ' + B + '+*b)"></%def>', '<%def name="f(a, b)"></%def>')
    add("def_sig_ml", "py", A + '<%def name="f(a,\n  ' + B + '+*b)"></%def>', '<%def name="f(a,\n  b)"></%def>')
    add("def_sig_tag_ml", "py", A + '<%def\n  name="f(a, ' + B + '+*b)"></%def>', '<%def\n  name="f(a, b)"></%def>',
        family="attribute-on-later-line-of-tag")
    add("block_args", "py", A + '<%block name="bb" args="a, ' + B + '+*b"></%block>', '<%block name="bb" args="a, b"></%block>')
    add("page_args", "py", A + '<%page args="a, ' + B + '+*b"/>', '<%page args="a, b"/>')
    add("call_expr", "py", A + '<%call expr="f(' + B + '+*1)"></%call>', '<%call expr="f(1)"></%call>')
    add("call_args", "py", A + '<%call expr="f()" args="a, ' + B + '+*b"></%call>', '<%call expr="f()" args="a, b"></%call>')
    add("nscall_attr", "py", A + '<%ns:foo a="${' + B + '1 +* 2}"/>', '<%ns:foo a="${1 + 2}"/>')
    add("nscall_attr_value_ml", "py", A + '<%ns:foo a="${(1,\n ' + B + '2 +* 2)}"/>', '<%ns:foo a="${(1,\n 2 + 2)}"/>')
    add("nscall_attr_tag_ml", "py", A + '<%ns:foo\n  b="1"\n  a="${' + B + '1 +* 2}"/>', '<%ns:foo\n  b="1"\n  a="${1 + 2}"/>',
        family="attribute-on-later-line-of-tag")
    add("nscall_args", "py", A + '<%ns:foo args="' + B + '+*b"></%ns:foo>', '<%ns:foo args="b"></%ns:foo>')
    add("include_file", "py", A + '<%include file="${' + B + '1 +* 2}"/>', '<%include file="${1 + 2}"/>')
    add("include_args", "py", A + '<%include file="q" args="' + B + 'a +* 2"/>', '<%include file="q" args="a + 2"/>')
    # signatures holding a '#' inside a string literal and / or ending in an incomplete expression (the error is found at
    # the end of the signature); also a multi-line signature whose LAST line is the incomplete one
    for tname, op, close, fix in (
        ("page", '<%page args="', '"/>', None), ("block", '<%block name="bb" args="', '"></%block>', None),
        ("call", '<%call expr="f()" args="', '"></%call>', None), ("def", '<%def name="f(', ')"></%def>', None),
    ):
        for iname, bad, good in (("binop", "w=10 *", "w=10"), ("ifexp", "w=1 if", "w=1"), ("not", "w=not", "w=1"), ("bracket", "w=[1,", "w=[1]")):
            for hname, hsh in (("hash", "c='#fff', "), ("plain", "c='fff', ")):
                add("sig_%s_incomplete_%s_%s" % (tname, iname, hname), "py", A + op + hsh + B + bad + close, op + hsh + good + close,
                    family="signature-ending-in-an-incomplete-expression", variant=True, spaceb=(tname, iname, hname) == ("page", "binop", "hash"))
        add("sig_%s_incomplete_ml_hash" % tname, "py", A + op + "c='#fff',\n  " + B + "w=10 *" + close, op + "c='#fff',\n  w=10" + close,
            family="signature-ending-in-an-incomplete-expression", variant=True, spaceb=False)
    add("def_filter", "py", A + '<%def name="f()" filter="' + B + 'h +* u"></%def>', '<%def name="f()" filter="h, u"></%def>')
    add("block_filter", "py", A + '<%block filter="' + B + 'h +* u"></%block>', '<%block filter="h, u"></%block>')
    add("text_filter", "py", A + '<%text filter="' + B + 'h +* u">t</%text>', '<%text filter="h, u">t</%text>')
    add("page_filter", "py", A + '<%page expression_filter="' + B + 'h +* u"/>', '<%page expression_filter="h, u"/>')
    add("def_cache_key", "py", A + '<%def name="f()" cached="True" cache_key="${' + B + 'a +* b}"></%def>', '<%def name="f()" cached="True" cache_key="${a + b}"></%def>')
    # ---- Python faults that CPython reports from its compiler stage rather than its parser
    late = "syntax-error-found-by-the-bytecode-compiler"
    add("late_break", "py", A + "<% " + B + "break %>", "<% pass %>", family=late, ctx="noctl")
    add("late_return_module", "py", A + "<%! " + B + "return 1 %>", "<%! pass %>", family=late)
    add("late_dup_arg", "py", A + '<%def name="f(a, ' + B + 'a)"></%def>', '<%def name="f(a, b)"></%def>', family=late)
    add("late_kw_repeated", "py", A + "${" + B + "f(a=1, a=2)}", "${f(a=1, b=2)}", family=late)
    add("late_global_after_use", "py", A + "<%\n  " + V + " = 1\n  " + B + "global " + V + "\n%>", "<%\n  " + V + " = 1\n%>", family=late)

    # ---- structural faults
    ue = ("}",)
    add("unterm_expr", "struct", A + "${" + V, "${" + V + "}", forbid=ue + ("|",))
    add("unterm_expr_ml", "struct", A + "${(" + V + ",\n " + W, "${(" + V + ",\n " + W + ")}", forbid=ue + ("|",))
    add("unterm_expr_string", "struct", A + "${'abc", "${'abc'}", forbid=("'",))
    # the filter list is scanned on its own; mako's test suite pins the position of the '|' for it
    # (test_unterminated_expression_filter), the statement says "where the construct begins": both accepted
    add("unterm_expr_filter", "struct", A + "${" + V + " " + ALT + "| h", "${" + V + " | h}", forbid=ue)
    add("unterm_expr_filter_nl", "struct", A + "${" + V + "\n " + ALT + "| h", "${" + V + "\n | h}", forbid=ue)
    up = ("%>",)
    add("unterm_py", "struct", A + "<% " + V + " = 1", "<% " + V + " = 1 %>", forbid=up)
    add("unterm_py_ml", "struct", A + "<%\n  " + V + " = 1\n", "<%\n  " + V + " = 1\n%>", forbid=up)
    add("unterm_mod", "struct", A + "<%! " + V + " = 1", "<%! " + V + " = 1 %>", forbid=up)
    add("unknown_tag", "struct", A + "<%foo/>", "<%doc>foo</%doc>")
    add("unknown_tag_open", "struct", A + "<%foo>", "<%doc>foo</%doc>")
    add("unknown_tag_ml", "struct", A + '<%foo\n  a="1"/>', "<%doc>foo\n</%doc>")
    add("unknown_tag_two_colons", "struct", A + "<%foo:bar:baz/>", "<%foo:bar/>", family="tag-keyword-with-two-colons")
    add("close_noopen", "struct", A + "</%namespace>", "t")
    add("close_noopen_def", "struct", A + "</%def>", "t", ctx="toptags")
    add("close_mismatch", "struct", '<%def name="g()">\n' + A + "</%block>\n</%def>", '<%def name="g()">\n</%def>')
    add("close_mismatch_inline", "struct", '<%def name="g()">t' + A + "</%block></%def>", '<%def name="g()">t</%def>')
    add("end_noopen", "struct", A + "% endwhile", "% while " + V + ":\n% endwhile")
    add("end_noopen_for", "struct", A + "% endfor", "% for i in " + V + ":\n% endfor", ctx="noctl")
    add("end_mismatch", "struct", IF + A + "% endfor", IF + "% endif")
    add("end_mismatch_indented", "struct", IF + "  t\n    " + A + "% endwhile", IF + "  t\n    % endif")
    add("bad_ternary_for_elif", "struct", "% for i in " + V + ":\n" + A + "% elif " + W + ":\n% endfor", "% for i in " + V + ":\n% endfor")
    add("bad_ternary_while_else", "struct", "% while " + V + ":\n" + A + "% else:\n% endwhile", "% while " + V + ":\n% endwhile")
    add("bad_ternary_if_except", "struct", IF + A + "% except:\n% endif", IF + "% endif")
    orphan = "ternary-keyword-without-opening-keyword"
    add("orphan_else", "struct", A + "% else:", "t", family=orphan, ctx="noctl")
    add("orphan_elif", "struct", A + "% elif " + V + ":", "t", family=orphan, ctx="noctl")
    add("orphan_except", "struct", A + "% except:", "t", family=orphan, ctx="noctl")
    add("unterm_ctl_if", "struct", A + "% if " + V + ":\n  t", IF + "  t\n% endif", ctx="noctl")
    add("unterm_ctl_for", "struct", A + "% for i in " + V + ":", "% for i in " + V + ":\n% endfor", ctx="noctl")
    add("unterm_ctl_inner", "struct", IF + "% endif\n" + A + "% while " + W + ":\n  t", IF + "% endif\n% while " + W + ":\n  t\n% endwhile", ctx="noctl")
    add("dup_block", "struct", '<%block name="d"/>\n' + A + '<%block name="d"/>', '<%block name="d"/>\n<%block name="e"/>', ctx="toptags")
    add("dup_def_then_block", "struct", '<%def name="d()"></%def>\n' + A + '<%block name="d"/>', '<%def name="d()"></%def>\n<%block name="e"/>', ctx="toptags")
    add("dup_block_then_def", "struct", '<%block name="d"/>\n' + A + '<%def name="d()"></%def>', '<%block name="d"/>\n<%def name="e()"></%def>', ctx="toptags")
    add("dup_block_nested", "struct", '<%block name="d">\n t ' + A + '<%block name="d"/>\n</%block>', '<%block name="d">\n t <%block name="e"/>\n</%block>', ctx="toptags")
    add("block_in_def", "struct", '<%def name="g()">\n' + A + '<%block name="q"/>\n</%def>', '<%def name="g()">\n<%block/>\n</%def>')
    add("block_in_def_inline", "struct", '<%def name="g()">t ' + A + '<%block name="q"/></%def>', '<%def name="g()">t <%block/></%def>')
    add("block_in_call", "struct", '<%call expr="g()">\n' + A + '<%block name="q"/>\n</%call>', '<%call expr="g()">\n<%block/>\n</%call>')
    add("block_in_nscall", "struct", "<%ns:g>\n" + A + '<%block name="q"/>\n</%ns:g>', "<%ns:g>\n<%block/>\n</%ns:g>")
    add("anon_block_in_namespace", "struct", '<%namespace name="nn">\n' + A + "<%block>t</%block>\n</%namespace>", '<%namespace name="nn">\n</%namespace>')
    for tag, attrs, close in (
        ("def", 'name="g()"', "></%def>"), ("include", 'file="q"', "/>"), ("page", "", "/>"), ("block", "", "/>"),
        ("inherit", 'file="q"', "/>"), ("namespace", 'name="nn"', "/>"), ("call", 'expr="g()"', "></%call>"), ("text", "", ">t</%text>"),
    ):
        add("bad_attr_" + tag, "struct", A + "<%" + tag + " " + attrs + ' foo="1"' + close, "<%" + tag + " " + attrs + close,)
    add("bad_attr_ml", "struct", A + '<%def name="g()"\n   foo="1">\n</%def>', '<%def name="g()"\n  >\n</%def>')
    add("bad_attr_def_args", "struct", A + '<%def name="g()" args="1"></%def>', '<%def name="g()"></%def>')
    add("missing_attr_include", "struct", A + "<%include/>", '<%include file="q"/>')
    add("missing_attr_def", "struct", A + "<%def></%def>", '<%def name="g()"></%def>')
    add("missing_attr_call", "struct", A + "<%call></%call>", '<%call expr="g()"></%call>')
    add("missing_attr_inherit", "struct", A + "<%inherit/>", '<%namespace name="nn" file="q"/>')
    add("missing_attr_namespace", "struct", A + '<%namespace file="q"/>', '<%namespace name="nn" file="q"/>')
    add("expr_in_def_name", "struct", A + '<%def name="${' + V + '}()"></%def>', '<%def name="g()"></%def>')
    add("expr_in_namespace_name", "struct", A + '<%namespace name="${' + V + '}" file="q"/>', '<%namespace name="nn" file="q"/>')
    add("expr_in_call_expr", "struct", A + '<%call expr="${' + V + '}"></%call>', '<%call expr="g()"></%call>')
    add("def_no_parens", "struct", A + '<%def name="g"></%def>', '<%def name="g()"></%def>')
    add("def_no_parens_nested", "struct", '<%def name="g()">\n t\n' + A + '<%def name="g2"/>\n</%def>', '<%def name="g()">\n t\n<%def name="g2()"/>\n</%def>')
    add("block_with_signature", "struct", A + '<%block name="g(a)"/>', '<%block name="g"/>', ctx="toptags")
    add("anon_block_args", "struct", A + '<%block args="a"/>', '<%block name="g" args="a"/>', ctx="toptags")
    add("namespace_file_and_module", "struct", A + '<%namespace name="nn" file="q" module="m"/>', '<%namespace name="nn" file="q"/>')

    # ---- not in the statement's list: location is DONT_CARE
    add("unclosed_def", "eof", A + '<%def name="g()">\n t', '<%def name="g()">\n t</%def>')
    add("unclosed_block", "eof", A + "<%block>", "<%block></%block>")
    add("unclosed_call", "eof", A + '<%call expr="g()">', '<%call expr="g()"></%call>')
    add("unclosed_text", "eof", A + "<%text>", "<%text></%text>", forbid=("</%text>",))
    names = [f["name"] for f in F]
    assert len(names) == len(set(names))
    assert set(CORE_FAULTS) <= set(names)
    for f in F:
        f["core"] = f["name"] in CORE_FAULTS
    return F


# --------------------------------------------------------------------------
# space A: layouts

BLANKS = (0, 1, 2)
EOLS = ("\n", "\r\n")
PRETEXT = ("none", "one", "three", "cont")
PLACE = ("col1", "indent4", "after3")
# characters str.splitlines() (and some editors) treat as a line break but which do not end a template line:
# only LF does.  They are planted in the text *before* the line of the fault.
SPECIALS = ("\x0c", "\x0b", "\x1c", "\x85", "\u2028", "\u2029", "\r", "\x1d", "\x1e")


def layouts(tier="quick"):
    """the 72 layouts of the design + layouts whose preceding text holds a line-break look-alike"""
    out = list(itertools.product(BLANKS, EOLS, PRETEXT, PLACE))
    # one and two characters in front of the construct (three = "after3"), on line 1 and further down
    if tier == "quick":
        out += [(0, "\n", "none", "after1"), (0, "\r\n", "none", "after1"), (0, "\n", "none", "after2"), (0, "\r\n", "none", "after2"),
                (1, "\n", "one", "after1"), (2, "\r\n", "cont", "after2")]
    else:
        out += list(itertools.product((0, 1), EOLS, ("none", "one"), ("after1", "after2")))
    # first line = coding comment of a non-UTF-8 codec
    for i in range(len(CODINGS)):
        if tier == "quick":
            out += [(0, "\n", "coding%d" % i, "col1"), (0, "\r\n", "coding%d" % i, "col1"), (0, "\n", "coding%d" % i, "after3")]
        else:
            out += list(itertools.product((0,), EOLS, ["coding%d" % i], PLACE))
    if tier == "quick":
        for i in range(7):
            out += [(0, "\n", "special%d" % i, "col1"), (0, "\r\n", "special%d" % i, "col1"), (1, "\n", "special%d" % i, "after3")]
    else:
        out += list(itertools.product((0,), EOLS, ["special%d" % i for i in range(len(SPECIALS))], PLACE))
    # the fault far down (its line number has 3 / 4 digits, one digit more than the line before) or far to the right
    if tier == "quick":
        out += [(0, "\n", "long98", "col1"), (0, "\r\n", "long99", "after3"), (0, "\n", "long999", "col1"), (0, "\n", "none", "after300"), (1, "\r\n", "one", "after300")]
    else:
        out += list(itertools.product((0,), EOLS, ("long8", "long9", "long98", "long99", "long100", "long998", "long999", "long1000"), ("col1", "after3")))
        out += list(itertools.product((0, 1), EOLS, ("none", "one"), ("after300",)))
    return out


# first line = magic coding comment of a non-UTF-8 codec, with non-ASCII characters of that codec before and after the
# declaration; the document is stored in that codec for the file / lookup / module-directory paths and passed as str
# on the string path.  (codec, (filler word, two characters, two words))
CODINGS = (
    ("latin-1", ("Ren\u00e9", "\u00e9b", "w\u00f6r ld")),
    ("cp1251", ("\u0436\u0443\u043a", "\u0436\u0431", "\u0436\u0443 \u043a")),
    ("shift_jis", ("\u65e5\u672c", "\u65e5b", "\u672c \u8a9e")),
    ("koi8-r", ("\u0436\u0443\u043a", "\u0436\u0431", "\u0436\u0443 \u043a")),
)
TAILWORD = "\x04"  # replaced by the layout's filler word


def fillers(layout, seed):
    pre = layout[2]
    if pre.startswith("coding"):
        return CODINGS[int(pre[6:])][1]
    return POOL_TXT[seed % len(POOL_TXT)]


def tails(tier, seed):
    ts = ["", "\n" + TAILWORD + " tail\n"]
    if tier != "quick":
        ts.append("\n")
    return ts


def layout_prefix(layout, seed):
    nb, _eol, pre, place = layout
    t1, t2, t3 = fillers(layout, seed)
    s = "\n" * nb
    if pre == "one":
        s += t1 + "\n"
    elif pre == "three":
        s += t1 + "\n" + t3 + "\n" + "l3\n"
    elif pre == "cont":
        s += t1 + " \\\n"
    elif pre.startswith("special"):
        x = SPECIALS[int(pre[7:])]
        s += t1 + x + t3 + "\n" + x + "l2" + x + "z\n"
    elif pre.startswith("long"):
        s += (t1 + "\n") * int(pre[4:])
    elif pre.startswith("coding"):
        codec = CODINGS[int(pre[6:])][0]
        s += "## " + t1 + " -*- coding: " + codec + " -*- written by " + t1 + "\n" + t3 + "\n"
    if place == "indent4":
        s += "    "
    elif place == "after3":
        s += t2 + " "
    elif place == "after300":
        s += (t2 + " ") * 100
    elif place == "after2":
        s += t2
    elif place == "after1":
        s += t2[0]
    return s


def locate(marked, eol="\n"):
    """marked document -> (text, L, C, Lp) from the planter's marks, counting LF."""
    if eol != "\n":
        marked = marked.replace("\n", eol)
    alt = None
    i3 = marked.find(ALT)
    if i3 >= 0:
        marked = marked[:i3] + marked[i3 + 1 :]
        i3 -= 1  # the mark A precedes it
        alt = i3
    i1 = marked.index(A)
    marked = marked[:i1] + marked[i1 + 1 :]
    assert alt is None or alt >= i1
    i2 = marked.find(B)
    if i2 >= 0:
        marked = marked[:i2] + marked[i2 + 1 :]
        assert i2 >= i1
    else:
        i2 = i1
    assert A not in marked and B not in marked
    L = 1 + marked.count("\n", 0, i1)
    C = i1 - marked.rfind("\n", 0, i1)
    Lp = 1 + marked.count("\n", 0, i2)
    if alt is not None:
        return marked, L, C, Lp, (1 + marked.count("\n", 0, alt), alt - marked.rfind("\n", 0, alt))
    return marked, L, C, Lp, None


def expectation(fault, L, C, Lp, alt=None):
    cols = [C]
    if fault["ctl"] and C != 1:
        cols = [1, C]
    return {
        "alt": list(alt) if alt else None,
        "name": fault["name"],
        "family": fault["family"],
        "group": fault["group"],
        "L": L,
        "C": C,
        "cols": cols,
        "lineno": Lp if fault["group"] == "py" else L,
    }


def build_a(layout, fault, tail, seed):
    """-> (text, exp, base_text) or None when the placement cannot hold this construct"""
    if fault["lead"] and layout[3].startswith("after"):
        return None
    pre = layout_prefix(layout, seed)
    tail = tail.replace(TAILWORD, fillers(layout, seed)[0])
    text, L, C, Lp, alt = locate(pre + fault["snip"] + tail, layout[1])
    base = (pre + fault["fixed"] + tail).replace("\n", layout[1])
    exp = expectation(fault, L, C, Lp, alt)
    if layout[2].startswith("coding"):
        exp["enc"] = CODINGS[int(layout[2][6:])][0]  # how the file paths store the document
    return text, exp, base


# --------------------------------------------------------------------------
# space B: programs

LEAVES = {
    "T": ["text"],
    "T3": ["l1", "l2", "l3"],
    "E": ["a ${v} b"],
    "EM": ["${(v,", "  w)}"],
    "PY": ["<%", "  v = 1", "  w = 2", "%>"],
    "CM": ["## c"],
    "DOC": ["<%doc>", " d", "</%doc>"],
    "CONT": ["ab \\"],
}
CONTAINERS = {
    "IF": (["% if v:"], ["% endif"]),
    "IFE": (["% if v:", "  t", "% else:"], ["% endif"]),
    "FOR": (["% for i in v:"], ["% endfor"]),
    "DEF": (['<%%def name="f%d()">'], ["</%def>"]),
    "BLK": (["<%block>"], ["</%block>"]),
    "CALL": (['<%%call expr="c%d()">'], ["</%call>"]),
}
KINDS = {
    6: ["T", "EM", "PY", "CONT", "IF", "DEF"],
    9: ["T", "EM", "PY", "DOC", "CONT", "IF", "FOR", "DEF", "CALL"],
    13: ["T", "T3", "E", "EM", "PY", "CM", "DOC", "CONT", "IF", "FOR", "DEF", "BLK", "CALL"],
    14: ["T", "T3", "E", "EM", "PY", "CM", "DOC", "CONT", "IF", "FOR", "DEF", "BLK", "CALL", "IFE"],
}
CTL_KINDS = ("IF", "IFE", "FOR")
TAG_KINDS = ("DEF", "CALL", "BLK")


def forests(n, kinds, _memo=None):
    """all ordered forests with exactly n nodes; a node is (kind, children)"""
    memo = {} if _memo is None else _memo
    key = n
    if key in memo:
        return memo[key]
    if n == 0:
        res = [()]
    else:
        res = []
        for k in range(1, n + 1):
            for tr in trees(k, kinds, memo):
                for rest in forests(n - k, kinds, memo):
                    res.append((tr,) + rest)
    memo[key] = res
    return res


def iter_forests(n, kinds, memo):
    """the same sequence as forests(n) without materialising it"""
    if n == 0:
        yield ()
        return
    for k in range(1, n + 1):
        for tr in trees(k, kinds, memo):
            for rest in forests(n - k, kinds, memo):
                yield (tr,) + rest


def trees(k, kinds, memo):
    key = ("t", k)
    if key in memo:
        return memo[key]
    res = []
    for kind in kinds:
        if kind in CONTAINERS:
            for body in forests(k - 1, kinds, memo):
                res.append((kind, body))
        elif k == 1:
            res.append((kind, ()))
    memo[key] = res
    return res


def print_program(forest):
    """-> (lines, slots) ; slot = (line index, ancestor kinds)"""
    lines, slots, counter = [], [], [0]

    def walk(nodes, anc):
        for kind, kids in nodes:
            slots.append((len(lines), anc))
            if kind in CONTAINERS:
                counter[0] += 1
                op, cl = CONTAINERS[kind]
                lines.extend(l % counter[0] if "%d" in l else l for l in op)
                walk(kids, anc + (kind,))
                lines.extend(cl)
            else:
                lines.extend(LEAVES[kind])
        slots.append((len(lines), anc))

    walk(forest, ())
    return lines, slots


def applicable_b(fault, anc, rest):
    if not fault["spaceb"]:
        return False
    ctx = fault["ctx"]
    if ctx == "toptags" and any(k in TAG_KINDS for k in anc):  # no enclosing def / call / block
        return False
    if ctx == "noctl" and any(k in CTL_KINDS for k in anc):
        return False
    return not any(f in rest for f in fault["forbid"])


def program_docs(forest, faults):
    """yield (text, exp) for every slot x applicable fault; first item is (base_text, None)"""
    lines, slots = print_program(forest)
    yield "".join(l + "\n" for l in lines), None
    for idx, anc in slots:
        head = "".join(l + "\n" for l in lines[:idx])
        rest = "".join(l + "\n" for l in lines[idx:])
        for f in faults:
            if not applicable_b(f, anc, rest):
                continue
            text, L, C, Lp, alt = locate(head + f["snip"] + "\n" + rest)
            yield text, expectation(f, L, C, Lp, alt)


# --------------------------------------------------------------------------
# execution on the real library


class _Env:
    """per-worker scratch space and error templates"""

    def __init__(self):
        from mako import exceptions

        self.dir = core.scratch_dir("c11src")
        self.moddir = core.scratch_dir("c11mod")
        self.n = 0
        # nested routes: fixed healthy callers next to a "broken.html" that is rewritten for every document; one
        # lookup per mode (the callers stay cached, a template that fails to compile is never cached)
        from mako.lookup import TemplateLookup

        self.nestdir = core.scratch_dir("c11nest")
        for name, text in NEST_CALLERS.items():
            with open(os.path.join(self.nestdir, name + ".html"), "w") as f:
                f.write(text)
        self.nestfile = os.path.join(self.nestdir, "broken.html")
        self.nest_lookup = {
            "": TemplateLookup(directories=[self.nestdir]),
            ":mod": TemplateLookup(directories=[self.nestdir], module_directory=core.scratch_dir("c11nestmod")),
        }
        self.nestmod = self.nest_lookup[":mod"].template_args["module_directory"]
        self.text_template = exceptions.text_error_template()
        self.html_template = exceptions.html_error_template()
        self.pygments = getattr(exceptions, "pygments_html_formatter", None) is not None


_env = None


def env():
    global _env
    if _env is None or not os.path.isdir(_env.dir):
        _env = _Env()
    return _env


def execute(text, path, fname, want_html, st, light=False):
    """compile `text` through `path`; -> observation dict"""
    from mako import exceptions
    from mako.lookup import TemplateLookup
    from mako.template import Template

    e_ = env()
    st.evaluations += 1
    st.transitions += 1
    obs = {"cls": None}
    try:
        if path == "string":
            Template(text)
        elif path == "string:pre":
            Template(PRE_RAW + "\n" + text, preprocessor=_grow)
        elif path == "lookup:pre":
            TemplateLookup(directories=[e_.dir], preprocessor=[_grow]).get_template("/" + os.path.basename(fname))
        elif path == "file":
            Template(filename=fname)
        elif path == "lookup":
            TemplateLookup(directories=[e_.dir]).get_template("/" + os.path.basename(fname))
        elif path == "moddir":
            TemplateLookup(directories=[e_.dir], module_directory=e_.moddir).get_template("/" + os.path.basename(fname))
        elif path.startswith("nest:"):
            _n, route, mode = (path + ":").split(":")[:3]
            e_.nest_lookup[":mod" if mode else ""].get_template("/" + route + ".html").render_unicode()
        else:
            raise AssertionError(path)
    except Exception as e:  # noqa
        obs["cls"] = type(e).__name__
        obs["mod"] = type(e).__module__
        obs["msg"] = str(e)[:300]
        if obs["cls"] in MAKO_ERRORS and obs["mod"] == "mako.exceptions":
            for k in ("lineno", "pos", "filename", "source"):
                obs[k] = getattr(e, k, "<missing>")
            if light:
                return obs
            try:
                rt = exceptions.RichTraceback()
                st.transitions += 1
                obs["rt_lineno"], obs["rt_source"] = rt.lineno, rt.source
                obs["rt_message_ok"] = rt.message == str(e) and rt.error is e
            except Exception as e2:  # noqa
                obs["rt_error"] = "%s: %s" % (type(e2).__name__, e2)
            try:
                st.transitions += 1
                obs["text"] = e_.text_template.render()
            except Exception as e2:  # noqa
                obs["text_error"] = "%s: %s" % (type(e2).__name__, e2)
            if want_html:
                try:
                    st.transitions += 1
                    h = e_.html_template.render()
                    obs["html"] = h.decode("utf-8", "replace") if isinstance(h, bytes) else h
                except Exception as e2:  # noqa
                    obs["html_error"] = "%s: %s" % (type(e2).__name__, e2)
    return obs


_TAGS = re.compile(r"<[^>]*>")
_ERRBLOCK = re.compile(r'<div class="error [^"]*">(.*?)</table>', re.S)
_LINENO = re.compile(r'<td class="linenos">(.*?)</td>', re.S)
_CODE = re.compile(r'<td class="code">(.*?)</td>', re.S)


def html_shows(htmltext, lineno, srcline, pygments):
    """does the html error page display source line `lineno` as the error line?  -> None | complaint"""
    want = srcline.strip()
    if not pygments:
        return None if _html.escape(want, quote=True) in htmltext or want in _html.unescape(htmltext) else "source line absent"
    m = _ERRBLOCK.search(htmltext)
    if not m:
        return "no highlighted error line"
    ln = _LINENO.search(m.group(1))
    cd = _CODE.search(m.group(1))
    if not ln or not cd:
        return "error line markup not understood"
    shown_no = _TAGS.sub("", ln.group(1)).strip()
    shown = _html.unescape(_TAGS.sub("", cd.group(1))).strip()
    if shown_no != str(lineno):
        return "highlighted line number %s" % shown_no
    if shown != want:
        return "highlighted line text %r" % shown
    return None


def judge(text, exp, path, fname, obs):
    """-> list of (oracle, detail-for-signature, message, expected, observed)"""
    out = []
    fam = exp["family"]
    if obs["cls"] is None:
        return [("noerror", "", "the template with the planted fault compiled without error", "SyntaxException or CompileException", "no exception")]
    if obs["cls"] not in MAKO_ERRORS or obs.get("mod") != "mako.exceptions":
        return [("class", obs["cls"], "exception is neither SyntaxException nor CompileException", list(MAKO_ERRORS), "%s: %s" % (obs["cls"], obs.get("msg")))]
    want_fn = None if path == "string" else fname
    if obs["filename"] != want_fn:
        out.append(("filename", "", "exception.filename is not the template's file", want_fn, obs["filename"]))
    if obs["source"] != text:
        out.append(("source", "", "exception.source is not the decoded template text", text, obs["source"]))
    located = exp["group"] != "eof"
    line_ok = True
    if located and exp.get("alt") and [obs["lineno"], obs["pos"]] == list(exp["alt"]):
        exp = dict(exp, lineno=exp["alt"][0], cols=[exp["alt"][1]])  # the other admissible beginning
    if located:
        if obs["lineno"] != exp["lineno"]:
            line_ok = False
            d = obs["lineno"] - exp["lineno"] if isinstance(obs["lineno"], int) else "?"
            out.append(("lineno", "%+d" % d if d != "?" else "?", "exception.lineno is not the line of the fault", exp["lineno"], [obs["lineno"], obs.get("msg")]))
        if obs["pos"] not in exp["cols"]:
            d = obs["pos"] - exp["C"] if isinstance(obs["pos"], int) else "?"
            out.append(("pos", "%+d" % d if d != "?" else "?", "exception.pos is not the column where the construct begins", exp["cols"], [obs["pos"], obs.get("msg")]))
    # RichTraceback
    if "rt_lineno" not in obs and "rt_error" not in obs:
        return out  # light execution: location fields only
    if "rt_error" in obs:
        out.append(("richtraceback", "raises", "RichTraceback() raised inside the except block", None, obs["rt_error"]))
    else:
        if obs["rt_source"] != text:
            out.append(("richtraceback", "source", "RichTraceback.source is not the template text", text, obs["rt_source"]))
        if not obs.get("rt_message_ok", True):
            out.append(("richtraceback", "message", "RichTraceback.message / .error is not the compile error", obs.get("msg"), "differs"))
        want_ln = exp["lineno"] if located else obs["lineno"]
        if line_ok and obs["rt_lineno"] != want_ln:
            out.append(("richtraceback", "lineno", "RichTraceback.lineno is not the line of the fault", want_ln, obs["rt_lineno"]))
    # text error template
    if "text_error" in obs:
        out.append(("text_template", "raises", "text_error_template().render() raised", None, obs["text_error"]))
    elif line_ok:
        t = obs["text"]
        needles = [obs["cls"] + ": "]
        if located:
            needles.append(" at line: %d char: " % exp["lineno"])
        if want_fn is not None:
            needles.append(" in file '%s' at line: " % want_fn)
        _head, sep, final = t.rstrip("\n").rpartition("\n" + obs["cls"] + ": ")
        missing = [n for n in needles[1:] if n not in final] + ([] if sep else needles[:1])
        if missing:
            out.append(("text_template", "location", "text error template does not mention the class / file / line of the fault", needles, t[-400:]))
    # html error template
    if "html_error" in obs:
        out.append(("html_template", "raises", "html_error_template().render() raised", None, obs["html_error"]))
    elif "html" in obs and line_ok and located:
        lines = text.split("\n")
        srcline = lines[exp["lineno"] - 1] if 0 < exp["lineno"] <= len(lines) else ""
        bad = html_shows(obs["html"], exp["lineno"], srcline, env().pygments)
        if bad:
            out.append(("html_template", "line", "html error template does not display the template line of the fault", [exp["lineno"], srcline], bad))
    return out


def sig_of(oracle, fam, detail):
    return "%s:%s%s" % (oracle, fam, (":" + detail) if detail else "")


def check_doc(text, exp, paths, html_paths, st, kind, outcome_extra=(), light=False, light_paths=()):
    """run one document through the given paths and judge it"""
    e_ = env()
    fname = None
    if any(p != "string" for p in paths):
        e_.n += 1
        fname = os.path.join(e_.dir, "t%d.html" % e_.n)
        with open(fname, "wb") as f:
            f.write(text.encode(exp.get("enc", "utf-8")))
    if any(p.startswith("nest:") for p in paths):
        with open(e_.nestfile, "wb") as f:
            f.write(text.encode(exp.get("enc", "utf-8")))
        # a document whose fault only CPython's compiler stage finds leaves a module file behind; with the
        # same-second mtime it would be taken for the module of the next document (that is C15's subject)
        for root, _dirs, files in os.walk(e_.nestmod):
            for name in files:
                if name.startswith("broken"):
                    os.unlink(os.path.join(root, name))
    seen = {}
    trivial = exp["lineno"] == 1 and exp["C"] == 1
    light_all = light
    plain_fname = fname
    exp0, text0 = exp, text
    pre_fname = None
    if any(p == "lookup:pre" for p in paths):
        e_.n += 1
        pre_fname = os.path.join(e_.dir, "t%d.html" % e_.n)
        with open(pre_fname, "wb") as f:
            f.write((PRE_RAW + "\n" + text).encode(exp.get("enc", "utf-8")))
    for p in paths:
        fname = e_.nestfile if p.startswith("nest:") else plain_fname
        light = light_all or p in light_paths
        st.states += 1
        st.traces += 1
        if not trivial:
            st.nontrivial += 1
        if p.endswith(":pre"):
            exp, text = _pre_shift(exp0), PRE_LINE + "\n" + text0
            fname = pre_fname if p == "lookup:pre" else None
            obs = execute(text0, p, fname, False, st, True)
            res = judge(text, exp, "string" if p == "string:pre" else p, fname, obs)
        else:
            exp, text = exp0, text0
            obs = execute(text, p, fname, p in html_paths, st, light)
            res = judge(text, exp, p, fname, obs)
        st.oracles["class"] += 1
        if obs["cls"] in MAKO_ERRORS:
            st.oracles["filename+source"] += 1
            if not light:
                st.oracles["richtraceback"] += 1
                st.oracles["text_error_template"] += 1
            if exp["group"] != "eof":
                st.oracles["lineno+pos"] += 1
            if "html" in obs:
                st.oracles["html_error_template"] += 1
        st.outcomes[(kind, exp["group"], obs["cls"], exp["lineno"] - exp["L"], "bad" if res else "ok") + tuple(outcome_extra)] += 1
        seen[p] = (obs["cls"], obs.get("lineno") - (1 if p.endswith(":pre") and isinstance(obs.get("lineno"), int) else 0) if obs.get("lineno") is not None else None, obs.get("pos"))
        for oracle, detail, msg, expected, observed in res:
            st.violation(
                sig_of(oracle, exp["family"], detail),
                {"kind": kind, "text": text0, "paths": [p], "html": p in html_paths, "light": light, "exp": exp0},
                oracle + ": " + msg + (" (behind a preprocessor that makes the text longer)" if p.endswith(":pre") else ""),
                expected=expected,
                observed=observed,
            )
    if len(paths) > 1:
        st.oracles["paths_agree"] += 1
        if len(set(seen.values())) > 1:
            st.violation(
                sig_of("paths", exp["family"], ""),
                {"kind": kind, "text": text, "paths": list(paths), "html": False, "exp": exp},
                "paths: class/lineno/pos differ between construction paths",
                expected="identical (class, lineno, pos) on all paths",
                observed={k: list(v) for k, v in seen.items()},
            )
    for fn_ in (plain_fname, pre_fname):
        if fn_:
            try:
                os.unlink(fn_)
            except OSError:
                pass


def check_base(text, st, kind, label):
    """the same document with the fault repaired must compile: exactly one fault was planted"""
    from mako.template import Template

    st.evaluations += 1
    st.transitions += 1
    st.oracles["base_compiles"] += 1
    try:
        Template(text)
        return True
    except Exception as e:  # noqa
        st.violation(
            "base:%s:%s" % (label, type(e).__name__),
            {"kind": "base", "text": text, "label": label},
            "base: the document with the fault repaired does not compile, so the error cannot be attributed to the planted fault",
            expected="compiles",
            observed="%s: %s" % (type(e).__name__, str(e)[:300]),
        )
        return False


# --------------------------------------------------------------------------
# jobs


def plan(tier, seed):
    n = core.NPROC
    jobs = [{"kind": "A", "tier": tier, "seed": seed, "shard": i, "nshards": 2 * n} for i in range(2 * n)]
    nb = 2 * n if tier == "quick" else 6 * n
    jobs += [{"kind": "B", "tier": tier, "seed": seed, "shard": i, "nshards": nb} for i in range(nb)]
    # permute shard order by seed (structure unchanged)
    k = seed % len(jobs)
    return jobs[k:] + jobs[:k]


def run_job(job):
    st = Stats()
    core.bind_repo()
    tier, seed = job["tier"], job["seed"]
    F = fault_table(seed)
    t0 = time.time()
    if job["kind"] == "A":
        run_a(tier, seed, F, job["shard"], job["nshards"], st)
    else:
        run_b(tier, seed, F, job["shard"], job["nshards"], st)
    st.extra["cpu_s_" + job["kind"]] = round(time.time() - t0, 1)
    return st


def run_a(tier, seed, F, sh, ns, st):
    seen = set()
    quick = tier == "quick"
    skipped = 0
    for layout in layouts(tier):
        special = layout[2].startswith("special")
        plain = layout[2] in PRETEXT
        for f in F:
            for tail in tails(tier, seed):
                if quick and tail != "" and f["variant"] and not special:
                    continue  # quick: blank-region variants with a tail only behind the look-alike layouts
                built = build_a(layout, f, tail, seed)
                if built is None:
                    skipped += 1
                    continue
                text, exp, base = built
                if zlib.crc32(text.encode("utf-8")) % ns != sh or text in seen:
                    continue
                seen.add(text)
                if f["base"]:
                    check_base(base, st, "A", f["name"])
                if not quick:
                    html_paths = PATHS
                elif special:
                    html_paths = () if tail != "" else ("string", "file") if layout[1] == "\n" and layout[3] == "col1" else ("string",)
                else:
                    html_paths = ("string",) if tail == "" and layout[1] == "\n" and not f["variant"] else ()
                paths = PATHS
                if tail == "" and (plain or special) and (not quick or (layout[1] == "\n" and layout[3] == "col1" and plain and not f["variant"])):
                    paths = PATHS + NEST_PATHS
                    if html_paths:
                        html_paths = tuple(html_paths) + (("nest:include",) if quick else ("nest:include", "nest:inherit:mod"))
                if layout[2] in PRETEXT and layout[1] == "\n" and not (quick and f["variant"]):
                    paths = tuple(paths) + (PRE_PATHS[:1] if quick else PRE_PATHS)
                check_doc(text, exp, paths, html_paths, st, "A", light_paths=("lookup", "moddir") if quick else ())
                if len(seen) % 499 == 1:
                    st.sample({"space": "A", "fault": f["name"], "layout": list(layout), "text": text, "expect": {"lineno": exp["lineno"], "pos": exp["cols"]}})
    st.extra["A_documents"] = len(seen)
    if sh == 0:
        st.extra["A_placements_not_applicable"] = skipped
        st.extra["fault_constructs"] = len(F)
        st.extra["fault_families"] = len({f["family"] for f in F})


def run_b(tier, seed, F, sh, ns, st):
    corefaults = [f for f in F if f["core"]]
    seen = set()
    nprog = 0
    idx = 0
    stages = [(w, KINDS[stg["node_kinds"]], F if stg["faults"] == "all" else corefaults) for stg in BOUNDS[tier]["programs"] for w in stg["weights"]]
    memos = {}
    for w, kinds, faults in stages:
        memo = memos.setdefault(len(kinds), {})
        for forest in iter_forests(w, kinds, memo):
            idx += 1
            if idx % ns != sh:
                continue
            nprog += 1
            first = True
            for text, exp in program_docs(forest, faults):
                if first:
                    first = False
                    if not check_base(text, st, "B", "program"):
                        break
                    continue
                if text in seen:
                    continue
                seen.add(text)
                check_doc(text, exp, ("string",), (), st, "B", outcome_extra=(w,), light=True)
                if len(seen) % 9973 == 1:
                    st.sample({"space": "B", "fault": exp["name"], "text": text, "expect": {"lineno": exp["lineno"], "pos": exp["cols"]}})
    st.extra["B_programs"] = nprog
    st.extra["B_documents"] = len(seen)


# --------------------------------------------------------------------------


def replay(case):
    st = Stats()
    core.bind_repo()
    if case["kind"] == "base":
        ok = check_base(case["text"], st, "A", case.get("label", "base"))
        return (True, "holds") if ok else (False, "reproduced: %r" % (st.violations[0],))
    paths = tuple(case["paths"])
    check_doc(case["text"], case["exp"], paths, paths if case.get("html") else (), st, case["kind"], light=bool(case.get("light")))
    if st.violations:
        return False, "reproduced: %r" % (st.violations[0],)
    return True, "holds"


LEVEL_TEXT = (
    "Every one of 231 planted fault constructs (all classes of the statement, with line variants, incl. not-strictly-empty blank regions after <% <%! ${ and a closing brace on a later line than the filter list) is compiled behind each of 72 layout prefixes "
    "plus 21 (54 thorough) prefixes whose text holds a line-break look-alike (FF, VT, FS, NEL, LS, PS, lone CR), "
    "2-3 tails and through all four construction paths, and at every node boundary of every template program of weight <= 2 over 13 node kinds "
    "(<= 3 over 14 kinds thorough; 23 core faults one weight deeper over 6 resp. 9 kinds); class, filename, source, lineno, pos, RichTraceback, text and html error templates and path agreement are "
    "compared with values computed by the planter. Complete within those bounds; no sampling."
)
LEVEL_NOTE = (
    "Trusted: CPython's parser (which line a planted operator fault is reported on), the planter's marks in the fault table, that only LF ends a template line (FF, VT, FS/GS/RS, NEL, LS, PS and a lone CR do not), html.unescape and "
    "the pygments markup for the html page. Columns of control lines accept line start or '%'. Unclosed tags at end of input: class/filename/source only."
)
READY = True
