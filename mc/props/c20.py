"""C20 - message extraction finds every translatable string at its template line.

Engine E1 (full grid).  A *planter* writes templates in which gettext-style
calls with unique messages sit in every kind of Python-bearing construct, at
known lines, next to translator comments at varying distances and to decoy
calls inside text / <%text> / <%doc> / ## / %% constructs.  Every template of
the bounded grid is given to the real Babel plugin (mako.ext.babelplugin.extract)
and to the real Lingua plugin (mako.ext.linguaplugin.LinguaMakoExtractor); the
yielded tuples / Message objects are compared with what the planter knows:

  * the multiset of (messages) - each planted call exactly once, no decoy,
    nothing else (a mangled message shows up as missing + unexpected);
  * the function name (Babel);
  * the template line, computed from the final template text by counting the
    newlines before the (unique) source text of the call;
  * the translator comments: required ones present, in order; none where the
    statement attaches none.

Lingua's line base (0/1) is not assumed: it is calibrated per worker by running
Lingua's own Python extractor on an ordinary .py source.
"""

import collections
import contextlib
import io
import itertools
import os

from mc import core
from mc.core import Stats

PROPERTY = "C20"
LEVEL = "model_checking"
ENGINE = "E1"
TECHNIQUE = (
    "bounded exhaustive grid of planted templates (construct x layout x gettext form x offset x comment "
    "arrangement x decoy x EOL x encoding/config x container, plus ordered pairs/triples of constructs), each "
    "extracted by the real Babel and Lingua plugins and compared with the planter's own knowledge"
)

# --------------------------------------------------------------------------
# data alphabet (seed picks interchangeable spellings only)

TAGS = ["TR:", "NOTE:", "L10N:", "TRANSLATORS:"]
TAGS2 = ["HINT:", "XX:", "DEV:", "I18N:"]
FUNCS = ["f", "row", "mk", "cell"]
FILLER = ["lorem", "plain", "zzz", "filler"]
WORDS = {
    # encoding -> pool of non-ASCII words representable in it
    "ascii": ["caf\u00e9", "K\u00f6ln", "\u0442\u0435\u0441\u0442", "na\u00efve\U0001f600"],  # written as escapes
    "utf-8": ["K\u00f6ln\u0436\u4e2d", "na\u00efve\U0001f600", "\u0442\u0435\u0441\u0442\u00e9", "\u4e2d\u6587\u00df"],
    "cp1251": ["\u0442\u0435\u0441\u0442", "\u043f\u0440\u0438\u0432\u0435\u0442", "\u0441\u043b\u043e\u0432\u043e", "\u043c\u0438\u0440"],
    "latin-1": ["K\u00f6ln", "caf\u00e9", "ni\u00f1o", "stra\u00dfe"],
}
ENCODINGS = ["ascii", "utf-8", "cp1251", "latin-1"]


class Alphabet:
    def __init__(self, seed):
        self.seed = seed
        self.tag = TAGS[seed % 4]
        self.tag2 = TAGS2[seed % 4]
        self.f = FUNCS[seed % 4]
        self.filler = FILLER[seed % 4]
        self.word = {e: WORDS[e][seed % 4] for e in ENCODINGS}

    def describe(self):
        return {"tag": self.tag, "tag2": self.tag2, "func": self.f, "filler": self.filler, "words": self.word}

    def msg(self, enc, ident):
        """(source spelling inside a '...' literal, value) of a unique non-ASCII message"""
        w = self.word[enc]
        if enc == "ascii":
            src = w.encode("ascii", "backslashreplace").decode("ascii")
        else:
            src = w
        return src + "-" + ident, w + "-" + ident

    def plain(self, enc):
        """a word usable in text / comments of a source in that encoding"""
        return "note" if enc == "ascii" else self.word[enc]


RARE_CHARS = ["\x0c", "\x0b", "\x1c", "\x1d", "\x1e", "\x85", "\u2028", "\u2029"]


class RareAlphabet(Alphabet):
    """the same alphabet with one rare character planted in the middle of every message word"""

    def __init__(self, al, ch):
        Alphabet.__init__(self, al.seed)
        self.word = {e: (w[:2] + ch + w[2:]) for e, w in al.word.items()}

    def plain(self, enc):
        return "note" if enc == "ascii" else Alphabet(self.seed).word[enc]


# --------------------------------------------------------------------------
# constructs

FORMS = ["u", "g", "n", "2", "2l"]
# the function name and its parenthesis separated by a space / a TAB / a backslash-newline; one call, alone
SPACINGS = {"sp": " ", "tab": "\t", "bs": " \\\n"}
SPACED_FORMS = [f + ":" + sp for f in ("u", "g", "n") for sp in SPACINGS]


def make_parts(al, enc, form, base):
    """-> (parts, calls); parts = python expressions, one per source line; calls = planted call records"""
    calls = []

    def call(func, idents, gap=""):
        pairs = [al.msg(enc, i) for i in idents]
        text = func + gap + "(" + ",".join("'" + s + "'" for s, _ in pairs) + (",n" if func == "ngettext" else "") + ")"
        calls.append({"func": func, "msgs": [v for _, v in pairs], "text": text, "part": 1 if (form == "2l" and calls) else 0})
        return text

    if ":" in form:
        f0, sp = form.split(":")
        func = {"u": "_", "g": "gettext", "n": "ngettext"}[f0]
        parts = [call(func, [base + "s1", base + "p1"] if f0 == "n" else [base + "m1"], SPACINGS[sp])]
        if sp == "bs":
            calls[0]["span"] = 1  # name on one line, parenthesis and messages on the next
    elif form == "u":
        parts = [call("_", [base + "m1"])]
    elif form == "g":
        parts = [call("gettext", [base + "m1"])]
    elif form == "n":
        parts = [call("ngettext", [base + "s1", base + "p1"])]
    elif form == "2":
        parts = [call("_", [base + "m1"]) + " + " + call("gettext", [base + "m2"])]
    elif form == "2l":
        parts = [call("_", [base + "m1"]), call("gettext", [base + "m2"])]
    elif form == "dummy":
        parts = ["x"]
    else:
        raise ValueError(form)
    return parts, calls


def py_br(j, parts):
    if j == 0 and len(parts) == 1:
        return parts[0]
    return "[" + "0,\n" * j + ",\n".join(parts) + "]"


def py_ctl(j, parts):
    return "x or \\\n" * j + " or \\\n".join(parts)


# (kind, style, j)
LAYOUTS = (
    [("expr", "code", j) for j in (0, 1, 2)]
    + [("expr", "lead", j) for j in (1, 2)]
    + [("exprf", "code", j) for j in (0, 1, 2)]
    + [("filtarg", "code", j) for j in (0, 1, 2)]
    + [("filtarg", "nlbefore", 1), ("filtarg", "nlafter", 1), ("filtarg", "nlafter", 2)]
    + [(k, "code", j) for k in ("if", "for", "while") for j in (0, 1, 2)]
    # a continued '% elif' line is not enumerated: Mako generates a module with a SyntaxError for it
    # (PythonPrinter does not recognise the continued line as an unindentor), so it is not a usable template
    + [("elif", "code", 0)]
    + [(k, s, j) for k in ("code", "modcode") for (s, j) in (("inline", 0), ("inline", 1), ("lead", 1), ("lead", 2), ("lead2", 2))]
    + [(k, s, j) for k in ("def", "block", "page", "call") for (s, j) in (("code", 0), ("code", 1), ("code", 2), ("tagattr", 1), ("tagattr", 2))]
    + [("nscall", s, j) for (s, j) in (("code", 0), ("code", 1), ("code", 2), ("tagattr", 1), ("tagattr", 2), ("selfclose", 0), ("unsorted", 1))]
)
KINDS = ["expr", "exprf", "filtarg", "if", "elif", "for", "while", "code", "modcode", "def", "block", "page", "call", "nscall"]
TOP_ONLY = ("modcode", "page")
CANON = {k: next(l for l in LAYOUTS if l[0] == k) for k in KINDS}  # canonical (first) layout of a kind


def build(al, layout, parts, n=""):
    """-> dict(head, main, inline_after, lead, tagoff)

    head: complete lines that must precede the translator comment block
    main: the construct, starting at a line start (indent may be put before it), no final newline
    lead: blank lines at the head of the node's Python code; tagoff: lines between '<%tag' and the attribute
    """
    kind, style, j = layout
    f = al.f + n
    head, lead, tagoff, inline_after = "", 0, 0, True
    tagoffs = None
    filtoff = 0
    if kind == "expr":
        if style == "code":
            main = "${" + py_br(j, parts) + "}"
        else:
            main = "${" + "\n" * j + py_br(0, parts) + "\n}"
            lead = j
    elif kind == "exprf":
        main = "${" + py_br(j, parts) + " | h}"
    elif kind == "filtarg":
        if style == "code":
            main = "${x | " + f + "(" + py_br(j, parts) + ")}"
        elif style == "nlbefore":  # line break inside the expression, before the '|'
            main = "${x" + "\n" * j + " | " + f + "(" + py_br(0, parts) + ")}"
        else:  # line break(s) between the '|' and the filter
            main = "${x |" + "\n" * j + " " + f + "(" + py_br(0, parts) + ")}"
            filtoff = j
    elif kind == "filtx":
        # style "b<n>a<n>t<n>[h]": line breaks before the '|', between the '|' and the filter list, between the
        # filter list and the closing brace; j line breaks inside the list (or, style h, inside the expression)
        b, a, t = int(style[1]), int(style[3]), int(style[5])
        # (a trailing c: a Python comment after the last filter, which then needs a line break before the brace)
        cm = "  # " + al.filler if style.endswith("c") else ""
        if style.rstrip("c").endswith("h"):
            main = "${" + py_br(j, parts) + "\n" * b + " |" + "\n" * a + " h" + cm + "\n" * t + "}"
        else:
            main = "${" + (n and "EXPR" + n or "x") + "\n" * b + " |" + "\n" * a + " " + f + "(" + py_br(j, parts) + ")" + cm + "\n" * t + "}"
    elif kind in ("if", "elif", "for", "while"):
        c = py_ctl(j, parts)
        inline_after = False
        if kind == "if":
            main = "% if " + c + ":\nt\n% endif"
        elif kind == "elif":
            head = "% if x:\nt\n"
            main = "% elif " + c + ":\nt\n% endif"
        elif kind == "for":
            main = "% for i in " + c + ":\nt\n% endfor"
        else:
            main = "% while " + c + ":\nt\n% endwhile"
    elif kind in ("code", "modcode"):
        op = "<%" if kind == "code" else "<%!"
        if style == "inline":
            main = op + " " + "y = 0\n" * j + "x = " + py_br(0, parts) + " %>"
        elif style == "lead":
            main = op + "\n" + "    y = 0\n" * (j - 1) + "    x = " + py_br(0, parts) + "\n%>"
            lead = 1
        else:
            main = op + "\n\n" + "    x = " + py_br(0, parts) + "\n%>"
            lead = 2
    elif kind in ("def", "block", "page", "call", "nscall"):
        if style == "tagattr":
            tagoff, jj = j, 0
        else:
            jj = j
        py = py_br(jj, parts)
        if kind == "def":
            op, extra, attr, close = "<%def", ' buffered="False"', ' name="' + f + "(a=" + py + ')"', ">t</%def>"
        elif kind == "block":
            op, extra, attr, close = "<%block name=\"b" + n + '"', ' buffered="False"', ' args="a=' + py + '"', ">t</%block>"
        elif kind == "page":
            op, extra, attr, close = "<%page", ' cached="False"', ' args="a=' + py + '"', "/>"
        elif kind == "call":
            op, extra, attr, close = "<%call", ' args="q"', ' expr="' + f + "(" + py + ')"', ">t</%call>"
        else:
            op, extra, close = "<%ns:d" + n, ' b="1"', ("/>" if style == "selfclose" else ">t</%ns:d" + n + ">")
            if style == "unsorted":
                # attribute names written against alphabetical order; the first value holds a line break, so the
                # call in the second value is written on the following line
                if len(parts) > 1:
                    attr = ' z="${[0,\n' + parts[0] + ']}" a="${' + parts[1] + '}"'
                else:
                    attr = ' z="${[0,\n0]}" a="${' + parts[0] + '}"'
            elif style == "tagattr" and len(parts) > 1:
                # one attribute per line
                attr = ' a="${' + parts[0] + '}"' + "".join('\n c%d="${%s}"' % (i, p) for i, p in enumerate(parts[1:]))
                tagoffs = [j + i for i in range(len(parts))]
            else:
                attr = ' a="${' + py + '}"'
        if tagoff == 0:
            main = op + attr + close
        elif tagoff == 1:
            main = op + "\n" + attr + close
        else:
            main = op + "\n" + extra + "\n" + attr + close
    else:
        raise ValueError(kind)
    return {"head": head, "main": main, "inline_after": inline_after, "lead": lead, "tagoff": tagoff, "tagoffs": tagoffs or [tagoff] * len(parts), "filtoff": filtoff}


def construct(al, enc, layout, form, base="", n=""):
    parts, calls = make_parts(al, enc, form, base)
    c = build(al, layout, parts, n)
    for k in calls:
        k.update(kind=layout[0], style=layout[1], lead=c["lead"], tagoff=c["tagoffs"][k.pop("part")], filtoff=c["filtoff"])
        if layout[0] == "filtx" and layout[1].endswith("c"):
            # the Python comment written after the filter list sits next to the call inside the Python fragment: whether
            # the underlying Python extractor takes it for a comment of the message is that extractor's rule, not Mako's
            k["pyopt"] = [al.filler]
    c["calls"] = calls
    c["layout"] = layout
    c["form"] = form
    return c


# --------------------------------------------------------------------------
# translator comment arrangements: name -> builder(al, enc) -> (lines, required, optional, indent)

ARRANGEMENTS = ["none", "imm", "blank", "text", "stack-tagged", "stack-untagged", "other-construct", "untagged", "tag2", "indented", "wsline", "continued", "continued-then-comment"]


def arrangement(al, enc, name):
    T, T2, w = al.tag, al.tag2, al.plain(enc)
    c1, c2 = "%s %s1" % (T, w), "%s %s2" % (T, w)
    if name == "none":
        return [], [], [], ""
    if name == "imm":
        return ["## " + c1], [c1], [], ""
    if name == "blank":
        return ["## " + c1, ""], [], [], ""
    if name == "text":
        return ["## " + c1, al.filler], [], [], ""
    if name == "stack-tagged":
        return ["## " + c1, "## " + c2], [c1, c2], [], ""
    if name == "stack-untagged":
        return ["## " + c1, "## " + w + "2"], [c1], [w + "2"], ""
    if name == "other-construct":
        return ["## " + c1, "${x}"], [], [], ""
    if name == "untagged":
        return ["## " + w + "1 " + T], [], [], ""
    if name == "tag2":
        c = "%s %s1" % (T2, w)
        return ["## " + c], [c], [], ""
    if name == "indented":
        return ["  ##  " + c1], [c1], [], "  "
    if name == "wsline":
        return ["## " + c1, "   "], [], [], ""
    if name == "continued":
        # one ## comment continued over a line break with a backslash, immediately before the construct: it is attached
        # (how the continuation is spelled in the reported comment is not fixed: the tagged first part is demanded)
        return ["## " + c1 + " \\", w + "more"], [c1], [w + "more", "\\", c1 + " \\"], ""
    if name == "continued-then-comment":
        return ["## " + c1 + " \\", w + "more", "## " + c2], [c1, c2], [w + "more", "\\", c1 + " \\"], ""
    raise ValueError(name)


# --------------------------------------------------------------------------
# decoys: calls written where nothing may be extracted

DECOYS = ["none", "text", "texttag", "doc", "comment", "pct"]


def decoy(al, enc, name, inline_ok):
    """-> (before_lines, inline_after_text, after_lines, {decoy message value: kind})"""
    if name == "none":
        return [], "", [], {}
    d = [al.msg(enc, "d%d" % i) for i in (1, 2, 3)]
    q = ["'" + s + "'" for s, _ in d]
    vals = {v: name for _, v in d}
    if name == "text":
        before = ["say _(" + q[0] + ") and gettext(" + q[1] + ")"]
        if inline_ok:
            return before, " _(" + q[2] + ") tail", [], vals
        return before, "", ["_(" + q[2] + ") tail"], vals
    if name == "texttag":
        return ["<%text>", "${_(" + q[0] + ")} gettext(" + q[1] + ")", "</%text>"], "", ["<%text>${_(" + q[2] + ")}</%text>"], vals
    if name == "doc":
        return ["<%doc>", "${_(" + q[0] + ")}", "gettext(" + q[1] + ")", "</%doc>"], "", ["<%doc>_(" + q[2] + ")</%doc>"], vals
    if name == "comment":
        return ["## ${_(" + q[0] + ")} gettext(" + q[1] + ")"], "", ["  ## _(" + q[2] + ")"], vals
    if name == "pct":
        return ["%% if _(" + q[0] + "):", "%%  gettext(" + q[1] + ")"], "", ["%% _(" + q[2] + ")"], vals
    raise ValueError(name)


# --------------------------------------------------------------------------
# containers (constructs as children of other tags)

CONTAINERS = ["top", "def", "defmsg", "block", "call", "callmsg", "nscall", "nsmsg", "defdef", "calldef"]


def container(al, enc, name):
    """-> (open_lines, close_lines, calls planted in the container's own signature)"""
    if name == "top":
        return [], [], []
    o = al.f + "o"
    wsrc, wval = al.msg(enc, "w1")
    wcall = {"func": "_", "msgs": [wval], "text": "_('" + wsrc + "')", "lead": 0, "tagoff": 0, "filtoff": 0, "style": "code", "role": "container"}
    if name == "def":
        return ['<%def name="' + o + '()">'], ["</%def>"], []
    if name == "defmsg":
        wcall["kind"] = "def"
        return ['<%def name="' + o + "(a=" + wcall["text"] + ')">'], ["</%def>"], [wcall]
    if name == "block":
        return ['<%block name="' + o + '">'], ["</%block>"], []
    if name == "call":
        return ['<%call expr="' + o + '()">'], ["</%call>"], []
    if name == "callmsg":
        wcall["kind"] = "call"
        return ['<%call expr="' + o + "(" + wcall["text"] + ')">'], ["</%call>"], [wcall]
    if name == "nscall":
        return ["<%ns:" + o + ' z="1">'], ["</%ns:" + o + ">"], []
    if name == "nsmsg":
        wcall["kind"] = "nscall"
        return ["<%ns:" + o + ' z="${' + wcall["text"] + '}">'], ["</%ns:" + o + ">"], [wcall]
    if name == "defdef":
        return ['<%def name="' + o + '()">', "t", '<%def name="' + o + '2()">'], ["</%def>", "</%def>"], []
    if name == "calldef":
        return ['<%call expr="' + o + '()">', '<%def name="' + o + '2()">'], ["</%def>", "</%call>"], []
    raise ValueError(name)


# --------------------------------------------------------------------------
# documents


def finish_doc(text, eol, planted, decoys, desc):
    """apply the EOL convention; locate every planted call; -> case skeleton"""
    if eol == "crlf":
        text = text.replace("\n", "\r\n")
    exp = []
    for p in planted:
        src = p["text"].replace("\n", "\r\n") if eol == "crlf" else p["text"]
        i = text.find(src)
        if i < 0 or text.find(src, i + 1) >= 0:
            raise AssertionError("planter: call text not unique: %r in %r" % (src, text))
        e = {k: p[k] for k in ("func", "msgs", "kind", "style", "lead", "tagoff", "filtoff")}
        e["line"] = text.count("\n", 0, i) + 1
        e["req"] = p.get("req", [])
        e["opt"] = p.get("opt", [])
        e["arr"] = p.get("arr", "none")
        e["anycomment"] = p.get("anycomment", False)
        e["span"] = p.get("span", 0)
        exp.append(e)
    return {"src": text, "expect": exp, "decoys": decoys, "desc": desc}


def single_doc(al, enc, cons, P, eol, arr, dec, cont="top", before_container=False):
    """one construct (possibly inside a container) with pre-lines, comment arrangement and decoys"""
    clines, req, opt, indent = arrangement(al, enc, arr)
    dbefore, dinline, dafter, dvals = decoy(al, enc, dec, cons["inline_after"])
    copen, cclose, ccalls = container(al, enc, cont)
    lines = [al.filler + " " + al.plain(enc)] * P + dbefore
    planted = []
    if before_container:
        # the comment block precedes the container's opening tag: it belongs to that tag, not to the child
        lines += clines + copen
        for k in ccalls:
            planted.append(dict(k, req=req, opt=opt, arr=arr + "@container"))
        for k in cons["calls"]:
            planted.append(dict(k, req=[], opt=[], arr=arr + "@container-child"))
        body = cons["head"] + cons["main"]
    else:
        lines += copen
        for k in ccalls:
            planted.append(dict(k, req=[], opt=[], arr="none"))
        for k in cons["calls"]:
            planted.append(dict(k, req=req, opt=list(opt) + k.get("pyopt", []), arr=arr))
        body = cons["head"] + "".join(l + "\n" for l in clines) + indent + cons["main"]
    text = "".join(l + "\n" for l in lines) + body + dinline
    rest = cclose + dafter
    if rest:
        text += "\n" + "\n".join(rest)
    if dec != "none":
        text += "\n"
    desc = {"layout": list(cons["layout"]), "form": cons["form"], "P": P, "eol": eol, "arr": arr, "decoy": dec, "container": cont}
    if before_container:
        desc["comment_before_container"] = True
    return finish_doc(text, eol, planted, dvals, desc)


# what separates a tagged comment from a later comment / construct: a message-free construct of every kind
# (written completely, or - control lines - left open so that what follows sits in its body), a text line, a blank line
STALE_X = [k for k in KINDS] + [k + "-body" for k in ("if", "elif", "for", "while")] + ["text", "blank"]
STALE_SECOND = ["untagged", "tagged", "none"]


def stale_doc(al, enc, xname, B, gap, second, eol):
    """tagged comment c1 directly before X (no message there); `gap` text lines; then an untagged / a tagged /
    no comment directly before the message-bearing construct B.  c1 is not immediately before B: B's messages
    carry the second comment iff it is tagged, and never c1."""
    w = al.plain(enc)
    c1, c2 = "%s %s1" % (al.tag, w), "%s %s2" % (al.tag, w)
    closer = ""
    if xname in ("text", "blank"):
        xclass = xname
        text = al.filler + "\n## " + c1 + "\n" + (al.filler + " " + w if xname == "text" else "") + "\n"
    else:
        kind = xname.split("-")[0]
        X = construct(al, enc, CANON[kind], "dummy", n="1")
        text = al.filler + "\n" + X["head"] + "## " + c1 + "\n"
        if xname.endswith("-body"):
            xclass = "open-control-line"
            lines = X["main"].split("\n")
            text += lines[0] + "\n"
            closer = "\n" + lines[-1]
        else:
            xclass = "construct"
            text += X["main"] + "\n"
    text += (al.filler + " " + w + "\n") * gap
    text += B["head"]
    if second == "untagged":
        text += "## " + w + "2 " + al.tag + "\n"
    elif second == "tagged":
        text += "## " + c2 + "\n"
    text += B["main"] + closer + "\n"
    arr = "stale:%s+%s" % (xclass, second)
    planted = []
    for k in B["calls"]:
        p_ = dict(k, req=[c2] if second == "tagged" else [], opt=[], arr=arr)
        if xname == "blank" and second == "tagged":
            p_["opt"] = [c1]  # two comment paragraphs separated by a blank line only: not fixed by the statement
        planted.append(p_)
    desc = {"stale": xname, "B": list(B["layout"]) + [B["form"]], "gap": gap, "second": second, "eol": eol}
    return finish_doc(text, eol, planted, {}, desc)


SEPS = ["nl", "same", "blank"]


def multi_doc(al, enc, conss, sep, cpos, eol):
    """several constructs in one template; a tagged comment immediately before construct number cpos (or None)"""
    c1 = "%s %s1" % (al.tag, al.plain(enc))
    text = al.filler + "\n"
    planted = []
    for i, cons in enumerate(conss):
        if i > 0:
            if sep == "same":
                text += " "
            elif sep == "nl":
                text += "\n"
            else:
                text += "\n\n"
        text += cons["head"]
        if cpos == i:
            text += "## " + c1 + "\n"
        text += cons["main"]
        for k in cons["calls"]:
            p = dict(k, req=[], opt=[], arr="multi:%s:%s" % (sep, "none" if cpos is None else "c%d@%d" % (cpos, i)))
            if cpos == i:
                p["req"] = [c1]
            elif cpos is not None and cpos < i and sep == "same" and not any(c["calls"] for c in conss[cpos:i]):
                # comment line directly above the line that holds this call, only message-free constructs
                # between them on that line: the statement does not say whose comment it is
                p["anycomment"] = True
            planted.append(p)
    desc = {"multi": [list(c["layout"]) + [c["form"]] for c in conss], "sep": sep, "cpos": cpos, "eol": eol}
    return finish_doc(text, eol, planted, {}, desc)


# --------------------------------------------------------------------------
# configurations: how the template reaches the extractor

BABEL_MAIN = ["ascii", "utf-8", "cp1251", "latin-1"]
# name -> (source encoding, transport, options)
BABEL_EXTRA = {
    "utf-8/no-option": ("utf-8", "bytes", {}),
    "utf-8/input_encoding": ("utf-8", "bytes", {"input_encoding": "utf-8"}),
    "cp1251/input_encoding": ("cp1251", "bytes", {"input_encoding": "cp1251"}),
    "latin-1/input_encoding": ("latin-1", "bytes", {"input_encoding": "latin-1"}),
    "utf-8/bom": ("utf-8", "bom", {}),
    "utf-8/str": ("utf-8", "str", {}),
    "utf-8/str+latin-1-option": ("utf-8", "str", {"encoding": "latin-1"}),
    "cp1251/magic-comment": ("cp1251", "magic", {}),
    "latin-1/magic-comment": ("latin-1", "magic", {}),
    "ascii/ascii-option": ("ascii", "bytes", {"encoding": "ascii"}),
    # both options, different values: the template's own encoding is 'input_encoding' (it has precedence)
    "cp1251/input_encoding+utf-8-encoding": ("cp1251", "bytes", {"input_encoding": "cp1251", "encoding": "utf-8"}),
    "latin-1/input_encoding+cp1251-encoding": ("latin-1", "bytes", {"encoding": "cp1251", "input_encoding": "latin-1"}),
    "utf-8/input_encoding+latin-1-encoding": ("utf-8", "bytes", {"input_encoding": "utf-8", "encoding": "latin-1"}),
}
LINGUA_FILE = ["ascii", "utf-8", "cp1251", "latin-1"]

KEYWORDS = {"_": None, "gettext": None, "ngettext": (1, 2)}


class LinguaOptions:
    keywords = []
    domain = None
    comment_tag = True


_lingua_state = {}


def lingua_setup():
    """register Lingua's extractors once; calibrate the line base of Lingua's own Python extractor"""
    if "base" in _lingua_state:
        return _lingua_state["base"]
    from lingua.extractors import get_extractor, register_extractors

    register_extractors()
    py = get_extractor("x.py")
    src = "a = 1\nb = _('cal1')\n\nc = gettext('cal2')\n"
    got = {m.msgid: m.location[1] for m in py("cal.py", LinguaOptions(), io.StringIO(src))}
    if set(got) != {"cal1", "cal2"} or got["cal1"] - 2 != got["cal2"] - 4:
        raise RuntimeError("lingua calibration failed: %r" % (got,))
    _lingua_state["base"] = got["cal1"] - 2  # 0: location line == 1-based source line
    return _lingua_state["base"]


def open_babel(case):
    """generator of [line, func, [msgs], [comments]] straight from mako.ext.babelplugin.extract"""
    from mako.ext.babelplugin import extract

    cfg = case["cfg"]
    enc, transport, options = cfg["enc"], cfg["transport"], cfg["options"]
    src = case["src"]
    if transport == "str":
        fileobj = io.StringIO(src)
    else:
        data = src.encode(enc)
        if transport == "bom":
            data = b"\xef\xbb\xbf" + data
        fileobj = io.BytesIO(data)
    for lineno, func, msgs, comments in extract(fileobj, KEYWORDS, list(case["tags"]), dict(options)):
        if not isinstance(msgs, (tuple, list)):
            msgs = (msgs,)
        yield [lineno, func, [m for m in msgs if m is not None], list(comments)]


def open_lingua(case, scratch=None):
    from mako.ext.linguaplugin import LinguaMakoExtractor

    base = lingua_setup()
    cfg = case["cfg"]
    conf = {"comment-tags": " ".join(case["tags"])}
    if cfg.get("enc_option"):
        conf["encoding"] = cfg["enc_option"]
    plugin = LinguaMakoExtractor(conf)
    if cfg["transport"] == "file":
        d = scratch or core.scratch_dir("c20")
        path = os.path.join(d, "t.mako")
        with open(path, "wb") as f:
            f.write((b"\xef\xbb\xbf" if cfg.get("bom") else b"") + case["src"].encode(cfg["enc"]))
        it = plugin(path, LinguaOptions())
    else:
        it = plugin("t.mako", LinguaOptions(), io.StringIO(case["src"]))
    for m in it:
        ids = [m.msgid] + ([m.msgid_plural] if m.msgid_plural else [])
        yield [m.location[1] - base, None, ids, m.comment]


def _exc(e, extra=""):
    if isinstance(e, (KeyboardInterrupt, MemoryError)):
        raise e
    return {"exception": type(e).__name__, "text": (str(e) + " " + extra)[:300]}


def run_babel(case):
    """-> list of [line, func, [msgs], [comments]] or {"exception": ...}"""
    try:
        return list(open_babel(case))
    except BaseException as e:  # noqa
        return _exc(e)


def run_lingua(case, scratch=None):
    err = io.StringIO()
    try:
        with contextlib.redirect_stderr(err):
            return list(open_lingua(case, scratch))
    except BaseException as e:  # noqa
        return _exc(e, err.getvalue())


def _norm_babel(it):
    out = []
    for lineno, func, msgs, comments in it:
        if not isinstance(msgs, (tuple, list)):
            msgs = (msgs,)
        out.append([lineno, func, [m for m in msgs if m is not None], list(comments)])
    return out


def run_reused(case, scratch=None):
    """ONE extractor object for all steps; before every later step it is reconfigured (Lingua: Extractor.update_config
    or assignment into .config, as lingua's read_config does; Babel: assignment into .config) and must then behave
    like a freshly built extractor with that configuration"""
    steps = case["docs"]
    outs, err = [], io.StringIO()
    ext = None
    with contextlib.redirect_stderr(err):
        for i, d in enumerate(steps):
            conf = {"comment-tags": " ".join(d["tags"])}
            enc_opt = d["cfg"].get("enc_option")
            try:
                if case["ext"] == "lingua":
                    from mako.ext.linguaplugin import LinguaMakoExtractor

                    base = lingua_setup()
                    if enc_opt:
                        conf["encoding"] = enc_opt
                    if ext is None:
                        ext = LinguaMakoExtractor(conf)
                    elif case["method"] == "update_config":
                        ext.update_config(**conf)
                    else:
                        for k, v in conf.items():
                            ext.config[k] = v
                    if d["cfg"]["transport"] == "file":
                        dd = scratch or core.scratch_dir("c20")
                        path = os.path.join(dd, "r%d.mako" % i)
                        with open(path, "wb") as f:
                            f.write(d["src"].encode(d["cfg"]["enc"]))
                        it = ext(path, LinguaOptions())
                    else:
                        it = ext("t.mako", LinguaOptions(), io.StringIO(d["src"]))
                    out = []
                    for m in it:
                        ids = [m.msgid] + ([m.msgid_plural] if m.msgid_plural else [])
                        out.append([m.location[1] - base, None, ids, m.comment])
                    outs.append(out)
                else:
                    from mako.ext.babelplugin import BabelMakoExtractor

                    if ext is None:
                        ext = BabelMakoExtractor(KEYWORDS, list(d["tags"]), dict(d["cfg"]["options"]))
                    else:
                        ext.config["comment-tags"] = conf["comment-tags"]
                    outs.append(_norm_babel(ext(io.BytesIO(d["src"].encode(d["cfg"]["enc"])))))
            except BaseException as e:  # noqa
                outs.append(_exc(e, err.getvalue()))
    return outs


def run_interleaved(case, scratch=None):
    """two extractions in progress at once: both generators are created, then advanced in strict alternation"""
    docs = case["docs"]
    opener = open_babel if case["ext"] == "babel" else open_lingua
    outs, done, err = [[], []], [False, False], io.StringIO()
    with contextlib.redirect_stderr(err):
        gens = [opener(d) for d in docs]
        i = case["first"]
        while not all(done):
            if not done[i]:
                try:
                    outs[i].append(next(gens[i]))
                except StopIteration:
                    done[i] = True
                except BaseException as e:  # noqa
                    outs[i] = _exc(e, err.getvalue())
                    done[i] = True
            i = 1 - i
    return outs


# --------------------------------------------------------------------------
# oracle


def judge(case, obs):
    """-> list of (sig, oracle, expected, observed)"""
    if "docs" in case:
        viol = []
        for k, d in enumerate(case["docs"]):
            for sig, oracle, expected, observed in judge(d, obs[k]):
                parts = sig.split(":")
                if case.get("mode") == "reused":
                    viol.append(("%s:reused-extractor:%s:%s" % (parts[0], case["changed"], parts[1]), oracle + " (one extractor object, reconfigured between extractions)", expected, {"step": k, "observed": observed}))
                else:
                    viol.append(("%s:interleaved:%s" % (parts[0], parts[1]), oracle + " (two extractions in progress at once)", expected, {"template": k, "observed": observed}))
        return viol
    ext = case["ext"]
    cfgname = case["cfg"]["name"]
    exp = case["expect"]
    viol = []
    if isinstance(obs, dict):
        kinds = sorted({e["kind"] for e in exp}) or ["-"]
        if ext == "babel" and cfgname.endswith("/input_encoding") and obs["exception"].startswith("Unicode"):
            sig = "babel:input_encoding-option:%s (code is re-encoded in input_encoding, Babel is not told and decodes UTF-8)" % obs["exception"]
        elif ext == "lingua" and case["cfg"]["transport"] == "file" and obs["exception"].startswith("Unicode"):
            sig = "lingua:file-encoding:%s (file opened in the locale's encoding, 'encoding' setting ignored)" % obs["exception"]
        else:
            sig = "%s:exception:%s:%s" % (ext, obs["exception"], "+".join(kinds))
        return [(sig, "no exception on a well-formed template", "messages", obs)]
    decoys = case["decoys"]
    used = [False] * len(obs)
    # the comment window depends on which constructs yielded messages: once a planted call is missing,
    # 'no other comment' on its neighbours would only restate that failure
    some_missing = any(not any(o[2] == list(e["msgs"]) for o in obs) for e in exp)
    for e in exp:
        want = list(e["msgs"])
        hits = [i for i, o in enumerate(obs) if o[2] == want]
        where = "%s/%s" % (e["kind"], e["style"])
        if not hits:
            viol.append(("%s:missing:%s" % (ext, e["kind"]), "every planted call is reported", [e["line"], e["func"], want], "not reported"))
            continue
        for i in hits:
            used[i] = True
        if len(hits) > 1:
            viol.append(("%s:duplicate:%s" % (ext, e["kind"]), "every planted call is reported exactly once", 1, [obs[i] for i in hits]))
        o = obs[hits[0]]
        if ext == "babel" and o[1] != e["func"]:
            viol.append(("babel:funcname:%s" % e["kind"], "function name", e["func"], o[1]))
        if o[0] != e["line"] and not (e.get("span") and e["line"] <= o[0] <= e["line"] + e["span"]):
            d = o[0] - e["line"]
            lead, tagoff = e["lead"], e["tagoff"]
            if e.get("span"):
                # the call spans two lines, either is accepted: classify by the nearer one
                for k in range(e["span"] + 1):
                    if d - k in (-tagoff if tagoff else None, -e["filtoff"] if e["filtoff"] else None):
                        d -= k
                        break
            if e["filtoff"] and d == -e["filtoff"]:
                sig = "%s:line:filter-after-line-break (line breaks between '|' and the filter are dropped)" % ext
            elif tagoff and d == -tagoff:
                sig = "%s:line:tag-attribute-on-later-line (reported at the line of '<%%tag')" % ext
            elif ext == "lingua" and e["filtoff"] == 0 and tagoff == 0 and lead == 0 and d == -1:
                sig = "lingua:line:delta=-1"
            elif ext == "lingua" and e["filtoff"] == 0 and tagoff == 0 and lead > 0 and d == -1 - lead:
                sig = "lingua:line:delta=-1-lead (blank lines at the head of the code are stripped)"
            elif ext == "lingua" and tagoff and d == -1 - tagoff:
                sig = "lingua:line:tag-attribute-on-later-line+delta=-1"
            else:
                sig = "%s:line:%s:delta=%+d:lead=%d:tagoff=%d:filtoff=%d" % (ext, where, d, lead, tagoff, e["filtoff"])
            viol.append((sig, "template line on which the call is written", e["line"], o[0]))
        # translator comments
        if e["anycomment"]:
            continue
        if ext == "babel":
            got = list(o[3])
            need = list(e["req"])
            allowed = need + list(e["opt"])
            it = iter(got)
            pre = e.get("arr", "").startswith("continued")  # a continued comment: the tagged part may carry its continuation
            in_order = all(any(g == n or (pre and g.startswith(n)) for g in it) for n in need)
            if not in_order:
                viol.append(("babel:comment-missing:%s" % e["arr"], "translator comment immediately before the construct is attached", need, got))
            elif any(g not in allowed and not (pre and any(g.startswith(n) for n in need)) for g in got) and not some_missing:
                viol.append(("babel:comment-unexpected:%s" % e["arr"], "no other comment is attached", need, got))
        else:
            got = o[3] or ""
            pos, ok = 0, True
            for n in e["req"]:
                k = got.find(n, pos)
                if k < 0:
                    ok = False
                    break
                pos = k + len(n)
            if not ok:
                viol.append(("lingua:comment-missing:%s" % e["arr"], "translator comment immediately before the construct is attached", e["req"], got))
            else:
                rest = got
                for n in list(e["req"]) + list(e["opt"]):
                    rest = rest.replace(n, "", 1)
                if rest.strip() and not some_missing:
                    viol.append(("lingua:comment-unexpected:%s" % e["arr"], "no other comment is attached", e["req"], got))
    for i, o in enumerate(obs):
        if used[i]:
            continue
        dk = None
        for m in o[2]:
            if m in decoys:
                dk = decoys[m]
        if dk:
            viol.append(("%s:decoy:%s" % (ext, dk), "nothing is reported from text, <%text>, <%doc>, ## or %% lines", "nothing", o))
        else:
            viol.append(("%s:unexpected-message:%s" % (ext, cfgname), "only planted messages, unmangled", [e["msgs"] for e in exp], o))
    return viol


def execute(case, scratch=None):
    if case.get("mode") == "reused":
        return run_reused(case, scratch)
    if "docs" in case:
        return run_interleaved(case, scratch)
    if case["ext"] == "babel":
        return run_babel(case)
    return run_lingua(case, scratch)


def outcome_class(case, obs, viol):
    if "docs" in case:
        return (case["ext"], case.get("mode", "interleaved"), "viol" if viol else "ok", "msgs=%s" % "+".join("exc" if isinstance(o, dict) else str(len(o)) for o in obs))
    if isinstance(obs, dict):
        return (case["ext"], "exception:" + obs["exception"])
    nc = sum(1 for o in obs if o[3])
    return (case["ext"], "viol" if viol else "ok", "msgs=%d" % len(obs), "commented=%d" % nc)


# --------------------------------------------------------------------------
# the grid

BOUNDS = {
    "quick": {
        "G1 single construct, top level": "60 layouts (14 construct kinds x styles x call offset 0..2) x gettext forms {u, n, 2, 2l} x P{0,1,3} x LF/CRLF x 11 comment arrangements x 6 decoy kinds in utf-8 (Babel and Lingua via file object); the same with one decoy kind in ascii, cp1251, latin-1 (Babel); form g with P=1 and one decoy kind",
        "G2 transport/configuration": "every layout x form x LF/CRLF x {none, imm} x {none, text} under 10 further Babel configurations and Lingua reading 4 encodings from a real file",
        "G3 containers": "9 containers x every layout x forms {u, 2l} x LF/CRLF x 11 arrangements (+ comment before the container), text decoys",
        "G4 pairs": "all ordered pairs of the 14 kinds (canonical layout), message/dummy x separators {next line, same line, blank line} x comment {none, before 1st, before 2nd}",
        "G7 spaced call": "every layout x {_, gettext, ngettext} x name and parenthesis separated by {space, TAB, backslash-newline}, the call alone in its fragment x LF/CRLF x {none, imm}; Babel in 4 encodings, Lingua in utf-8",
        "G8 interleaved extractions": "two extractions in progress at once, their generators advanced in strict alternation, either one first: template A = every layout that is right alone (49) x forms {u, 2, 2l}, template B = each of the 14 kinds x forms {u, 2l}; Babel and Lingua",
        "G9 filter-list layouts": "${expr | filters}: 0/1 line breaks before the '|' x 0..2 after it x 0..2 inside the list x 0..2 between the list and '}' (and the same with a builtin filter and the call in the expression); forms {u, 2, 2l}; with and without a second call in the expression part; LF/CRLF; {none, imm}",
        "G10 option sequences": "every ordered pair of 8 Babel configurations (no option, input_encoding x3, encoding x3, magic comment; same keywords and tags) and of Lingua's 4 file encodings, each pair in a fresh interpreter; plus any worker violation is re-checked in a fresh interpreter alone / after one recent case",
        "G11 reused extractor": "one extractor object for 2-3 extractions, reconfigured in between (Lingua: update_config and assignment into .config; Babel: assignment into .config): every ordered pair of the comment-tag sets {A, B, A+B, none}, two triples, and (Lingua, files) every ordered pair of 4 encodings; pending-comment sequences: 5 first documents ending in a tagged comment that precedes no construct x 5 second documents x 3 ways of reuse, two and four extractions",
        "G12 block bodies": "<% %> and <%! %> blocks (code on the tag line / on the next line) whose first statement is an import / assignment / call, containing one compound statement of {if, if-else, for, while, with, try, def, class} whose header lines end in {nothing, a comment, a comment with a colon, a tight comment}; calls before / inside / after it in all 7 combinations; LF/CRLF; {none, imm}",
        "G13 whitespace-only head lines": "${ }, <% %>, <%! %> whose code is preceded by {nothing, a space, a TAB} behind the opener and 0-2 lines drawn from {empty, spaces, TAB, mixed}; forms {u, 2l}; LF/CRLF; {none, imm}",
        "G14 regex-metacharacter tags": "16 configured comment tags built from the seed's tag with [ ] ( ) . * + ? | ^ $ \\ { } (balanced and unbalanced), alone and next to a second tag: a comment starting with the literal tag (must attach) and one starting with what the tag would match as a pattern (must not), either order, LF/CRLF",
        "G15 rare characters": "a message literal containing FF, VT, FS, GS, RS, NEL, U+2028 or U+2029 (line breaks for str.splitlines and blanks for \\s, ordinary characters in a Python string) in every construct layout, ascii / utf-8 / latin-1 sources, LF/CRLF, with and without a translator comment: message text and line exact",
        "G16 far down": "the canonical layout of every construct kind (thorough: every layout) behind 9 / 99 / 999 filler lines (thorough: 8..10, 98..100, 998..1000), LF/CRLF, 3 comment arrangements, both extractors",
        "G6 stale comment": "tagged comment directly before X in {message-free construct of each of the 14 kinds, the 4 control-line kinds left open, a text line, a blank line} x 0/1/3 text lines x {untagged comment, tagged comment, no comment} directly before a message construct of each of the 14 kinds x LF/CRLF",
    },
    "thorough": {
        "G1 single construct, top level": "60 layouts x 5 forms x P{0,1,3} x LF/CRLF x 11 arrangements x 6 decoys x 4 encodings (Babel), Lingua on the ascii and utf-8 spellings",
        "G2 transport/configuration": "as quick, all 11 arrangements and 6 decoys",
        "G3 containers": "9 containers x every layout x all 5 forms x P{0,1} x LF/CRLF x 11 arrangements (+ comment before the container) x 6 decoys, in utf-8 and cp1251",
        "G4 pairs": "all ordered pairs of the 60 layouts, forms {u, 2} / dummy, 3 separators, 3 comment positions, LF/CRLF",
        "G6 stale comment": "as quick with the message construct in all 60 layouts, forms {u, 2}",
        "G7 spaced call": "as quick with decoys {none, text, doc}",
        "G8 interleaved extractions": "as quick with template B over the same 49 layouts, LF/CRLF",
        "G5 triples": "all ordered triples of the 14 kinds (canonical layout), separators {next line, same line}, comment {none, before 1st, 2nd, 3rd}, each construct message/dummy",
    },
}


def ext_cases(doc, al, enc, lingua=True, babel=True):
    """attach extractor + configuration to a document skeleton"""
    tags = [al.tag, al.tag2]
    if babel:
        opts = {} if enc == "ascii" else {"encoding": enc}
        yield dict(doc, ext="babel", tags=tags, cfg={"name": enc, "enc": enc, "transport": "bytes", "options": opts})
    if lingua:
        yield dict(doc, ext="lingua", tags=tags, cfg={"name": enc + "/fileobj", "enc": enc, "transport": "fileobj"})


def allowed(layout, cont):
    if layout[0] == "block":
        return cont in ("top", "block")  # Mako rejects a named block inside a def / call
    return cont == "top" or layout[0] not in TOP_ONLY


def gen_unit(unit, tier, al):
    """all cases of one unit (a unit is enumerated completely by one worker)"""
    g = unit[0]
    if g == "G1":
        _, li, form = unit
        layout = LAYOUTS[li]
        for enc in BABEL_MAIN:
            cons = construct(al, enc, layout, form)
            # quick: the decoy kinds are crossed with everything in utf-8, the other encodings carry one decoy kind
            decs = DECOYS if (enc == "utf-8" or tier != "quick") else ("text",)
            # quick: gettext('m') differs from _('m') by the function name only: one P, one decoy kind
            slim = tier == "quick" and form == "g"
            if slim:
                decs = ("text",)
            for P in ((1,) if slim else (0, 1, 3)):
                for eol in ("lf", "crlf"):
                    for arr in ARRANGEMENTS:
                        for dec in decs:
                            doc = single_doc(al, enc, cons, P, eol, arr, dec)
                            yield from ext_cases(doc, al, enc, lingua=(enc == "utf-8" or (enc == "ascii" and tier != "quick")))
    elif g == "G2":
        _, li, form = unit
        layout = LAYOUTS[li]
        arrs = ("none", "imm") if tier == "quick" else ARRANGEMENTS
        decs = ("none", "text") if tier == "quick" else DECOYS
        tags = [al.tag, al.tag2]
        for name, (enc, transport, options) in BABEL_EXTRA.items():
            cons = construct(al, enc, layout, form)
            for eol in ("lf", "crlf"):
                for arr in arrs:
                    for dec in decs:
                        doc = single_doc(al, enc, cons, 1, eol, arr, dec)
                        if transport == "magic":
                            doc = dict(doc)
                            nl = "\r\n" if eol == "crlf" else "\n"
                            doc["src"] = "## -*- coding: %s -*-" % enc + nl + doc["src"]
                            doc["expect"] = [dict(e, line=e["line"] + 1) for e in doc["expect"]]
                            doc["desc"] = dict(doc["desc"], magic=True)
                            transport_ = "bytes"
                        else:
                            transport_ = transport
                        yield dict(doc, ext="babel", tags=tags, cfg={"name": name, "enc": enc, "transport": transport_, "options": options})
        for enc in LINGUA_FILE:
            cons = construct(al, enc, layout, form)
            for eol in ("lf", "crlf"):
                for arr in ("none", "imm"):
                    doc = single_doc(al, enc, cons, 1, eol, arr, "text")
                    yield dict(doc, ext="lingua", tags=tags, cfg={"name": enc + "/file", "enc": enc, "transport": "file", "enc_option": enc})
                    # the file says itself what it is encoded in (coding comment / UTF-8 byte-order mark), the extractor is
                    # given the file NAME only and no encoding setting
                    nl = "\r\n" if eol == "crlf" else "\n"
                    if enc in ("cp1251", "latin-1"):
                        d2 = dict(doc, src="## -*- coding: %s -*-" % enc + nl + doc["src"], expect=[dict(e, line=e["line"] + 1) for e in doc["expect"]], desc=dict(doc["desc"], magic=True))
                        yield dict(d2, ext="lingua", tags=tags, cfg={"name": enc + "/file-magic-comment", "enc": enc, "transport": "file", "enc_option": None})
                    if enc == "utf-8":
                        d3 = dict(doc, src="## first line" + nl + doc["src"], expect=[dict(e, line=e["line"] + 1) for e in doc["expect"]], desc=dict(doc["desc"], bom=True))
                        yield dict(d3, ext="lingua", tags=tags, cfg={"name": "utf-8/file-bom", "enc": enc, "transport": "file", "enc_option": None, "bom": True})
    elif g == "G3":
        _, li, cont = unit
        layout = LAYOUTS[li]
        if tier == "quick":
            forms, Ps, decs, encs = ("u", "2l"), (1,), ("text",), ("utf-8",)
        else:
            forms, Ps, decs, encs = FORMS, (0, 1), DECOYS, ("utf-8", "cp1251")
        for enc in encs:
            for form in forms:
                if form not in forms_of(layout):
                    continue
                cons = construct(al, enc, layout, form)
                for P in Ps:
                    for eol in ("lf", "crlf"):
                        for dec in decs:
                            for arr in ARRANGEMENTS:
                                yield from ext_cases(single_doc(al, enc, cons, P, eol, arr, dec, cont), al, enc, lingua=enc == "utf-8")
                            for arr in ("imm", "stack-tagged"):
                                yield from ext_cases(single_doc(al, enc, cons, P, eol, arr, dec, cont, before_container=True), al, enc, lingua=enc == "utf-8")
    elif g == "G4":
        _, ai = unit
        enc = "utf-8"
        if tier == "quick":
            lays, formsA, eols = [CANON[k] for k in KINDS], ("u", "dummy"), ("lf",)
        else:
            lays, formsA, eols = LAYOUTS, ("u", "2", "dummy"), ("lf", "crlf")
        la = lays[ai]
        for fa in formsA:
            A = construct(al, enc, la, fa, base="a", n="1")
            for lb in lays:
                if la[0] == lb[0] == "page":
                    continue
                for fb in formsA:
                    if fa == fb == "dummy":
                        continue
                    B = construct(al, enc, lb, fb, base="b", n="2")
                    for sep in SEPS:
                        if sep == "same" and (not A["inline_after"] or not B["inline_after"] or B["head"]):
                            continue
                        for cpos in (None, 0, 1):
                            if cpos == 1 and sep == "same":
                                continue
                            for eol in eols:
                                yield from ext_cases(multi_doc(al, enc, [A, B], sep, cpos, eol), al, enc)
    elif g == "G5":
        _, ai, bi = unit
        enc = "utf-8"
        lays = [CANON[k] for k in KINDS]
        for fa, fb, fc in itertools.product(("u", "dummy"), repeat=3):
            if fa == fb == fc == "dummy":
                continue
            A = construct(al, enc, lays[ai], fa, base="a", n="1")
            B = construct(al, enc, lays[bi], fb, base="b", n="2")
            for lc in lays:
                if [lays[ai][0], lays[bi][0], lc[0]].count("page") > 1:
                    continue
                C = construct(al, enc, lc, fc, base="c", n="3")
                for sep in ("nl", "same"):
                    if sep == "same" and any((not X["inline_after"]) or X["head"] for X in (A, B, C)):
                        continue
                    for cpos in (None, 0, 1, 2):
                        if cpos and sep == "same":
                            continue
                        yield from ext_cases(multi_doc(al, enc, [A, B, C], sep, cpos, "lf"), al, enc)
    elif g == "G6":
        _, xi = unit
        xname = STALE_X[xi]
        enc = "utf-8"
        if tier == "quick":
            lays, forms = [CANON[k] for k in KINDS], ("u",)
        else:
            lays, forms = LAYOUTS, ("u", "2")
        for lb in lays:
            if not stale_allowed(xname, lb):
                continue
            for fb in forms:
                B = construct(al, enc, lb, fb, base="b", n="2")
                for gap in (0, 1, 3):
                    for second in STALE_SECOND:
                        for eol in ("lf", "crlf"):
                            yield from ext_cases(stale_doc(al, enc, xname, B, gap, second, eol), al, enc)
    elif g == "G7":
        _, li, form = unit
        layout = LAYOUTS[li]
        for enc in BABEL_MAIN:
            cons = construct(al, enc, layout, form)
            for eol in ("lf", "crlf"):
                for arr in ("none", "imm"):
                    for dec in (("text",) if tier == "quick" else ("none", "text", "doc")):
                        doc = single_doc(al, enc, cons, 1, eol, arr, dec)
                        yield from ext_cases(doc, al, enc, lingua=enc == "utf-8")
    elif g == "G8":
        _, ai = unit
        enc = "utf-8"
        la = INTER_A[ai]
        if tier == "quick":
            lbs, eols = [CANON[k] for k in KINDS], ("lf",)
        else:
            lbs, eols = INTER_A, ("lf", "crlf")
        for fa in forms_of(la, ("u", "2", "2l")):
            A = construct(al, enc, la, fa, base="a", n="1")
            for lb in lbs:
                for fb in forms_of(lb, ("u", "2l")):
                    B = construct(al, enc, lb, fb, base="b", n="2")
                    for eol in eols:
                        da = single_doc(al, enc, A, 1, eol, "imm", "none")
                        db = single_doc(al, enc, B, 0, eol, "tag2", "none")
                        for ca, cb in zip(ext_cases(da, al, enc), ext_cases(db, al, enc)):
                            for first in (0, 1):
                                yield {
                                    "ext": ca["ext"],
                                    "cfg": {"name": "interleaved", "transport": "interleaved", "first": first},
                                    "src": ca["src"] + "\x00" + cb["src"] + "\x00%d" % first,
                                    "docs": [ca, cb],
                                    "first": first,
                                    "expect": ca["expect"] + cb["expect"],
                                    "decoys": {},
                                    "tags": ca["tags"],
                                    "desc": {"interleave": [ca["desc"], cb["desc"]], "first": first},
                                }
    elif g == "G9":
        _, fi = unit
        layout = FILT_LAYOUTS[fi]
        enc = "utf-8"
        for form in ("u", "2", "2l"):
            for wec in (False, True):
                if wec and layout[1].endswith("h"):
                    continue
                cons = filt_construct(al, enc, layout, form, wec)
                for eol in ("lf", "crlf"):
                    for arr in ("none", "imm"):
                        for P in ((1,) if tier == "quick" else (0, 1, 3)):
                            doc = single_doc(al, enc, cons, P, eol, arr, "text")
                            doc["desc"]["expr_call"] = wec
                            yield from ext_cases(doc, al, enc)
    elif g == "G11":
        _, lo, hi = unit
        for seq in reused_sequences()[lo:hi]:
            yield reused_case(al, seq)
    elif g == "G12":
        _, bi = unit
        kind, style, first = BLOCK_SHAPES[bi]
        enc = "utf-8"
        for comp in COMPOUNDS:
            for hc in HEADER_COMMENTS:
                for where in BLOCK_WHERE:
                    cons = block_construct(al, enc, kind, style, first, comp, hc, where)
                    for eol in ("lf", "crlf"):
                        for arr in (("none", "imm") if tier == "quick" else ARRANGEMENTS):
                            doc = single_doc(al, enc, cons, 1, eol, arr, "text")
                            doc["desc"].update(block=[first, comp, hc, where])
                            yield from ext_cases(doc, al, enc)
    elif g == "G13":
        _, kind = unit
        enc = "utf-8"
        for firstrem in WS_FIRST:
            for heads in WS_HEADS:
                for form in ("u", "2l"):
                    cons = ws_construct(al, enc, kind, firstrem, heads, form)
                    for eol in ("lf", "crlf"):
                        for arr in ("none", "imm"):
                            doc = single_doc(al, enc, cons, 1, eol, arr, "text")
                            doc["desc"]["ws_head"] = [firstrem, list(heads)]
                            yield from ext_cases(doc, al, enc)
    elif g == "G14":
        for spec in regex_tags(al):
            for order in (0, 1):
                for extra in (False, True):
                    for eol in ("lf", "crlf"):
                        yield from ext_cases_tags(regex_tag_doc(al, "utf-8", spec, order, extra, eol), al, "utf-8")
    elif g == "G15":
        # a message literal containing a character that str.splitlines() / \s treat as a line break or blank but
        # that is an ordinary character inside a Python string literal: FF, VT, FS/GS/RS, NEL, LS, PS
        _, li = unit
        layout = LAYOUTS[li]
        for ci, ch in enumerate(RARE_CHARS):
            for enc in ("ascii", "utf-8", "latin-1"):
                if ord(ch) > 0x7F and enc == "ascii" or ord(ch) > 0xFF and enc == "latin-1":
                    continue
                ral = RareAlphabet(al, ch)
                for form in ("u", "2l") if tier != "quick" or layout is CANON[layout[0]] else ("u",):
                    if form not in forms_of(layout):
                        continue
                    cons = construct(ral, enc, layout, form)
                    for eol in ("lf", "crlf"):
                        for arr in ("none", "imm"):
                            doc = single_doc(ral, enc, cons, 1, eol, arr, "text")
                            doc["desc"] = dict(doc["desc"], rare_char="U+%04X" % ord(ch))
                            yield from ext_cases(doc, ral, enc, lingua=(enc == "utf-8"))
    elif g == "G16":
        # the construct far down: 9 / 99 / 100 / 999 / 1000 filler lines before it (line numbers gain a digit)
        _, li = unit
        layout = LAYOUTS[li]
        for form in ("u", "2l"):
            if form not in forms_of(layout):
                continue
            cons = construct(al, "utf-8", layout, form)
            for P in ((9, 99, 999) if tier == "quick" else (8, 9, 10, 98, 99, 100, 998, 999, 1000)):
                for eol in ("lf", "crlf"):
                    for arr in ("none", "imm", "stack-tagged"):
                        doc = single_doc(al, "utf-8", cons, P, eol, arr, "text")
                        yield from ext_cases(doc, al, "utf-8")
    elif g == "V":
        return
    else:
        raise ValueError(unit)


# expressions with a filter list: every combination of line breaks before the '|', after it, inside the list and
# between the list and the closing brace
FILT_LAYOUTS = [("filtx", "b%da%dt%d" % (b, a, t), j) for b in (0, 1) for a in (0, 1, 2) for t in (0, 1, 2) for j in (0, 1, 2)] + [
    ("filtx", "b%da%dt%dh" % (b, a, t), j) for b in (0, 1) for a in (0, 1) for t in (0, 1, 2) for j in (0, 1, 2)
] + [("filtx", "b%da%dt%d%sc" % (b, a, t, h), j) for b in (0, 1) for a in (0, 1) for t in (1, 2) for h in ("", "h") for j in (0, 1)]


def filt_construct(al, enc, layout, form, with_expr_call):
    """a filtx construct; optionally a second call in the expression part (left of the '|')"""
    if not with_expr_call or layout[1].rstrip("c").endswith("h"):
        return construct(al, enc, layout, form)
    cons = construct(al, enc, layout, form, n="@")
    eparts, ecalls = make_parts(al, enc, "g", "e")
    for k in ecalls:
        k.pop("part")
        k.update(kind="filtx", style=layout[1] + "+expr", lead=0, tagoff=0, filtoff=0)
    cons["main"] = cons["main"].replace("EXPR@", eparts[0]).replace(al.f + "@(", al.f + "(")
    cons["calls"] = ecalls + cons["calls"]
    return cons


# interleaved extractions: layouts whose line is right when extracted alone (the open known findings are left out)
INTER_A = [l for l in LAYOUTS if l[1] not in ("tagattr", "nlafter")]


def stale_allowed(xname, lb):
    if xname.split("-")[0] == "page" and lb[0] == "page":
        return False
    if xname.endswith("-body") and lb[0] in TOP_ONLY + ("block",):
        return False
    return True


def forms_of(layout, forms=None):
    # a continued '% elif' is not a usable template (see LAYOUTS)
    return [f for f in (forms or FORMS) if not (layout[0] == "elif" and (f == "2l" or f.endswith(":bs")))]


def units(tier):
    us = []
    for li in range(len(LAYOUTS)):
        for form in forms_of(LAYOUTS[li]):
            us.append(("G1", li, form))
    for li in range(len(LAYOUTS)):
        for form in forms_of(LAYOUTS[li]):
            us.append(("G2", li, form))
    for li, layout in enumerate(LAYOUTS):
        for cont in CONTAINERS[1:]:
            if allowed(layout, cont):
                us.append(("G3", li, cont))
    n = len(KINDS) if tier == "quick" else len(LAYOUTS)
    for ai in range(n):
        us.append(("G4", ai))
    if tier != "quick":
        for ai in range(len(KINDS)):
            for bi in range(len(KINDS)):
                us.append(("G5", ai, bi))
    for xi in range(len(STALE_X)):
        us.append(("G6", xi))
    for li in range(len(LAYOUTS)):
        for form in forms_of(LAYOUTS[li], SPACED_FORMS):
            us.append(("G7", li, form))
    for ai in range(len(INTER_A)):
        us.append(("G8", ai))
    for fi in range(len(FILT_LAYOUTS)):
        us.append(("G9", fi))
    seqs = option_sequences()
    for i in range(0, len(seqs), 6):
        us.append(("G10", i, min(i + 6, len(seqs))))
    n = len(reused_sequences())
    for i in range(0, n, 8):
        us.append(("G11", i, min(i + 8, n)))
    for bi in range(len(BLOCK_SHAPES)):
        us.append(("G12", bi))
    for kind in ("expr", "code", "modcode"):
        us.append(("G13", kind))
    us.append(("G14",))
    for li in range(len(LAYOUTS)):
        us.append(("G15", li))
    for li in range(len(LAYOUTS)):
        if tier != "quick" or LAYOUTS[li] is CANON[LAYOUTS[li][0]]:
            us.append(("G16", li))
    return us


# --------------------------------------------------------------------------
# G13: whitespace-only lines at the head of a block / an expression

WS_FIRST = ["", " ", "\t"]  # what follows '<%' / '${' on its own line
_WS = ["", "    ", "\t", "  \t "]
WS_HEADS = [()] + [(a,) for a in _WS] + [(a, b) for a in _WS for b in _WS]


def ws_construct(al, enc, kind, firstrem, heads, form):
    parts, calls = make_parts(al, enc, form, "")
    head = firstrem + "\n" + "".join(h + "\n" for h in heads)
    if kind == "expr":
        main = "${" + head + " " + py_br(0, parts) + "\n}"
    else:
        main = ("<%" if kind == "code" else "<%!") + head + "    x = " + py_br(0, parts) + "\n%>"
    lead = 1 + len(heads)
    for k in calls:
        k.pop("part")
        k.update(kind=kind, style="ws-head", lead=lead, tagoff=0, filtoff=0)
    return {"head": "", "main": main, "inline_after": True, "lead": lead, "tagoff": 0, "calls": calls, "layout": (kind, "ws-head", lead), "form": form}


# --------------------------------------------------------------------------
# G14: configured comment tags that contain regular-expression metacharacters

def regex_tags(al):
    """(tag, look-alike comment start or None, look-alike takes a word after it)"""
    b = al.tag.rstrip(":")
    last = b[-1]
    specs = [
        ("[%s]" % b, last + "x", True),
        ("(%s)" % b, b, True),
        (b + ".", b + ":", True),
        (b + "*", b + last, True),
        (b + "+", b + last, True),
        (b + "?:", b[:-1] + ":", True),
        (b + "|ZZ", "ZZ", True),
        ("^" + b, b, True),
        (b + "$", b, False),
        (b + "\\d", b + "1", True),
        (b + "{2}", b + last, True),
        ("{%s}" % b, None, True),
        (b + "(", None, True),
        (b + "[", None, True),
        (b + "\\", None, True),
        (b + ")", None, True),
    ]
    for tag, look, _w in specs:
        assert look is None or not look.startswith(tag), (tag, look)
    return specs


def regex_tag_doc(al, enc, spec, order, extra, eol):
    tag, look, word = spec
    w = al.plain(enc)
    c_lit = "%s %s1" % (tag, w)
    items = [("literal", c_lit, True)]
    if look is not None:
        items.append(("lookalike", look + (" " + w + "2" if word else ""), False))
    if order:
        items.reverse()
    cons = [construct(al, enc, ("expr", "code", 0), "u", base="ra", n="1"), construct(al, enc, ("code", "lead", 1), "2l", base="rb", n="2")]
    text = ""
    planted = []
    for (role, comment, attach), c in zip(items, cons):
        text += al.filler + "\n## " + comment + "\n" + c["main"] + "\n"
        for k in c["calls"]:
            planted.append(dict(k, req=[comment] if attach else [], opt=[], arr="regex-tag:" + role))
    doc = finish_doc(text, eol, planted, {}, {"regex_tag": tag, "order": order, "extra": extra})
    doc["tags"] = ([al.tag2] if extra else []) + [tag]
    return doc


def ext_cases_tags(doc, al, enc):
    """like ext_cases, with the comment tags the document itself configures"""
    for c in ext_cases(doc, al, enc):
        c["tags"] = list(doc["tags"])
        c["cfg"] = dict(c["cfg"], name=c["cfg"]["name"] + "/tags=" + " ".join(doc["tags"]))
        yield c


# --------------------------------------------------------------------------
# G12: <% %> / <%! %> blocks with compound statements whose header lines carry a trailing Python comment

BLOCK_SHAPES = [(k, st_, first) for k in ("code", "modcode") for st_ in ("lead", "inline") for first in ("import", "assign", "call")]
COMPOUNDS = ["if", "for", "while", "with", "try", "def", "class", "if-else"]
HEADER_COMMENTS = ["", "  # the common case", "  # case: a", "# tight"]
BLOCK_WHERE = ["b", "i", "a", "bi", "ia", "ba", "bia"]  # calls before / inside / after the compound statement


def block_construct(al, enc, kind, style, first, comp, hc, where):
    calls = []

    def call(func, ident):
        src, val = al.msg(enc, ident)
        text = "%s('%s')" % (func, src)
        calls.append({"func": func, "msgs": [val], "text": text})
        return text

    lines = []
    lines.append({"import": "import os", "assign": "y = 0", "call": "y = len(str(0))"}[first])
    if "b" in where:
        lines.append("v = " + call("_", "k0"))
    inner = "z = " + call("gettext", "k1") if "i" in where else "z = 1"
    if comp == "if":
        lines += ["if y == 0:" + hc, "    " + inner]
    elif comp == "if-else":
        lines += ["if y == 0:" + hc, "    z = 2", "else:" + hc, "    " + inner]
    elif comp == "for":
        lines += ["for n in range(3):" + hc, "    " + inner]
    elif comp == "while":
        lines += ["while y < 0:" + hc, "    " + inner]
    elif comp == "with":
        lines += ["with ctx() as q:" + hc, "    " + inner]
    elif comp == "try":
        lines += ["try:" + hc, "    " + inner, "except ValueError:" + hc, "    z = 0"]
    elif comp == "def":
        lines += ["def g(a, b=1):" + hc, "    " + inner, "    return z"]
    elif comp == "class":
        lines += ["class C(object):" + hc, "    " + inner]
    if "a" in where:
        lines.append("w = " + call("_", "k2"))
    op = "<%" if kind == "code" else "<%!"
    if style == "lead":
        main = op + "\n" + "".join("    " + l + "\n" for l in lines) + "%>"
        lead = 1
    else:
        main = op + " " + "\n".join(lines) + "\n%>"
        lead = 0
    for k in calls:
        # Python '#' comments inside the block are outside the statement: the comment clauses are not judged here
        k.update(kind=kind, style="block-" + comp, lead=lead, tagoff=0, filtoff=0, anycomment=True)
    return {"head": "", "main": main, "inline_after": True, "lead": lead, "tagoff": 0, "calls": calls, "layout": (kind, "block-" + style, 0), "form": "block"}


# --------------------------------------------------------------------------
# G11: one long-lived extractor object, reconfigured between extractions

TAGSETS = {"A": [0], "B": [1], "AB": [0, 1], "none": []}


def reused_sequences():
    seqs = []
    names = list(TAGSETS)
    for ext, methods in (("lingua", ("update_config", "config-assignment")), ("babel", ("config-assignment",))):
        for m in methods:
            for a in names:
                for b in names:
                    if a != b:
                        seqs.append((ext, m, "comment-tags", [a, b]))
            seqs.append((ext, m, "comment-tags", ["A", "B", "A"]))
            seqs.append((ext, m, "comment-tags", ["AB", "none", "B"]))
    for m in ("update_config", "config-assignment"):
        for a in LINGUA_FILE:
            for b in LINGUA_FILE:
                if a != b:
                    seqs.append(("lingua", m, "encoding", [a, b]))
    # a tagged comment still waiting for its construct when one document ends must not reach the next document
    for ext, m in (("lingua", "update_config"), ("lingua", "config-assignment"), ("babel", "config-assignment")):
        for a in PENDING_FIRST:
            for b in PENDING_SECOND:
                seqs.append((ext, m, "pending-comment", [a, b]))
                seqs.append((ext, m, "pending-comment", [a, b, a, b]))
    return seqs


PENDING_FIRST = ["comment-at-eof", "comment-then-text", "comment-inside-def-at-its-end", "comment-then-doc-section", "two-comment-lines-at-eof"]
PENDING_SECOND = ["message-on-line-1", "message-on-line-2", "plain-comment-then-message", "message-late", "block-on-line-1"]


def pending_doc(al, enc, kind, base):
    w = al.plain(enc)
    stale = "%s %sstale" % (al.tag, w)
    A = construct(al, enc, ("expr", "code", 0), "u", base=base + "a", n="1")
    own = "%s %sown" % (al.tag, w)
    planted = []
    if kind in PENDING_FIRST:
        text = "## " + own + "\n" + A["main"] + "\n" + al.filler + "\n"
        for k in A["calls"]:
            planted.append(dict(k, req=[own], opt=[], arr="own"))
        text += {
            "comment-at-eof": "## " + stale + "\n",
            "comment-then-text": "## " + stale + "\n" + al.filler + "\n" + al.filler + "\n",
            "comment-inside-def-at-its-end": '<%def name="zd()">\n' + al.filler + "\n## " + stale + "\n</%def>\n",
            "comment-then-doc-section": "## " + stale + "\n<%doc>\n" + al.filler + "\n</%doc>\n",
            "two-comment-lines-at-eof": "## " + stale + "\n## " + w + "more\n",
        }[kind]
    else:
        head = {
            "message-on-line-1": "",
            "message-on-line-2": al.filler + "\n",
            "plain-comment-then-message": "## " + w + "plain\n",
            "message-late": (al.filler + "\n") * 9,
            "block-on-line-1": "",
        }[kind]
        if kind == "block-on-line-1":
            A = construct(al, enc, ("code", "lead", 1), "2l", base=base + "b", n="2")
        text = head + A["main"] + "\n" + al.filler + "\n"
        for k in A["calls"]:
            planted.append(dict(k, req=[], opt=[], arr="none"))
    doc = finish_doc(text, "lf", planted, {}, {"reused": True})
    doc["tags"] = [al.tag]
    return doc


def tag_doc(al, enc, configured, base):
    """two constructs, the first under a comment with tag A, the second under one with tag B; what is attached
    depends on which of the two tags are configured"""
    tagsAB = [al.tag, al.tag2]
    w = al.plain(enc)
    cA, cB = "%s %s1" % (tagsAB[0], w), "%s %s2" % (tagsAB[1], w)
    A = construct(al, enc, ("expr", "code", 0), "u", base=base + "a", n="1")
    B = construct(al, enc, ("code", "lead", 1), "2l", base=base + "b", n="2")
    text = al.filler + "\n## " + cA + "\n" + A["main"] + "\n" + al.filler + "\n## " + cB + "\n" + B["main"] + "\n"
    planted = []
    for k in A["calls"]:
        planted.append(dict(k, req=[cA] if 0 in configured else [], opt=[], arr="tagA"))
    for k in B["calls"]:
        planted.append(dict(k, req=[cB] if 1 in configured else [], opt=[], arr="tagB"))
    doc = finish_doc(text, "lf", planted, {}, {"reused": True})
    doc["tags"] = [tagsAB[i] for i in configured]
    return doc


def reused_case(al, seq):
    ext, method, changed, names = seq
    docs = []
    for i, name in enumerate(names):
        if changed == "pending-comment":
            enc = "utf-8"
            cfg = {"name": "reused/" + name, "enc": enc, "transport": "fileobj" if ext == "lingua" else "bytes", "options": {"encoding": "utf-8"}}
            d = pending_doc(al, enc, name, "s%d" % i)
            d.update(ext=ext, cfg=cfg)
            docs.append(d)
            continue
        if changed == "comment-tags":
            enc, configured = "utf-8", TAGSETS[name]
            cfg = {"name": "reused/" + name, "enc": enc, "transport": "fileobj" if ext == "lingua" else "bytes", "options": {"encoding": "utf-8"}}
        else:
            enc, configured = name, TAGSETS["AB"]
            cfg = {"name": "reused/" + name, "enc": enc, "transport": "file", "enc_option": enc}
        d = tag_doc(al, enc, configured, "s%d" % i)
        d.update(ext=ext, cfg=cfg)
        docs.append(d)
    return {
        "ext": ext,
        "mode": "reused",
        "method": method,
        "changed": changed,
        "cfg": {"name": "reused:%s:%s:%s" % (method, changed, ">".join(names)), "transport": "reused"},
        "src": "\x00".join(d["src"] for d in docs),
        "docs": docs,
        "expect": [e for d in docs for e in d["expect"]],
        "decoys": {},
        "tags": [],
        "desc": {"reused": [method, changed, names]},
    }


# --------------------------------------------------------------------------
# G10: sequences of extractions with different options in one fresh interpreter (process-wide state)

SEQ_BABEL = {
    "utf-8/no-option": ("utf-8", "bytes", {}),
    "utf-8/input_encoding": ("utf-8", "bytes", {"input_encoding": "utf-8"}),
    "cp1251/input_encoding": ("cp1251", "bytes", {"input_encoding": "cp1251"}),
    "latin-1/input_encoding": ("latin-1", "bytes", {"input_encoding": "latin-1"}),
    "utf-8/encoding": ("utf-8", "bytes", {"encoding": "utf-8"}),
    "cp1251/encoding": ("cp1251", "bytes", {"encoding": "cp1251"}),
    "latin-1/encoding": ("latin-1", "bytes", {"encoding": "latin-1"}),
    "cp1251/magic-comment": ("cp1251", "magic", {}),
}


def option_sequences():
    """ordered pairs (first, second) of distinct configurations; same keywords and comment tags throughout"""
    seqs = [("babel", a, b) for a in SEQ_BABEL for b in SEQ_BABEL if a != b]
    seqs += [("lingua", a + "/file", b + "/file") for a in LINGUA_FILE for b in LINGUA_FILE if a != b]
    seqs += [("lingua", a + "/file", b + "/fileobj") for a in ("cp1251", "latin-1") for b in ("utf-8",)]
    return seqs


def seq_case(al, ext, cfgname, base):
    """a two-construct template (an expression and a two-line <% %> block) under one configuration"""
    tags = [al.tag, al.tag2]
    if ext == "babel":
        enc, transport, options = SEQ_BABEL[cfgname]
        cfg = {"name": cfgname, "enc": enc, "transport": "bytes", "options": options}
    else:
        enc, transport = cfgname.split("/")
        cfg = {"name": cfgname, "enc": enc, "transport": transport}
        if transport == "file":
            cfg["enc_option"] = enc
    A = construct(al, enc, ("expr", "code", 0), "u", base=base + "a", n="1")
    B = construct(al, enc, ("code", "lead", 1), "2l", base=base + "b", n="2")
    doc = multi_doc(al, enc, [A, B], "nl", 0, "lf")
    if ext == "babel" and transport == "magic":
        doc["src"] = "## -*- coding: %s -*-\n" % enc + doc["src"]
        doc["expect"] = [dict(e, line=e["line"] + 1) for e in doc["expect"]]
    doc["desc"] = dict(doc["desc"], sequence=True)
    return dict(doc, ext=ext, tags=tags, cfg=cfg)


def run_sequences(unit, al, st):
    seqs = option_sequences()[unit[1] : unit[2]]
    for ext, first, second in seqs:
        c1 = seq_case(al, ext, first, "p")
        c2 = seq_case(al, ext, second, "q")
        ok = core.isolated_replay(__name__, [c1, c2])
        st.evaluations += 2
        st.transitions += 2
        st.traces += 1
        st.states += 1
        st.nontrivial += 1
        st.oracles[ext + ":sequence"] += 1
        g = st.extra.setdefault("cases_per_group", {})
        g["G10:" + ext] = g.get("G10:" + ext, 0) + 1
        if ok is None:
            st.extra.setdefault("harness_errors", []).append("sequence replay gave no verdict: %s %s -> %s" % (ext, first, second))
            continue
        st.outcomes[(ext, "sequence", "ok" if ok else "viol")] += 1
        if ok is False:
            alone = core.isolated_replay(__name__, [c2])
            if alone is False:
                # fails without any history: the ordinary grid reports it with its own signature
                case = dict(c2, prelude=[])
                sig = "%s:sequence:%s fails alone" % (ext, second)
            else:
                case = dict(c2, prelude=[c1])
                sig = "%s:order-dependent:%s after an earlier extraction with %s" % (ext, option_class(second), option_class(first))
            st.violation(sig, case, "an extraction yields what it yields alone, whatever was extracted before in the process", expected="as alone", observed="differs after " + first)


def option_class(cfgname):
    return cfgname.split("/", 1)[1]


def plan(tier, seed):
    us = units(tier)
    # deterministic spread: costly G1 units first, round-robin over the jobs
    njobs = 64 if tier == "quick" else 256
    jobs = [{"tier": tier, "seed": seed, "units": []} for _ in range(njobs)]
    for i, u in enumerate(us):
        jobs[(i + seed) % njobs]["units"].append(list(u))
    jobs = [j for j in jobs if j["units"]]
    jobs.append({"tier": tier, "seed": seed, "units": [["V"]]})
    return jobs


def is_nontrivial(case):
    d = case["desc"]
    if not case["expect"]:
        return False
    if "multi" in d or "stale" in d or "interleave" in d or "sequence" in d or "reused" in d or "block" in d or "ws_head" in d or "regex_tag" in d:
        return True
    return (
        d["arr"] != "none"
        or d["decoy"] != "none"
        or d["container"] != "top"
        or d["layout"][2] > 0
        or case["cfg"]["transport"] != "bytes"
        or bool(case["cfg"].get("options"))
    )


def run_job(job):
    st = Stats()
    al = Alphabet(job["seed"])
    st.extra["alphabet"] = al.describe()
    tier = job["tier"]
    seen = set()
    scratch = None
    for unit in job["units"]:
        unit = tuple(unit)
        if unit[0] == "V":
            validity(al, st)
            continue
        if unit[0] == "G10":
            run_sequences(unit, al, st)
            continue
        for case in gen_unit(unit, tier, al):
            key = (case["ext"], case["cfg"]["name"], case["src"])
            if key in seen:
                continue
            seen.add(key)
            if (case["cfg"]["transport"] == "file" or case.get("changed") == "encoding") and scratch is None:
                scratch = core.scratch_dir("c20")
            check(case, st, scratch, unit[0])
    st.extra["lingua_line_base"] = _lingua_state.get("base", "n/a")
    return st


MAX_ISOLATED = 4  # fresh-interpreter verifications per job (each costs an interpreter start)
_recent = collections.OrderedDict()  # (extractor, configuration) -> the latest case this worker ran with it
_known_cache = []


def _known():
    if not _known_cache:
        _known_cache.append(core.load_known(PROPERTY))
    return _known_cache[0]


def check(case, st, scratch, group):
    obs = execute(case, scratch)
    if "docs" not in case:
        k = (case["ext"], case["cfg"]["name"])
        _recent.pop(k, None)
        _recent[k] = case
    if "docs" in case:
        st.evaluations += len(case["docs"])
        st.transitions += sum(1 if isinstance(o, dict) else max(1, len(o)) for o in obs)
        st.oracles[case["ext"] + ":" + case.get("mode", "interleaved")] += 1
    else:
        st.evaluations += 1
        st.transitions += 1 if isinstance(obs, dict) else max(1, len(obs))
    st.traces += 1
    st.states += 1
    if is_nontrivial(case):
        st.nontrivial += 1
    ext = case["ext"]
    st.oracles[ext + ":message-multiset"] += 1
    st.oracles[ext + ":line"] += len(case["expect"])
    st.oracles[ext + ":comments"] += len(case["expect"])
    if case["decoys"]:
        st.oracles[ext + ":no-decoy"] += 1
    viol = judge(case, obs)
    st.outcomes[outcome_class(case, obs, viol)] += 1
    g = st.extra.setdefault("cases_per_group", {})
    g[group + ":" + ext] = g.get(group + ":" + ext, 0) + 1
    if viol:
        # determinism: the worker re-executes before reporting (the first cases of every signature)
        obs2 = obs
        if any(st.sigcount[v[0]] < 3 for v in viol):
            obs2 = execute(case, scratch)
        if obs2 != obs:
            st.extra.setdefault("harness_errors", []).append("non-deterministic extraction: %r vs %r on %r" % (obs, obs2, case["src"]))
            return
        seen_sig = set()
        prelude = "?"
        for sig, oracle, expected, observed in viol:
            if sig in seen_sig:
                continue
            seen_sig.add(sig)
            if st.sigcount[sig] >= 1 or core.match_known(_known(), sig) is not None:
                # counted; the written-out, verified witness of this signature is the first one (known findings
                # are not replayed by core.finish)
                if core.match_known(_known(), sig) is not None and st.sigcount[sig] < 3:
                    st.violation(sig, case, oracle, expected=expected, observed={"this": observed, "all": obs})
                else:
                    st.sigcount[sig] += 1
                continue
            # process-wide state: does the case fail in a fresh interpreter, alone or after one recent case?
            if prelude == "?":
                budget = st.extra.get("isolated_checks", 0)
                if budget >= MAX_ISOLATED:
                    prelude = "skip"
                else:
                    st.extra["isolated_checks"] = budget + 1
                    prelude = core.find_prelude(__name__, case, list(_recent.values()), max_tries=24)
            if prelude == "skip":
                st.sigcount[sig] += 1
                continue
            if prelude is None:
                st.extra.setdefault("harness_errors", []).append(
                    "violation in the worker that neither reproduces alone nor after one of the recent cases: %s on %r" % (sig, case["src"])
                )
                continue
            vcase = dict(case, prelude=prelude)
            if prelude:
                sig = "%s:order-dependent:%s after an earlier extraction with %s (%s)" % (
                    case["ext"], option_class(case["cfg"]["name"]), option_class(prelude[0]["cfg"]["name"]), sig.split(":", 1)[1])
            st.violation(sig, vcase, oracle, expected=expected, observed={"this": observed, "all": obs})
    if st.evaluations % 20011 == 1:
        st.sample({"ext": ext, "cfg": case["cfg"]["name"], "src": case["src"], "expect": [[e["line"], e["func"], e["msgs"], e["req"]] for e in case["expect"]], "observed": obs})


def validity(al, st):
    """planter self-check: every construct (and container) is a template Mako compiles"""
    from mako.template import Template

    n = 0
    for layout in LAYOUTS:
        for form in forms_of(layout) + ["dummy"]:
            for cont in CONTAINERS:
                if not allowed(layout, cont):
                    continue
                if cont != "top" and form not in ("u", "2l"):
                    continue
                cons = construct(al, "utf-8", layout, form)
                doc = single_doc(al, "utf-8", cons, 1, "lf", "imm", "text", cont)
                try:
                    Template(doc["src"], imports=["_ = gettext = lambda s: s", "ngettext = lambda s, p, n: s", "n = x = 1"])
                    n += 1
                except BaseException as e:  # noqa
                    st.extra.setdefault("harness_errors", []).append(
                        "planter produced a template Mako rejects: %s: %s\n%s" % (type(e).__name__, str(e)[:200], doc["src"])
                    )
    for layout in LAYOUTS:
        for form in forms_of(layout, SPACED_FORMS):
            cons = construct(al, "utf-8", layout, form)
            doc = single_doc(al, "utf-8", cons, 1, "lf", "imm", "text")
            try:
                Template(doc["src"], imports=["_ = gettext = lambda s: s", "ngettext = lambda s, p, n: s", "n = x = 1"])
                n += 1
            except BaseException as e:  # noqa
                st.extra.setdefault("harness_errors", []).append(
                    "planter produced a template Mako rejects: %s: %s\n%s" % (type(e).__name__, str(e)[:200], doc["src"])
                )
    for kind in ("expr", "code", "modcode"):
        for firstrem in WS_FIRST:
            for heads in WS_HEADS:
                cons = ws_construct(al, "utf-8", kind, firstrem, heads, "2l")
                doc = single_doc(al, "utf-8", cons, 1, "lf", "imm", "text")
                try:
                    Template(doc["src"], imports=["_ = gettext = lambda s: s", "ngettext = lambda s, p, n: s", "n = x = 1"])
                    n += 1
                except BaseException as e:  # noqa
                    st.extra.setdefault("harness_errors", []).append(
                        "planter produced a template Mako rejects: %s: %s\n%r" % (type(e).__name__, str(e)[:200], doc["src"])
                    )
    for kind, style, first in BLOCK_SHAPES:
        for comp in COMPOUNDS:
            for hc in HEADER_COMMENTS:
                cons = block_construct(al, "utf-8", kind, style, first, comp, hc, "bia")
                doc = single_doc(al, "utf-8", cons, 1, "lf", "imm", "text")
                try:
                    Template(doc["src"], imports=["_ = gettext = lambda s: s", "ngettext = lambda s, p, n: s", "n = x = 1", "y = 0", "from contextlib import nullcontext as ctx"])
                    n += 1
                except BaseException as e:  # noqa
                    st.extra.setdefault("harness_errors", []).append(
                        "planter produced a template Mako rejects: %s: %s\n%s" % (type(e).__name__, str(e)[:200], doc["src"])
                    )
    for layout in FILT_LAYOUTS:
        for wec in (False, True):
            cons = filt_construct(al, "utf-8", layout, "2l", wec)
            doc = single_doc(al, "utf-8", cons, 1, "lf", "imm", "text")
            try:
                Template(doc["src"], imports=["_ = gettext = lambda s: s", "ngettext = lambda s, p, n: s", "n = x = 1"])
                n += 1
            except BaseException as e:  # noqa
                st.extra.setdefault("harness_errors", []).append(
                    "planter produced a template Mako rejects: %s: %s\n%s" % (type(e).__name__, str(e)[:200], doc["src"])
                )
    for xname in STALE_X:
        for k in KINDS:
            if not stale_allowed(xname, CANON[k]):
                continue
            B = construct(al, "utf-8", CANON[k], "u", base="b", n="2")
            doc = stale_doc(al, "utf-8", xname, B, 1, "untagged", "lf")
            try:
                Template(doc["src"], imports=["_ = gettext = lambda s: s", "ngettext = lambda s, p, n: s", "n = x = 1"])
                n += 1
            except BaseException as e:  # noqa
                st.extra.setdefault("harness_errors", []).append(
                    "planter produced a template Mako rejects: %s: %s\n%s" % (type(e).__name__, str(e)[:200], doc["src"])
                )
    st.extra["planter_templates_compiled"] = n


def replay(case):
    case = core.unjson(case)
    if case.get("prelude"):
        rest = {k: v for k, v in case.items() if k != "prelude"}
        ok = core.isolated_replay(__name__, list(case["prelude"]) + [rest])
        return ok, "fresh interpreter, %d earlier case(s) first: %s" % (len(case["prelude"]), {False: "reproduced", True: "holds", None: "no verdict"}[ok])
    obs = execute(case)
    viol = judge(case, obs)
    if viol:
        return False, "reproduced: %r\nobserved: %r" % (viol[0][:2], obs)
    return True, "holds: %r" % (obs,)


RULE = (
    "every template of the grid G1..G5 (BOUNDS) paired with an extractor configuration; canonical = (template "
    "text, extractor, configuration), de-duplicated.  Non-trivial = at least one planted call and at least one of: "
    "a translator-comment arrangement, a decoy, a container, a call that is not on the first line of its "
    "construct, a second/third construct, a non-default transport or option."
)
ASSUMPTIONS = [
    "Babel's extract_python and Lingua's Python extractor are trusted for plain Python; Lingua's line base is calibrated on a .py source in the same process, not assumed",
    "a planted call (name, parenthesis, message literals) is written on one line, so 'the line on which the call is written' is unambiguous; "
    "where a backslash-newline separates the name from the parenthesis (G7) either of the two lines is accepted",
    "translator comment continuation lines without a tag may or may not be attached (not fixed by the statement): accepted either way; "
    "a comment line directly above a line whose first constructs carry no message is accepted on the first message of that line either way",
    "no call is planted in try/else/except lines (Lingua drops them by design) nor in raw-string / f-string messages",
    "CPython str/codecs are trusted for producing the source bytes",
]
LEVEL_TEXT = (
    "Every template of the bounded grid (14 construct kinds in 60 layouts, 5 gettext forms, call on line 0..2 of the construct, 0/1/3 lines before, "
    "LF/CRLF, 11 translator-comment arrangements, 6 decoy kinds, 4 source encodings plus 10 further transports/options, 9 containers, all ordered pairs "
    "(thorough: triples) of constructs) is extracted by the real Babel and Lingua plugins and compared message by message, line by line, comment by "
    "comment with the planter's knowledge.  Complete within those bounds; no sampling."
)
LEVEL_NOTE = "Trusted: CPython, Babel's and Lingua's own Python extractors, the planter (its templates are compiled by Mako as a self-check)."
READY = True
